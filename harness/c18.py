"""C18 - BLE broadcast notifications are accepted only if authentic and fresh."""
from __future__ import annotations

import hashlib
import itertools
import json
import struct
from unittest.mock import MagicMock

from cryptography.hazmat.primitives.ciphers.aead import ChaCha20Poly1305

from harness import refacc
from harness.common import Ctx, Driver, compare_with_model, hx, load_corpus, unhx

ID = "C18"
RULE = ("histories of advertisements over {genuine last+1, last+k (k<100), last, last-k, beyond the window (+100, +150), wrong key, wrong advertising id (other accessory), single-bit "
        "corruptions of payload and 4-byte tag, inner counter != nonce counter, too-short payloads}, all characteristic formats and boundary values, start state numbers incl. 0 and near "
        "65535; EXHAUSTIVE to depth 4 (quick) / 5 (thorough) over a 9-symbol alphabet + random to length 50. non-trivial = distinct (start, history); "
        "dbhist: histories over TWO pairings of one controller (own advertising id, key, database, state number, listeners) in which a pairing's accessory database is REPLACED between "
        "notifications - restore_accessories_state on the live pairing, a controller restart from the characteristic cache followed by a restore, and the library's own re-read of the GATT "
        "database after a configuration-number bump in the regular advertisement (fake radio, real pair-verify) - with instance ids that change format (all 72 ordered format pairs), disappear "
        "and appear, and in which the broadcast key is REGENERATED (the application re-subscribes and re-populates over a fresh connection: sealings under the previous key, fresh or replayed, "
        "no longer authenticate; a pairing that had no key gets one), interleaved with genuine, replayed, stale, far, forged, cross-accessory and unrouted advertisements and listeners that connect, disconnect and raise; oracle = the harness's "
        "own bookkeeping of the CURRENT database / last accepted number / connected listeners and an independent reading of the sealed value bytes; "
        "life: histories that START WITH THE APPLICATION PROCESS instead of a pairing that is already set up - a characteristic cache entry with / without a stored state number (None, 0, below / equal to / "
        "above what the accessory announces) and with / without a broadcast key, then every order (exhaustive to depth 3 quick / 4 thorough, + directed + random) of {the scanner sees the accessory's regular "
        "advertisement, load_pairing, load_pairing AGAIN on the same controller, restore_accessories_state with a stored number below / equal / above / none and with / without key, restart = a new controller "
        "over the same cache, accessory events with and without a broadcast}, interleaved with and followed by the advertisement alphabet (repeat of the latest broadcast, older, ancient = small absolute "
        "numbers, next, +5, beyond the window, replays of anything broadcast before, wrong key, wrong associated advertising id, bit flips, inner counter, unknown instance id, short); the accessory's own "
        "state number only grows; oracle = the harness's bookkeeping of the state numbers the CURRENT pairing object has legitimately learned in this process (the regular advertisement known when it was "
        "loaded or processed for it, else the cache entry it was loaded from, then accepted notifications): nothing is accepted at or below it, outside the window, without a key or before ANY number has "
        "been learned; the notify histories establish their start number through the same start-up orders in turn (notify/boot/*) and are judged against the harness's own last-accepted number; "
        "top: histories through the TOP-LEVEL Controller in which pairings END and others BEGIN - async_start (stand-in scanner), load_pairing / load_data, subscribe + populate over a fake radio with a real "
        "pair-verify (the accessory generates a broadcast key bound to that session and that controller key), Controller.remove_pairing succeeding, failing in every way the transport can fail (accessory out of "
        "reach with each error class of the connector, link lost at each GATT operation of the exchange on every / only the first connection, removal refused, wrong state, empty answer, PDU status, hang-up before "
        "the answer is processed, a disconnect that raises) and cancelled at ten moments, asked twice; then load_pairing with the SAME or with NEW pairing data (accessory factory reset: state number restarts / "
        "paired again: it continues; also stale data of the previous identity), a process restart over the same characteristic cache (memory object / file, stopped / killed) or a deleted cache - interleaved with "
        "accessory events, regular advertisements, replays of every recording and fresh sealings under EVERY broadcast key that ever existed in the history (+ stale, far, inner counter, unknown instance id, "
        "wrong key / associated data / bit flips); directed grid way-of-removing x continuation + random; oracle = the harness's bookkeeping of WHICH pairing identity negotiated WHICH key: a pairing object may "
        "use the keys of its own identity and those its storage chain hands down, and that chain ends with Controller.remove_pairing (any outcome) or the deletion of the cache; state-number candidates as in life")
TRUSTED = ["cryptography ChaCha20Poly1305 (full tag truncated to 4 bytes) as the accessory's sealing"]
ASSUMPTIONS = ["a 32-bit tag is forgeable with probability 2^-32 per candidate: outside the symbolic model",
               "bleak BLEDevice/AdvertisementData are duck-typed mocks; the fall-back poll (_process_disconnected_events) is replaced by a recorder",
               "an authentic notification naming an iid the cached database does not contain raises out of the callback: counted under C19 (callback must not raise), not exercised here",
               "dbhist: the BLE radio is a scripted GATT accessory at the AIOHomeKitBleakClient interface (establish_connection patched); restore_accessories_state is always given the pairing's "
               "own broadcast key and the last accepted state number; the regular advertisement announcing a new configuration number carries the last accepted state number; a GATT re-read the "
               "controller does not complete ends the history without a verdict (counted as dbhist/replace/gatt-incomplete)",
               "life: the scanner is played by calling BleController._device_detected with duck-typed device / advertisement objects; there is no radio (establish_connection fails), the catch-up poll a "
               "regular advertisement requests is the library's own code and ends at once because no connection was ever made; regular advertisements never carry a DECREASING state number (the accessory's "
               "number only grows) and always configuration number 1; where two sources of the last number disagree and the property does not rank them (stored number above the advertised one; a pairing "
               "object created anew, without a regular advertisement known, from a cache entry that is behind what its predecessor accepted - accepted notifications are not written to the cache; a state "
               "number handed over through restore_accessories_state) either is accepted as the reference (counted as life/accepted-below-largest, listed in the notes); a restart is a new process "
               "whose reference starts from the cache entry",
               "top: the scanner is a stand-in class whose detection callback the harness calls; IP / CoAP backends are switched off (no network), the BLE backend is registered by Controller.async_start; the radio is "
               "the scripted GATT accessory of dbhist on a virtual-time loop (connect 0.3 s, 10 ms per GATT operation), pair-setup itself is not run: new pairing data is what a pair-setup with the reset accessory "
               "would have produced; the key in the cache entry at the start belongs to the first identity; a pairing loaded with new pairing data although nothing ever removed the previous identity's cache entry "
               "inherits that entry's key without a verdict (counted as top/load/inherits-entry-of-other-identity-never-removed); pairing objects the application has replaced or removed are judged on listener calls "
               "only, against every number they may have had; numbers a session may or may not have told the pairing are additional candidates; what remove_pairing raises is recorded (top/remove/*), not judged; "
               "histories also run under an AccessoryPairingID that is NOT lower case (the form pair-setup returns): on the unchanged tree Controller.remove_pairing popped the id as given from tables keyed by the "
               "lower-case id, the removed, shut-down pairing stayed in the BLE controller's routing table and re-created its cache entry - broadcast key included - at the next regular advertisement with a new "
               "state number (repaired in /repo, see known_findings.json; gated since)"]
EXPLANATION = "Lean theorems C18_* over the candidate-window automaton with a symbolic partial-tag AEAD (accept => authentic+fresh, reject => unchanged, no replay over histories, value decoding); differential tie through BleController._device_detected"

KEY = bytes(range(32))
ADV = bytes.fromhex("aabbccddeeff")
OTHER = bytes.fromhex("aabbccddee00")


def seal(gsn, iid, value, inner=None, k=KEY, aid=ADV):
    pt = struct.pack("<HH", (gsn if inner is None else inner) & 0xFFFF, iid) + value.ljust(8, b"\0")
    ct = ChaCha20Poly1305(k).encrypt(struct.pack("<LQ", 0, gsn), pt, aid)
    return ct[:-16] + ct[-16:-12]


def adv(payload, aid=ADV):
    data = bytes([0x11, 0x36]) + aid + payload
    a = MagicMock()
    a.manufacturer_data = {76: data}
    a.rssi = -40
    d = MagicMock()
    d.name = "dev"
    d.address = "AA:BB:CC:DD:EE:FF"
    return d, a


FORMATS = {"bool": 10, "uint8": 11, "uint16": 12, "uint32": 13, "uint64": 14, "int": 15, "float": 16, "string": 17, "data": 18}


BOOTS = ("set", "cache", "adv-load", "load-adv", "load-adv-load")


def setup(start, with_key=True, boot="set"):
    """a pairing whose last accepted state number is `start`, reached in one of the orders an application can start up in:
    set: loaded from the cache, description set by hand; cache: loaded from a cache entry that stores `start`; adv-load: the cache entry is
    behind (or has no number), the scanner sees the regular advertisement (state number `start`) BEFORE load_pairing; load-adv: after it;
    load-adv-load: and load_pairing is called again"""
    from aiohomekit.characteristic_cache import CharacteristicCacheMemory
    from aiohomekit.controller.ble.controller import BleController
    from aiohomekit.model import Accessories
    from aiohomekit.model.characteristics import CharacteristicsTypes
    from aiohomekit.model.services import ServicesTypes
    chars = [{"iid": iid, "type": CharacteristicsTypes.BRIGHTNESS, "perms": ["pr", "ev"], "format": fmt, "value": None} for fmt, iid in FORMATS.items()]
    accs = Accessories.from_list([{"aid": 1, "services": [{"iid": 1000, "type": ServicesTypes.LIGHTBULB, "characteristics": chars}]}])
    cache = CharacteristicCacheMemory()
    stored = start if boot in ("set", "cache") else (start - 3 if start >= 4 else None)
    cache.async_create_or_update_map("AA:BB:CC:DD:EE:FF", 1, accs.serialize(), KEY.hex() if with_key else None, stored)
    c = BleController(cache)
    pd = {"AccessoryPairingID": "AA:BB:CC:DD:EE:FF", "AccessoryAddress": "AA:BB:CC:DD:EE:FF", "Connection": "BLE", "iOSPairingId": "x", "iOSDeviceLTPK": "00" * 32}
    log = []

    def load():
        p = c.load_pairing("alias", dict(pd))
        p._process_disconnected_events = lambda: log.append("f")
        p.dispatcher_connect(lambda ev: log.append(ev))
        return p
    if boot == "adv-load":
        c._device_detected(*_life_regular(start, "AA:BB:CC:DD:EE:FF"))
        p = load()
    elif boot in ("load-adv", "load-adv-load"):
        p = load()
        c._device_detected(*_life_regular(start, "AA:BB:CC:DD:EE:FF"))
        if boot == "load-adv-load":
            p = load()
    else:
        p = load()
        if boot == "set":
            # the description (advertised state number) is what _async_notification starts from
            from aiohomekit.controller.ble.manufacturer_data import HomeKitAdvertisement
            p.description = HomeKitAdvertisement.from_cache("AA:BB:CC:DD:EE:FF", "aa:bb:cc:dd:ee:ff", 1, start)
    del log[:]      # what the start-up itself caused (a catch-up poll request) is not part of the history
    return c, p, log


def boots_for(start):
    """the start-up orders that establish `start` as the last state number (a regular advertisement carries 16 bits; a stored 0 counts as no stored number)"""
    if start > 0xFFFF:
        return ("set",)
    return BOOTS if start > 0 else tuple(b for b in BOOTS if b != "cache")


def reference_value(fmt, raw):
    """independent reading of the sealed 8-byte field per HAP format (None = no claim)"""
    b = raw.ljust(8, b"\0")
    if fmt == "bool":
        return f"b:{str(b[0] != 0).lower()}"
    if fmt in ("uint8", "uint16", "uint32", "uint64"):
        n = {"uint8": 1, "uint16": 2, "uint32": 4, "uint64": 8}[fmt]
        return f"n:{int.from_bytes(b[:n], 'little')}"
    if fmt == "int":
        return f"n:{int.from_bytes(b[:4], 'little', signed=True)}"
    if fmt == "float":
        return "f:" + hx(b[:4])
    return None


def canon_value(fmt, v):
    if fmt == "bool":
        return f"b:{str(bool(v)).lower()}"
    if fmt in ("uint8", "uint16", "uint32", "uint64", "int"):
        return f"n:{v}"
    if fmt == "float":
        return "f:" + hx(struct.pack("f", v))
    if fmt == "string":
        return "s:" + hx(v.encode())
    return "h:" + (v if v else "-")


# ================================================================ histories in which the accessory database is REPLACED
# Two paired accessories on one controller (own advertising id, own broadcast key, own database, own state number, own
# listeners).  Between notifications the database of a pairing is replaced through the library's own paths; instance ids
# change format, disappear and appear.  Everything the oracle uses is the harness's own bookkeeping: which database is
# current, the last accepted state number, who listens, and an independent reading of the sealed 8 value bytes.
PAIRS = {
    "A": {"pid": "AA:BB:CC:DD:EE:FF", "adv": ADV, "key": KEY},
    "B": {"pid": "AA:BB:CC:DD:EE:01", "adv": bytes.fromhex("aabbccddee01"), "key": bytes(range(64, 96))},
}
ALL_FORMATS = list(FORMATS)
POOL = list(range(10, 30))           # instance ids that come and go
SERVICE_TYPES = ["00000043-0000-1000-8000-0026BB765291", "00000049-0000-1000-8000-0026BB765291", "0000008A-0000-1000-8000-0026BB765291"]
CHAR_TYPES = ["%08X-0000-1000-8000-0026BB765291" % n for n in (0x25, 0x08, 0xCE, 0x13, 0x2F, 0x11, 0x10, 0x68, 0x22, 0x1D, 0x6B, 0x6D, 0x79, 0x8F, 0x0D, 0x0F, 0x26, 0x73, 0x75, 0xB0, 0xB1, 0xB2)] + \
             ["E863F10A-079E-48FF-8F27-9C2605A29F52", "E863F10C-079E-48FF-8F27-9C2605A29F52", "E863F10D-079E-48FF-8F27-9C2605A29F52"]


def db_formats(db):
    """harness bookkeeping: instance id -> format of a database description [[service iid, service type, [[iid, type, format], ...]], ...]"""
    return {int(c[0]): c[2] for s in db for c in s[2]}


# what every HAP-BLE accessory has besides its own services: the pairing service and the protocol information service (with the service signature
# characteristic through which the broadcast key is generated)
FIXED_SERVICES = [[9000, "00000055-0000-1000-8000-0026BB765291", [[9001, "0000004E-0000-1000-8000-0026BB765291", "data"]]],
                  [9100, "000000A2-0000-1000-8000-0026BB765291", [[9101, "000000A5-0000-1000-8000-0026BB765291", "data"]]]]


def db_accessories(db, fixed=None):
    return [{"aid": 1, "services": [{"iid": int(s[0]), "type": s[1], "characteristics": [
        {"iid": int(c[0]), "type": c[1], "format": c[2], "perms": ["pr", "ev"], "value": None} for c in s[2]]} for s in list(db) + (FIXED_SERVICES if fixed is None else fixed)]}]


def gen_db(rng, prev=None, force=None):
    """a database; relative to `prev` some instance ids keep their format, some change it, some disappear, new ones appear.
    `force` = {iid: format} pins entries"""
    fm = {}
    if prev is None:
        for iid in rng.sample(POOL, rng.randrange(4, 10)):
            fm[iid] = rng.choice(ALL_FORMATS)
    else:
        old = db_formats(prev)
        for iid, f in old.items():
            r = rng.random()
            if r < 0.3:
                continue
            fm[iid] = rng.choice([x for x in ALL_FORMATS if x != f]) if r < 0.7 else f
        fresh = [i for i in POOL if i not in old]
        for iid in rng.sample(fresh, min(len(fresh), rng.randrange(1, 4))):
            fm[iid] = rng.choice(ALL_FORMATS)
    for iid, f in (force or {}).items():
        if f is None:
            fm.pop(iid, None)
        else:
            fm[iid] = f
    if not fm:
        fm[rng.choice(POOL)] = rng.choice(ALL_FORMATS)
    iids = sorted(fm)
    rng.shuffle(iids)
    types = rng.sample(CHAR_TYPES, len(iids))
    nserv = rng.choice([1, 1, 2, 3])
    stypes = rng.sample(SERVICE_TYPES, nserv)
    db = [[1000 * (k + 1), stypes[k], []] for k in range(nserv)]
    for iid, t in zip(iids, types):
        db[rng.randrange(nserv)][2].append([iid, t, fm[iid]])
    return [s for s in db if s[2]]


def gen_raw(rng, fmt):
    """the value bytes an accessory seals for a characteristic of this format"""
    if fmt == "bool":
        return bytes([rng.randrange(2)])
    if fmt in ("uint8", "uint16", "uint32", "uint64"):
        n = {"uint8": 1, "uint16": 2, "uint32": 4, "uint64": 8}[fmt]
        v = rng.choice([0, 1, 2, 2 ** (8 * n) - 1, 2 ** (8 * n - 1), rng.randrange(2 ** (8 * n)), rng.randrange(2 ** (8 * n)), 300 % 2 ** (8 * n)])
        return v.to_bytes(n, "little")
    if fmt == "int":
        return struct.pack("<i", rng.choice([0, 1, -1, -2, 2 ** 31 - 1, -2 ** 31, rng.randrange(-2 ** 31, 2 ** 31), rng.randrange(-1000, 1000)]))
    if fmt == "float":
        return struct.pack("<f", rng.choice([0.0, 1.0, -1.0, 0.5, 21.5, -40.25, 100.0, 1e10, 3.14159, rng.uniform(-1000, 1000)]))
    if fmt == "string":
        return rng.choice([b"abc", b"on", b"", b"12345678", b"caf\xc3\xa9", b"x", b"Lamp 2"])
    return bytes(rng.randrange(256) for _ in range(rng.randrange(1, 9)))


def value_matches(fmt, raw, got):
    """does what listeners got say what the accessory sealed, read with the CURRENT format of the characteristic?
    (independent reading of the 8 value bytes; lenient about representation where the property does not fix one)"""
    b = bytes(raw).ljust(8, b"\0")
    try:
        if fmt == "bool":
            return isinstance(got, (bool, int)) and got == (b[0] != 0)
        if fmt in ("uint8", "uint16", "uint32", "uint64"):
            n = {"uint8": 1, "uint16": 2, "uint32": 4, "uint64": 8}[fmt]
            return isinstance(got, int) and got == int.from_bytes(b[:n], "little")
        if fmt == "int":
            return isinstance(got, int) and got == int.from_bytes(b[:4], "little", signed=True)
        if fmt == "float":
            return isinstance(got, (int, float)) and not isinstance(got, bool) and struct.pack("<f", got) == b[:4]
        if fmt == "string":
            return isinstance(got, str) and got.encode("utf-8").rstrip(b"\0") == b.rstrip(b"\0")
        # data / anything else: bytes, or text carrying them in hex or base64
        want = b.rstrip(b"\0")
        if isinstance(got, (bytes, bytearray)):
            return bytes(got).rstrip(b"\0") == want
        if isinstance(got, str):
            import base64
            import binascii
            for dec in (bytes.fromhex, lambda s: base64.b64decode(s, validate=True)):
                try:
                    if dec(got).rstrip(b"\0") == want:
                        return True
                except (ValueError, binascii.Error):
                    pass
        return False
    except Exception:  # noqa: BLE001 - a value of the wrong kind altogether
        return False


def safe_canon(fmt, v):
    try:
        return canon_value(fmt, v)
    except Exception:  # noqa: BLE001
        return "?:" + repr(v)[:40]


def _mock_adv(payload, advid, address):
    a = MagicMock()
    a.manufacturer_data = {76: bytes([0x11, 0x36]) + advid + payload}
    a.rssi = -40
    d = MagicMock()
    d.name = "dev"
    d.address = address
    return d, a


# ---------------------------------------------------------------- a HAP-BLE accessory behind a fake radio (scaffolding)
# Only what the controller needs to re-read the GATT database after a configuration-number change: service / characteristic
# discovery, instance-id descriptors, characteristic signature reads, a real pair-verify (harness.refacc, nothing from
# aiohomekit) and encrypted value reads.  It is scaffolding to make the library replace its database by its OWN path; the
# oracle never looks at it except to know that the controller has been served the complete new database.
_PF_CODE = {"bool": 0x01, "uint8": 0x04, "uint16": 0x06, "uint32": 0x08, "uint64": 0x0A, "int": 0x10, "float": 0x14, "string": 0x19, "data": 0x1B}
_DEFAULT_RAW = {"bool": b"\0", "uint8": b"\0", "uint16": bytes(2), "uint32": bytes(4), "uint64": bytes(8), "int": bytes(4), "float": bytes(4), "string": b"v", "data": b"\0"}
_SVC_IID_UUID = "e604e95d-a759-4817-87d3-aa005083a0d1"
_IID_DESC_UUID = "dc46f0fe-81d2-4616-b5d9-6abdd796939a"
_PAIR_VERIFY = "0000004E-0000-1000-8000-0026BB765291"


def _uuid_le(u):
    import uuid
    return uuid.UUID(u).bytes[::-1]


class _GDesc:
    def __init__(self, handle):
        self.handle = handle


class _GChar:
    def __init__(self, uuid, handle, iid, fmt, service):
        self.uuid = uuid.lower()
        self.handle = handle
        self.iid = iid
        self.fmt = fmt
        self.service = service
        self.properties = ["read", "write"]
        self.max_write_without_response_size = 0
        self._desc = _GDesc(handle + 1) if iid is not None else None
        self.descriptors = [self._desc] if self._desc else []

    def get_descriptor(self, uuid):
        return self._desc if str(uuid).lower() == _IID_DESC_UUID else None


class _GService:
    def __init__(self, uuid, iid, handle):
        self.uuid = uuid.lower()
        self.iid = iid
        self.handle = handle
        self.characteristics = []

    def get_characteristic(self, uuid):
        for c in self.characteristics:
            if c.uuid == str(uuid).lower():
                return c
        return None


class _GServices:
    def __init__(self, services):
        self.services = {s.handle: s for s in services}

    def __iter__(self):
        return iter(self.services.values())


def _gatt_table(db, fixed=None):
    """GATT services of an accessory whose HAP database is `db`, plus the pairing service every accessory has"""
    out, h = [], 16
    for siid, stype, chars in list(db) + (FIXED_SERVICES if fixed is None else fixed):
        s = _GService(stype, int(siid), h)
        h += 1
        s.characteristics.append(_GChar(_SVC_IID_UUID, h, None, None, s))
        h += 2
        for iid, ctype, fmt in chars:
            s.characteristics.append(_GChar(ctype, h, int(iid), fmt, s))
            h += 2
        out.append(s)
    return _GServices(out)


class _GattClient:
    """what the radio gives the controller for one connection"""

    def __init__(self, acc, disconnected_callback):
        self.acc = acc
        self.address = acc.address
        self.is_connected = True
        self.services = _gatt_table(acc.db)
        self._cb = disconnected_callback
        self.c2a = self.a2c = None
        self.nc2a = self.na2c = 0
        self.va = None
        self.pending = {}

    def drop(self, notify=True):
        if self.is_connected:
            self.is_connected = False
            if notify and self._cb:
                self._cb(self)

    async def disconnect(self):
        self.drop()
        return True

    async def clear_cache(self):
        return True

    async def start_notify(self, *a, **k):
        return None

    async def stop_notify(self, *a, **k):
        return None

    def _all(self):
        return [c for s in self.services for c in s.characteristics]

    async def get_characteristic(self, service_uuid, characteristic_uuid, iid=None):
        from bleak.exc import BleakError
        m = [c for c in self._all() if c.service.uuid == service_uuid.lower() and c.uuid == characteristic_uuid.lower()]
        if len(m) > 1 and iid:
            m = [c for c in m if c.iid == iid]
        if not m:
            raise BleakError(f"no characteristic {service_uuid}/{characteristic_uuid}/{iid}")
        return m[0]

    async def get_characteristic_iid(self, char):
        return char.iid

    def determine_fragment_size(self, overhead, handle):
        return 512 - overhead

    async def read_gatt_descriptor(self, handle):
        for c in self._all():
            if c._desc and c._desc.handle == handle:
                return bytearray(c.iid.to_bytes(2, "little"))
        raise KeyError(handle)

    def _check(self):
        from bleak.exc import BleakError
        if not self.is_connected:
            raise BleakError("not connected")

    async def write_gatt_char(self, char, data, response=False):
        self._check()
        data = bytes(data)
        encrypted = False
        if self.c2a is not None and char.uuid != _PAIR_VERIFY.lower():
            try:
                data = ChaCha20Poly1305(self.c2a).decrypt(struct.pack("<LQ", 0, self.nc2a), data, b"")
                self.nc2a += 1
                encrypted = True
            except Exception:  # noqa: BLE001 - a plaintext procedure (signature read) inside a secure session
                pass
        opcode, tid, iid = data[1], data[2], int.from_bytes(data[3:5], "little")
        body = data[7:7 + int.from_bytes(data[5:7], "little")] if len(data) >= 7 else b""
        status, out = 0, b""
        target = next((c for c in self._all() if c.iid == iid), None)
        if opcode == 0x01 and target is not None:        # characteristic signature read
            out = refacc.tlv([(0x04, _uuid_le(target.uuid)), (0x07, target.service.iid.to_bytes(2, "little")), (0x06, _uuid_le(target.service.uuid)),
                              (0x0A, (0x0001 | 0x0010 | 0x0080 | 0x0100 | 0x0200).to_bytes(2, "little")),
                              (0x0C, struct.pack("<BbHBH", _PF_CODE[target.fmt], 0, 0x2700, 1, 0))])
            self.acc.sig_served.add(iid)
        elif opcode == 0x03 and target is not None and encrypted:      # characteristic read (secure session only)
            out = refacc.tlv([(0x01, _DEFAULT_RAW[target.fmt])])
            self.acc.val_served.add(iid)
        elif opcode == 0x08 and encrypted:      # protocol configuration: generate a broadcast key and / or report the parameters
            asked = refacc.untlv(body)
            if 0x01 in asked:
                # HAP-BLE 7.4.7.3: the key is bound to the current session's shared secret and the controller's long-term public key
                self.acc.bkey = refacc.hk(self.va.shared, self.acc.ident.ios_ltpk, b"Broadcast-Encryption-Key")
                self.acc.keys_generated += 1
            if 0x02 in asked:
                out = refacc.tlv([(0x01, (self.acc.gsn & 0xFFFF).to_bytes(2, "little")), (0x02, bytes([self.acc.cfg & 0xFF])), (0x03, PAIRS[self.acc.who]["adv"])]
                                 + ([(0x04, self.acc.bkey)] if self.acc.bkey else []))
        elif opcode == 0x07 and target is not None and encrypted:      # characteristic configuration (broadcast on, interval)
            out = refacc.tlv([(0x01, b"\x01\x00"), (0x02, b"\x01")])
        elif opcode == 0x02 and char.uuid == _PAIR_VERIFY.lower():      # pair-verify
            req = refacc.untlv(refacc.untlv(body)[0x01])
            if req.get(6) == b"\x01":
                self.va = refacc.VerifyAccessory(self.acc.ident, self.acc.rb(32))
                out = refacc.tlv(self.va.m2(req[3]))     # a resume request is answered like a plain M1
            elif req.get(6) == b"\x03" and self.va is not None and self.va.check_m3(list(req.items())):
                out = refacc.tlv([(6, b"\x04")])
                self.c2a = refacc.hk(self.va.shared, b"Control-Salt", b"Control-Write-Encryption-Key")
                self.a2c = refacc.hk(self.va.shared, b"Control-Salt", b"Control-Read-Encryption-Key")
                self.nc2a = self.na2c = 0
                self.acc.verified += 1
            else:
                out = refacc.tlv([(6, b"\x04"), (7, b"\x02")])
            out = refacc.tlv([(0x01, out)])
        elif (extra := self.extra_request(opcode, target, char, body, encrypted)) is not None:
            status, out = extra
        else:
            status = 6
        pdu = bytes([0x02, tid, status]) + (len(out).to_bytes(2, "little") + out if out else b"")
        self.pending[char.handle] = (pdu, encrypted)

    def extra_request(self, opcode, target, char, body, encrypted):
        """requests a particular stream's accessory answers besides the ones above: (status, body) or None"""
        return None

    async def read_gatt_char(self, char):
        self._check()
        if isinstance(char, int):       # the service instance id characteristic, addressed by handle
            c = next(c for c in self._all() if c.handle == char)
            return bytearray(c.service.iid.to_bytes(2, "little"))
        if char.uuid == _SVC_IID_UUID:
            return bytearray(char.service.iid.to_bytes(2, "little"))
        pdu, encrypted = self.pending.pop(char.handle)
        if encrypted:
            pdu = ChaCha20Poly1305(self.a2c).encrypt(struct.pack("<LQ", 0, self.na2c), pdu, b"")
            self.na2c += 1
        return bytearray(pdu)


class _GattAccessory:
    def __init__(self, who, db):
        import random as _r
        r = _r.Random("c18-gatt-" + who)
        self.rb = lambda n: bytes(r.randrange(256) for _ in range(n))
        self.who = who
        self.address = PAIRS[who]["pid"]
        self.ident = refacc.Identity(self.rb, acc_id=PAIRS[who]["pid"].encode(), ios_id="ctrl-" + who)
        self.db = db
        self.client = None
        self.sig_served, self.val_served, self.verified = set(), set(), 0
        self.bkey = None            # the broadcast key the accessory seals with (None: whatever it was given at pairing time)
        self.keys_generated = 0
        self.gsn, self.cfg = 0, 1   # what it reports as global state number / configuration number

    def firmware_update(self, db):
        """new firmware, new GATT database; the accessory reboots, so a connection it had is gone"""
        if self.client is not None:
            self.client.drop()
            self.client = None
        self.db = db
        self.sig_served, self.val_served, self.verified = set(), set(), 0

    def connect(self, disconnected_callback):
        self.client = _GattClient(self, disconnected_callback)
        return self.client

    def served_everything(self):
        # every characteristic signature of the new database was read and the secure session was set up (value reads are
        # skipped by the controller for some characteristic types)
        return set(db_formats(self.db)) <= self.sig_served and self.verified >= 1


_RADIO = {"wasted": 0.0}    # real seconds lost in this run waiting for controller tasks that never finished


class _World:
    """the controller, its pairings and the harness's own bookkeeping about them"""

    def __init__(self, case):
        from aiohomekit.characteristic_cache import CharacteristicCacheMemory
        self.case = case
        self.dbs = case["dbs"]
        self.cache = CharacteristicCacheMemory()
        self.book = {}
        self.all_listeners = []
        self.acc = {}
        self.loop = None
        for who, start in case["start"].items():
            P = PAIRS[who]
            with_key = case.get("key", {}).get(who, True)
            # key: does the controller hold the accessory's current broadcast key; acckey: the key the accessory seals with
            self.book[who] = {"cur": start, "start": start, "db": db_formats(self.dbs[case["db0"][who]]), "dbidx": case["db0"][who], "cfg": 1, "key": with_key,
                              "acckey": P["key"], "oldkeys": [], "listeners": [], "fall": [], "toks": [], "out": [], "segs": []}
            self.cache.async_create_or_update_map(P["pid"], 1, db_accessories(self.dbs[case["db0"][who]]), P["key"].hex() if with_key else None, start)
            self.acc[who] = _GattAccessory(who, self.dbs[case["db0"][who]])
        self.boot()
        for who in self.book:
            self.listen(who, "ok")

    def boot(self):
        """a controller process starts: pairings are loaded from the characteristic cache"""
        from aiohomekit.controller.ble.controller import BleController
        from aiohomekit.controller.ble.manufacturer_data import HomeKitAdvertisement
        self.c = BleController(self.cache)
        self.p = {}
        for who, bk in self.book.items():
            P = PAIRS[who]
            if self.acc[who].client is not None:
                self.acc[who].client.drop(notify=False)     # the old process and its connections are gone
                self.acc[who].client = None
            p = self.c.load_pairing("alias" + who, dict(self.acc[who].ident.pairing_data(connection="BLE"), AccessoryAddress=P["pid"]))
            p._process_disconnected_events = (lambda fall: lambda: fall.append("f"))(bk["fall"])
            # the description (advertised state number) is what _async_notification starts from
            p.description = HomeKitAdvertisement.from_cache(P["pid"], P["pid"].lower(), bk["cfg"], bk["cur"])
            self.p[who] = p
            for L in bk["listeners"]:
                L["active"] = False     # listeners of the previous process are gone (they stay in all_listeners: they must hear nothing more)
            bk["listeners"] = []

    def listen(self, who, kind):
        L = {"log": [], "active": True, "kind": kind}

        def cb(ev, L=L):
            L["log"].append(ev)
            if L["kind"] == "raise":
                raise RuntimeError("listener failed")
        L["remove"] = self.p[who].dispatcher_connect(cb)
        self.book[who]["listeners"].append(L)
        self.all_listeners.append((who, L))

    def replace(self, who, dbidx, how, cfg):
        bk = self.book[who]
        P = PAIRS[who]
        if how == "gatt":
            return self.replace_over_gatt(who, dbidx, cfg)
        if how == "restart":
            self.boot()
            for w in self.book:
                self.listen(w, "ok")
        # the application hands the pairing the database it has on record for the new configuration number
        self.p[who].restore_accessories_state(db_accessories(self.dbs[dbidx]), cfg, bk["acckey"] if bk["key"] else None, bk["cur"])
        bk["db"], bk["dbidx"], bk["cfg"] = db_formats(self.dbs[dbidx]), dbidx, cfg
        self.acc[who].db = self.dbs[dbidx]
        return True

    def replace_over_gatt(self, who, dbidx, cfg):
        """the accessory gets new firmware (new GATT database, higher configuration number) and says so in its regular
        advertisement; the controller notices, connects and re-reads the database - all of it library code, the radio is fake.
        Returns False when the controller did not fetch the complete database (no verdict about later notifications then)."""
        bk, acc = self.book[who], self.acc[who]
        acc.firmware_update(self.dbs[dbidx])

        acc.gsn, acc.cfg = bk["cur"], cfg

        async def go():
            self.c._device_detected(*self.regular_adv(who, cfg))
            return await self.settle()
        n0 = acc.keys_generated
        settled = self.on_radio(go)
        self.sync_key(who, n0)
        if not (settled and acc.served_everything()):
            return False
        bk["db"], bk["dbidx"], bk["cfg"] = db_formats(self.dbs[dbidx]), dbidx, cfg
        return True

    def regular_adv(self, who, cfg):
        """the accessory's regular (unencrypted) advertisement: it carries the configuration number and the last state number"""
        P, bk = PAIRS[who], self.book[who]
        a = MagicMock()
        # type 0x06 | length | status flags | device id | category | state number | configuration number | compatible version | setup hash
        a.manufacturer_data = {76: bytes([0x06, 0x31, 0x00]) + P["adv"] + struct.pack("<HHBB", 5, bk["cur"] & 0xFFFF, cfg & 0xFF, 2) + bytes(4)}
        a.rssi = -40
        d = MagicMock()
        d.name = "dev"
        d.address = P["pid"]
        return d, a

    async def settle(self):
        """let the controller's background tasks finish (nothing on the fake radio takes real time); a task that hangs is cancelled, and
        the real time lost that way is limited per run (see on_radio)"""
        import asyncio
        import time
        t0 = time.time()
        for _ in range(3):
            tasks = [t for t in asyncio.all_tasks() if t is not asyncio.current_task()]
            if not tasks:
                break
            await asyncio.wait(tasks, timeout=1)
        left = [t for t in asyncio.all_tasks() if t is not asyncio.current_task()]
        for t in left:
            t.cancel()
        if left:
            _RADIO["wasted"] += time.time() - t0
            await asyncio.sleep(0)
        return not left

    def on_radio(self, go):
        import asyncio
        from unittest import mock
        world = self

        async def fake_establish_connection(device, name, disconnected_callback, *a, **k):
            w = next(w for w, Q in PAIRS.items() if Q["pid"] == device.address)
            return world.acc[w].connect(disconnected_callback)
        if _RADIO["wasted"] > 10:
            raise RuntimeError("connections over the fake radio keep hanging: not attempted any more in this run")
        if self.loop is None:
            self.loop = asyncio.new_event_loop()
        with mock.patch("aiohomekit.controller.ble.pairing.establish_connection", fake_establish_connection):
            return self.loop.run_until_complete(go())

    def resubscribe(self, who, iids):
        """the application subscribes to characteristics and (re)populates the accessory state: the controller connects, sets up a
        session and - having subscriptions to restore - asks the accessory to generate a NEW broadcast key, which replaces the old one
        on both sides.  Returns True when the accessory did generate a key."""
        bk, acc, p = self.book[who], self.acc[who], self.p[who]
        if acc.client is not None:
            acc.client.drop()           # connections do not live long on battery powered accessories
            acc.client = None
        acc.gsn, acc.cfg = bk["cur"], bk["cfg"]
        n0 = acc.keys_generated

        async def go():
            self.c._device_detected(*self.regular_adv(who, bk["cfg"]))
            await p.subscribe({(1, int(i)) for i in iids})
            await p.async_populate_accessories_state(force_update=True)
            return await self.settle()
        try:
            self.on_radio(go)
        finally:
            rekeyed = self.sync_key(who, n0)
        return rekeyed

    def sync_key(self, who, n0):
        """bookkeeping: did the accessory generate a new broadcast key (at the controller's request, inside a verified session)?"""
        bk, acc = self.book[who], self.acc[who]
        if acc.keys_generated == n0:
            return False
        bk["oldkeys"].append(bk["acckey"])
        bk["acckey"] = acc.bkey
        if not bk["key"]:
            self.close_segment(who)     # from here on the controller holds the broadcast key
            bk["key"] = True
        return True

    def close_segment(self, who):
        bk = self.book[who]
        if bk["toks"] and len(bk["toks"]) == len(bk["out"]):
            bk["segs"].append((f"bc.run 1 {bk['start']} {1 if bk['key'] else 0} " + " ".join(bk["toks"]), " ".join(bk["out"]) + f" | {self.p[who].description.state_num}"))
        bk["toks"], bk["out"], bk["start"] = [], [], bk["cur"]

    def close(self):
        if self.loop is not None:
            self.loop.close()
            self.loop = None


def run_db_history(case):
    """one history over two pairings with database replacements.  Returns (violations [(signature, what, event index)], projections
    {who: (model line, implementation output)}, value checks [(fmt, rawhex, canon delivered)], stats)."""
    from collections import Counter
    W = _World(case)
    viol, vals, stats = [], [], Counter()

    at = [0]

    def bad(sig, what):
        viol.append((sig, what, at[0]))

    for idx, ev in enumerate(case["events"]):
        at[0] = idx
        kind = ev[0]
        tag = f"event #{idx} {ev}"
        if kind == "R":
            _, who, dbidx, how, cfg = ev
            try:
                done = W.replace(who, dbidx, how, cfg)
            except Exception as e:  # noqa: BLE001
                if how == "gatt":
                    done = False
                    stats["replace/gatt-error/" + type(e).__name__] += 1
                else:
                    bad("notify/replace-" + type(e).__name__, f"{tag}: replacing the accessory database raised {type(e).__name__}: {e}")
                    break
            if not done:
                # the controller did not re-read the whole database over the (fake) radio: which database is current is not
                # for this check to say - the history ends here without a verdict
                stats["replace/gatt-incomplete"] += 1
                break
            stats["replace/" + how] += 1
            continue
        if kind == "Y":
            try:
                stats["rekey/" + ("new-key" if W.resubscribe(ev[1], ev[2]) else "no-new-key")] += 1
            except Exception as e:  # noqa: BLE001 - connection-level trouble is not this property's business
                stats["rekey/error/" + type(e).__name__] += 1
            continue
        if kind == "L+":
            W.listen(ev[1], ev[2])
            continue
        if kind == "L-":
            act = [L for L in W.book[ev[1]]["listeners"] if L["active"]]
            if len(act) > 1:
                L = act[ev[2] % len(act)]
                L["remove"]()
                L["active"] = False
            continue
        # ---- an advertisement
        who = ev[1] if kind != "O" else None
        before = {w: W.p[w].description.state_num for w in W.p}
        marks = [(w, L, len(L["log"])) for w, L in W.all_listeners]
        for bk in W.book.values():
            del bk["fall"][:]
        tok = None
        expect = None       # ('deliver', iid, raw, g) | ('silent', g) | None (nothing may happen)
        if kind == "G":
            _, _, g, inner, iid, rawhex = ev
            raw = b"" if rawhex == "-" else bytes.fromhex(rawhex)
            P, bk = PAIRS[who], W.book[who]
            payload = seal(g, iid, raw, inner=inner, k=bk["acckey"], aid=P["adv"])
            known = iid in bk["db"]
            tok = f"G:1:{g}:{(inner if inner is not None else g) & 0xFFFF}:{iid if known else 900 + iid % 100}:{hx(raw.ljust(8, bytes(1)))}"
            fresh = bk["key"] and bk["cur"] < g < bk["cur"] + 100 and ((inner if inner is not None else g) & 0xFFFF) == g
            if fresh:
                expect = ("deliver", iid, raw, g) if known else ("silent", g)
            d, a = _mock_adv(payload, P["adv"], P["pid"])
        elif kind == "K":       # sealed under a key that is not this pairing's: all-zero, the OTHER accessory's key, or the key this accessory used BEFORE it generated a new one
            _, _, g, iid, which = ev
            P = PAIRS[who]
            k = bytes(32)
            if which == "other":
                k = W.book["B" if who == "A" else "A"]["acckey"]
            elif which == "old" and W.book[who]["oldkeys"]:
                k = W.book[who]["oldkeys"][-1]
            d, a = _mock_adv(seal(g, iid, b"\x01", k=k, aid=P["adv"]), P["adv"], P["pid"])
            tok = "F:1"
        elif kind == "X":       # a genuine sealing of the OTHER accessory (its key, its advertising id as associated data) sent under this one's advertising id
            _, _, g, iid = ev
            P, Q = PAIRS[who], PAIRS["B" if who == "A" else "A"]
            d, a = _mock_adv(seal(g, iid, b"\x01", k=W.book["B" if who == "A" else "A"]["acckey"], aid=Q["adv"]), P["adv"], P["pid"])
            tok = "F:1"
        elif kind == "B":
            _, _, g, iid, bit = ev
            P = PAIRS[who]
            x = bytearray(seal(g, iid, b"\x07", k=W.book[who]["acckey"], aid=P["adv"]))
            x[bit // 8 % len(x)] ^= 1 << (bit % 8)
            d, a = _mock_adv(bytes(x), P["adv"], P["pid"])
            tok = "F:1"
        elif kind == "S":
            P = PAIRS[who]
            payload = b"" if ev[2] == "-" else bytes.fromhex(ev[2])
            d, a = _mock_adv(payload, P["adv"], P["pid"])
            tok = "S:1" if len(payload) < 6 else "F:1"
        else:                   # 'O': a genuine-looking advertisement of an accessory nobody is paired with
            _, g, iid = ev
            d, a = _mock_adv(seal(g, iid, b"\x01", aid=OTHER), OTHER, PAIRS["A"]["pid"])
        try:
            W.c._device_detected(d, a)
        except Exception as e:  # noqa: BLE001
            bad("notify/" + type(e).__name__, f"{tag}: _device_detected raised {type(e).__name__}: {e}")
            break
        stats["adv/" + kind] += 1
        after = {w: W.p[w].description.state_num for w in W.p}
        calls = [(w, L, L["log"][n0:]) for w, L, n0 in marks if len(L["log"]) > n0]
        # -- nobody but the addressed pairing's current listeners may hear anything, no other state may move
        for w, L, new in calls:
            if w != who or not L["active"]:
                bad("notify/accepted", f"{tag}: reached a listener of pairing {w} (active={L['active']}) although it was addressed to {who}: {new}")
        for w in W.p:
            if w != who and after[w] != before[w]:
                bad("notify/state-changed", f"{tag}: state number of pairing {w} moved {before[w]}->{after[w]} on an advertisement not addressed to it")
        if who is None:
            continue
        bk = W.book[who]
        mine = [(L, new) for w, L, new in calls if w == who and L["active"]]
        delivered = bool(mine)
        if delivered:
            ev0 = mine[0][1][0]
            got_key = next(iter(ev0)) if isinstance(ev0, dict) and ev0 else None
            if expect is None or expect[0] != "deliver":
                why = "for an instance id the CURRENT database does not contain" if expect else "though not authentic and fresh"
                bad("notify/accepted" if expect is None else "notify/unknown-iid-delivered", f"{tag}: delivered {ev0} {why} (state {before[who]}->{after[who]}, database #{bk['dbidx']})")
            else:
                _, iid, raw, g = expect
                fmt = bk["db"][iid]
                stats["delivered/" + fmt] += 1
                if after[who] != g:
                    bad("notify/accepted", f"{tag}: delivered but the state number is {after[who]}, not {g}")
                act = [L for L in bk["listeners"] if L["active"]]
                for L in act:
                    new = next((n for L2, n in mine if L2 is L), [])
                    if len(new) != 1:
                        bad("notify/listener-missed", f"{tag}: a connected listener ({L['kind']}) was called {len(new)} times for one accepted notification")
                for L, new in mine:
                    for e in new:
                        if not (isinstance(e, dict) and list(e) == [(1, iid)] and isinstance(e[(1, iid)], dict) and "value" in e[(1, iid)]):
                            bad("notify/accepted", f"{tag}: delivered under {list(e) if isinstance(e, dict) else e!r}, expected [(1, {iid})]")
                        elif not value_matches(fmt, raw, e[(1, iid)]["value"]):
                            bad("notify/wrong-value", f"{tag}: instance id {iid} is {fmt} in the current database (#{bk['dbidx']}); accessory sealed {hx(raw)}, listeners got {e[(1, iid)]['value']!r}")
                if isinstance(ev0, dict) and (1, iid) in ev0 and isinstance(ev0[(1, iid)], dict) and "value" in ev0[(1, iid)]:
                    vals.append((fmt, hx(raw), safe_canon(fmt, ev0[(1, iid)]["value"])))
            bk["out"].append(f"d:{got_key[1] if isinstance(got_key, tuple) and len(got_key) == 2 else '?'}:{tok.split(':')[5] if kind == 'G' else '?'}")
        else:
            if expect is not None and after[who] == expect[-1]:
                if expect[0] == "deliver":
                    bad("notify/accepted-not-delivered", f"{tag}: authentic and fresh, the state number advanced {before[who]}->{after[who]}, instance id {expect[1]} is {bk['db'][expect[1]]} in the current database "
                        f"(#{bk['dbidx']}) - but no listener was called")
                stats["silent-unknown-iid"] += expect[0] == "silent"
                bk["out"].append("q")
            elif expect is not None and expect[0] == "silent":
                bad("notify/unknown-iid-not-accepted", f"{tag}: authentic fresh advertisement for an instance id the current database does not contain left the state number at {after[who]} - older notifications stay acceptable")
                bk["out"].append("i")
            else:
                if after[who] != before[who]:
                    bad("notify/state-changed", f"{tag}: rejected advertisement changed the state number {before[who]}->{after[who]}")
                if kind == "S" and tok == "S:1" and bk["key"]:
                    bk["out"].append("x")
                elif bk["fall"] == ["f"]:
                    bk["out"].append("f")
                else:
                    bk["out"].append("i")
        bk["toks"].append(tok)
        if expect is not None and after[who] == expect[-1]:
            bk["cur"] = expect[-1]
            stats["accepted"] += 1
        elif after[who] != bk["cur"]:
            # the library and the bookkeeping disagree about the last accepted number (already reported): stop here
            if not viol:
                bad("notify/state-changed", f"{tag}: state number is {after[who]}, the last accepted notification had {bk['cur']}")
            break
    proj = []
    for who, bk in W.book.items():
        W.close_segment(who)
        proj += [(who, line, out) for line, out in bk["segs"]]
    W.close()
    return viol, proj, vals, stats


def gen_db_history(rng, long=False):
    """a random history over two pairings: genuine / replayed / stale / far / forged / cross-accessory advertisements interleaved with database
    replacements (restore on the live pairing, a restart of the controller followed by a restore, the controller's own GATT re-read after a
    configuration-number bump), regenerations of the broadcast key and listener changes"""
    dbs = [gen_db(rng), gen_db(rng)]
    case = {"stream": "dbhist", "start": {"A": rng.choice([0, 1, 7, 100, 65000, 65400]), "B": rng.choice([3, 100, 40000])}, "db0": {"A": 0, "B": 1},
            "key": {"A": True, "B": rng.random() > 0.1}, "dbs": dbs, "events": []}
    cur = dict(case["start"])
    dbi = dict(case["db0"])
    cfg = {"A": 1, "B": 1}
    seen = {"A": set(db_formats(dbs[0])), "B": set(db_formats(dbs[1]))}     # instance ids some database of the pairing has had
    accepted = {"A": [], "B": []}
    keyed = dict(case["key"])
    evs = case["events"]
    for _ in range(rng.randrange(6, 40 if long else 18)):
        who = "A" if rng.random() < 0.7 else "B"
        fm = db_formats(dbs[dbi[who]])
        r = rng.random()
        gone = sorted(seen[who] - set(fm))
        # which instance id: one of the current database, one a previous database had, one no database ever had
        q = rng.random()
        if q < 0.65 or not gone:
            iid = rng.choice(sorted(fm))
        elif q < 0.9:
            iid = rng.choice(gone)
        else:
            iid = rng.choice([999, 950, 5])
        raw = gen_raw(rng, fm[iid]) if iid in fm else bytes(rng.randrange(256) for _ in range(rng.randrange(1, 9)))
        if r < 0.2:
            dbs.append(gen_db(rng, dbs[dbi[who]]))
            how = rng.choice(["restore"] * 6 + ["gatt"] * 3 + ["restart"])
            cfg[who] = min(cfg[who] + (rng.choice([1, 1, 1, 2, 0]) if how != "gatt" else rng.choice([1, 1, 2])), 250)
            evs.append(["R", who, len(dbs) - 1, how, cfg[who]])
            dbi[who] = len(dbs) - 1
            seen[who] |= set(db_formats(dbs[-1]))
        elif r < 0.55:
            g = cur[who] + rng.choice([1, 1, 1, 1, 2, 5, 50, 99])
            evs.append(["G", who, g, None, iid, hx(raw)])
            if g <= 65535 and keyed[who]:
                accepted[who].append(evs[-1])
                cur[who] = g
        elif r < 0.65 and accepted[who]:
            evs.append(list(rng.choice(accepted[who])))       # replay
        elif r < 0.70:
            evs.append(["G", who, max(cur[who] - rng.randrange(0, 4), 0), None, iid, hx(raw)])   # current / older
        elif r < 0.74:
            evs.append(["G", who, cur[who] + rng.choice([100, 101, 150, 1000]), None, iid, hx(raw)])
        elif r < 0.77:
            evs.append(["G", who, cur[who] + 1, cur[who] + rng.choice([0, 2, 3]), iid, hx(raw)])   # inner counter != nonce counter
        elif r < 0.81:
            evs.append(["K", who, cur[who] + 1, iid, rng.choice(["zero", "other", "old", "old"])])
        elif r < 0.85:
            evs.append(["X", who, cur["B" if who == "A" else "A"] + 1, iid])
        elif r < 0.89:
            evs.append(["B", who, cur[who] + 1, iid, rng.randrange(16 * 8)])
        elif r < 0.91:
            evs.append(["S", who, hx(bytes(rng.randrange(256) for _ in range(rng.randrange(0, 12))))])
        elif r < 0.93:
            evs.append(["O", cur[who] + 1, iid])
        elif r < 0.96:
            evs.append(["L+", who, rng.choice(["ok", "ok", "raise"])])
        elif r < 0.98:
            evs.append(["L-", who, rng.randrange(4)])
        else:
            # the application (re)subscribes and re-populates: the accessory generates a new broadcast key; a pairing that had none has one now
            evs.append(["Y", who, rng.sample(sorted(fm), min(len(fm), rng.randrange(1, 3)))])
            keyed[who] = True
    return case


def directed_db_histories(rng):
    """every ordered pair of distinct formats as the before/after format of ONE instance id, with an instance id that disappears and one that
    appears; the replacement comes after a first notification (n1), before any (n0), or twice in a row (back to the first format)"""
    out = []
    k = 0
    for f1 in ALL_FORMATS:
        for f2 in ALL_FORMATS:
            if f1 == f2:
                continue
            k += 1
            who = "A" if k % 4 else "B"
            other = "B" if who == "A" else "A"
            x, gone, new = rng.sample(POOL, 3)
            fg, fn = rng.choice(ALL_FORMATS), rng.choice(ALL_FORMATS)
            db1 = gen_db(rng, None, {x: f1, gone: fg, new: None})
            db2 = gen_db(rng, db1, {x: f2, gone: None, new: fn})
            db3 = gen_db(rng, db2, {x: f1, gone: fg, new: None})
            dbo = gen_db(rng, None, {x: rng.choice(ALL_FORMATS)})
            s = rng.choice([1, 100, 65000])
            variant = ("n1", "n0", "twice")[k % 3]
            how = ("restore", "gatt", "restore", "restart")[(k // 3) % 4]
            evs = []
            g = s
            if variant != "n0":
                g += 1
                evs.append(["G", who, g, None, x, hx(gen_raw(rng, f1))])
            first = list(evs[-1]) if evs else None
            evs.append(["R", who, 1, how, 2])
            g += 1
            evs.append(["G", who, g, None, x, hx(gen_raw(rng, f2))])
            if first:
                evs.append(first)                                      # replay from before the replacement
            g += 2
            evs.append(["G", who, g, None, gone, hx(gen_raw(rng, fg))])    # an instance id the new database no longer has
            g += 1
            evs.append(["G", who, g, None, new, hx(gen_raw(rng, fn))])     # an instance id only the new database has
            evs.append(["G", other, 51, None, x, hx(gen_raw(rng, db_formats(dbo)[x]))])   # same instance id on the other accessory
            if variant == "twice":
                evs.append(["R", who, 2, "gatt" if how == "restore" else "restore", 3])
                g += 1
                evs.append(["G", who, g, None, x, hx(gen_raw(rng, f1))])
                g += 1
                evs.append(["G", who, g, None, new, hx(gen_raw(rng, fn))])
                g += 1
                evs.append(["G", who, g, None, gone, hx(gen_raw(rng, fg))])
            out.append({"stream": "dbhist", "start": {who: s, other: 50}, "db0": {who: 0, other: 3}, "key": {"A": True, "B": True}, "dbs": [db1, db2, db3, dbo], "events": evs,
                        "label": f"{f1}->{f2}/{variant}/{how}"})
    return out


def directed_rekey_histories(rng):
    """the accessory generates a new broadcast key (the controller re-subscribes over a fresh connection): notifications sealed with the key it
    used before - replays and fresh numbers alike - authenticate no longer, the new key's do; also across database replacements and a restart"""
    out = []
    for who in ("A", "B"):
        other = "B" if who == "A" else "A"
        for with_key in (True, False):
            for how in ("restore", "gatt", "restart"):
                db1, dbo = gen_db(rng), gen_db(rng)
                db2 = gen_db(rng, db1)
                f1, f2, fo = db_formats(db1), db_formats(db2), db_formats(dbo)
                s = rng.choice([1, 100, 65000])
                x, y = rng.choice(sorted(f1)), rng.choice(sorted(f2))
                g = s + 1
                evs = [["G", who, g, None, x, hx(gen_raw(rng, f1[x]))], ["Y", who, [x]]]
                g += 1
                evs.append(["G", who, g, None, x, hx(gen_raw(rng, f1[x]))])
                evs.append(["K", who, g + 1, x, "old"])
                evs.append(list(evs[0]))
                evs.append(["R", who, 1, how, 2])
                g += 1
                evs.append(["G", who, g, None, y, hx(gen_raw(rng, f2[y]))])
                evs.append(["K", who, g + 1, y, "old"])
                evs.append(["Y", who, [y]])
                evs.append(["K", who, g + 1, y, "old"])
                g += 3
                evs.append(["G", who, g, None, y, hx(gen_raw(rng, f2[y]))])
                evs.append(["R", who, 0, "restart", 3])
                evs.append(["K", who, g + 1, x, "old"])
                g += 1
                evs.append(["G", who, g, None, x, hx(gen_raw(rng, f1[x]))])
                z = rng.choice(sorted(fo))
                evs.append(["G", other, 51, None, z, hx(gen_raw(rng, fo[z]))])
                out.append({"stream": "dbhist", "start": {who: s, other: 50}, "db0": {who: 0, other: 2}, "key": {who: with_key, other: True}, "dbs": [db1, db2, dbo], "events": evs,
                            "label": f"rekey/{who}/{with_key}/{how}"})
    return out


def db_stream(ctx, driver):
    rng = ctx.rng
    _RADIO["wasted"] = 0.0
    cases = directed_db_histories(rng) + directed_rekey_histories(rng) + [gen_db_history(rng, ctx.thorough()) for _ in range(ctx.budget(60, 1200))]
    mcases, mouts, mlines = [], [], []
    vcases, vouts, vlines = [], [], []
    for case in cases:
        try:
            viol, proj, vals, stats = run_db_history(case)
        except Exception as e:  # noqa: BLE001 - loading the pairings, connecting a listener ...: library code on valid input
            import traceback
            where = traceback.extract_tb(e.__traceback__)[-1]
            viol, proj, vals, stats = [("notify/" + type(e).__name__, f"the history could not be run: {type(e).__name__}: {e} (at {where.filename}:{where.lineno})", len(case["events"]))], [], [], {}
        ctx.evaluations += 1
        ctx.nontrivial.add(("dbhist", hashlib.sha1(json.dumps(case, sort_keys=True).encode()).hexdigest()))
        ctx.dist["dbhist"] += 1
        for key, n in stats.items():
            ctx.dist["dbhist/" + key] += n
        seen = set()
        for sig, what, idx in viol:
            if sig not in seen:     # one report per signature and history; the failing input is the history up to that event
                seen.add(sig)
                ctx.violation(sig, what, dict(case, events=case["events"][:idx + 1]))
        if viol:
            continue
        for who, line, out in proj:
            mcases.append(dict(case, projection=who))
            mlines.append(line)
            mouts.append(out)
        for fmt, rawhex, got in vals:
            vcases.append({"stream": "dbvalue", "fmt": fmt, "value": rawhex})
            vouts.append(got)
            vlines.append(f"bc.val {fmt if fmt != 'data' else 'other'} {hx(unhx(rawhex).ljust(8, bytes(1)))}")
    ctx.sample({k: (v if len(str(v)) < 700 else str(v)[:700] + "...") for k, v in cases[0].items()})
    skipped = {k: n for k, n in ctx.dist.items() if k.startswith(("dbhist/replace/gatt-", "dbhist/rekey/error", "dbhist/rekey/no-new-key"))}
    if skipped:
        ctx.notes.append(f"dbhist: connections over the fake radio that did not go as scripted (no verdict drawn from them): {skipped}")
    compare_with_model(ctx, "dbhist", mcases, mouts, mlines, driver)
    compare_with_model(ctx, "dbvalue", vcases, vouts, vlines, driver)


# ================================================================ the pairing's LIFE CYCLE around notifications
# The histories above start from a pairing that is completely set up.  Here the history starts with the application process: the
# controller is created over a characteristic cache entry (with / without a state number, with / without a broadcast key, the stored
# number below / equal to / above what the accessory announces), the scanner sees regular advertisements before or after
# load_pairing, load_pairing is called AGAIN on the same controller, the application hands over a stored state
# (restore_accessories_state), the process is restarted (a new controller over the same cache) - in every order the public API
# allows, interleaved with the accessory's events and the advertisement alphabet of the other streams.
#
# The accessory is played by the harness: its global state number only grows; a regular advertisement carries the current number, an
# event increments it and broadcasts an encrypted notification; everything it ever broadcast may be replayed by anybody.
#
# Oracle (harness bookkeeping only): S = the state numbers the current pairing object may legitimately regard as "last accepted":
#   * loaded while the controller knows the accessory's regular advertisement: what that advertisement (or a notification accepted
#     since) said; loaded without one: the state number of the cache entry it is loaded from (None: it has learned nothing);
#   * a regular advertisement processed for it: that number; an accepted notification: that number;
#   * where two sources disagree and the property does not say which one wins (a stored number ABOVE the advertised one, a pairing
#     object created anew from a cache entry that is behind what its predecessor accepted, a stored state handed over by the
#     application) every candidate stays in S - no verdict is drawn from the difference (counted as life/accepted-below-largest).
# An encrypted advertisement may change state or reach listeners only if it is authentic under the key the pairing was given and
# L < g < L+100 for some L in S; with S = {None} (nothing learned yet) or without a key nothing may be accepted.
LIFE_PID = "AA:BB:CC:DD:EE:FF"
_LIFE = {}


def _life_db():
    if "db" not in _LIFE:
        from aiohomekit.model import Accessories
        from aiohomekit.model.characteristics import CharacteristicsTypes
        from aiohomekit.model.services import ServicesTypes
        chars = [{"iid": iid, "type": CharacteristicsTypes.BRIGHTNESS, "perms": ["pr", "ev"], "format": fmt, "value": None} for fmt, iid in FORMATS.items()]
        accs = Accessories.from_list([{"aid": 1, "services": [{"iid": 1000, "type": ServicesTypes.LIGHTBULB, "characteristics": chars}]}])
        _LIFE["db"] = json.dumps(accs.serialize())
    return json.loads(_LIFE["db"])


def _life_regular(gsn, pid):
    """the accessory's regular (unencrypted) advertisement: type 0x06 | length | status flags | device id | category | state number | configuration number | version | setup hash"""
    from types import SimpleNamespace
    return (SimpleNamespace(name="dev", address=pid, details=None),
            SimpleNamespace(manufacturer_data={76: bytes([0x06, 0x31, 0x00]) + ADV + struct.pack("<HHBB", 5, gsn & 0xFFFF, 1, 2) + bytes(4)}, rssi=-40, local_name="dev",
                            service_data={}, service_uuids=[], tx_power=-127, platform_data=()))


def _life_encrypted(payload, advid):
    """an encrypted (type 0x11) advertisement as the scanner hands it to the controller"""
    from types import SimpleNamespace
    return (SimpleNamespace(name="dev", address=LIFE_PID, details=None),
            SimpleNamespace(manufacturer_data={76: bytes([0x11, 0x36]) + advid + payload}, rssi=-40, local_name="dev", service_data={}, service_uuids=[], tx_power=-127, platform_data=()))


def _ints(S):
    return [x for x in S if x is not None]


def _learned(S, g):
    """the pairing is told a state number by a source the property does not rank against what it has (regular advertisement,
    state handed over by the application): at or above everything it had, it IS the last number; below, both stay candidates"""
    if all(x <= g for x in _ints(S)):
        return {g}
    return set(_ints(S)) | {g}


async def _run_life(case, dev=False):
    """one life-cycle history.  Returns (violations [(signature, what, event index)], stats, observations)"""
    import asyncio
    from collections import Counter

    from aiohomekit.characteristic_cache import CharacteristicCacheMemory
    from aiohomekit.controller.ble.controller import BleController
    viol, stats, obs = [], Counter(), []
    pid = LIFE_PID.lower() if case.get("lower") else LIFE_PID
    pd = {"AccessoryPairingID": pid, "AccessoryAddress": LIFE_PID, "Connection": "BLE", "iOSPairingId": "x", "iOSDeviceLTPK": "00" * 32}
    fmt_of = {iid: f for f, iid in FORMATS.items()}
    cache = CharacteristicCacheMemory()       # the storage the application provides: it outlives the controller processes
    cache.async_create_or_update_map(pid, 1, _life_db(), KEY.hex() if case["cache"]["key"] else None, case["cache"]["state"])
    ctrl = BleController(cache)
    p = None            # the current pairing object
    S = None            # candidates for its last accepted state number (see above)
    D = None            # the same for what the controller's scanner knows about the accessory (None: nothing seen in this process)
    may_key = False     # has the current pairing object been given the broadcast key
    log = []            # every listener call, of every pairing object of every process
    gen = [0]

    def state():
        return p.description.state_num if p is not None and p.description else None

    def bad(sig, what, idx):
        viol.append((sig, what, idx))

    for idx, ev in enumerate(case["events"]):
        kind = ev[0]
        tag = f"life-cycle event #{idx} {ev} after {case['events'][:idx]} (cache entry at start: {case['cache']})"
        try:
            if kind == "restart":       # the application process ends; a new one starts over the same cache
                ctrl = BleController(cache)
                p, S, D, may_key = None, None, None, False
                stats["restart"] += 1
                continue
            if kind == "load":
                entry = cache.get_map(pid) or {}
                c, k = entry.get("state_num"), entry.get("broadcast_key")
                p = ctrl.load_pairing("alias", dict(pd))
                gen[0] += 1
                p.dispatcher_connect((lambda n: lambda e: log.append((n, e)))(gen[0]))
                may_key = bool(k)
                if D is not None:
                    # the scanner has seen the accessory: the pairing starts from what the accessory said (and what was accepted since)
                    S = set(D)
                    top = max(_ints(S))
                    if isinstance(c, int) and c > top:
                        S.add(c)        # the stored number is ABOVE what the accessory announces: the property does not say which one wins
                    D = S
                    stats["load/after-advertisement/" + ("no-stored-number" if not c else "stored-below" if c < top else "stored-equal" if c == top else "stored-above")] += 1
                else:
                    new = {None} if c is None else {None, 0} if c == 0 else {c}
                    stats["load/from-cache/" + ("again" if S is not None else "first") + ("/no-stored-number" if not c else "")] += 1
                    S = new if S is None else (S | new)
                stats["load/" + ("with-key" if k else "without-key")] += 1
                if dev and state() not in S:
                    obs.append(f"DEV {tag}: library at {state()}, candidates {S}")
                continue
            if kind == "adv":
                ctrl._device_detected(*_life_regular(ev[1], LIFE_PID))
                await asyncio.sleep(0)
                if p is not None:
                    S = _learned(S, ev[1])
                    D = S
                    stats["regular/for-pairing"] += 1
                else:
                    D = _learned(D, ev[1]) if D is not None else {ev[1]}
                    stats["regular/before-load"] += 1
                if dev and p is not None and state() not in S:
                    obs.append(f"DEV {tag}: library at {state()}, candidates {S}")
                continue
            if kind == "restore":
                if p is None:
                    continue
                p.restore_accessories_state(_life_db(), 1, KEY if ev[2] else None, ev[1])
                if isinstance(ev[1], int) and all(x is None or x < ev[1] for x in S):
                    S = S | {ev[1]}
                    if D is not None:
                        D = S
                may_key = may_key or bool(ev[2])
                stats["restore"] += 1
                continue
        except Exception as e:  # noqa: BLE001 - library code on valid input
            bad("notify/" + type(e).__name__, f"{tag}: raised {type(e).__name__}: {e}", idx)
            break
        # ---- an encrypted advertisement
        g = ev[1] if kind != "S" else None
        authentic = False
        iid = None
        if kind == "G":
            _, g, inner, iid, rawhex = ev
            raw = b"" if rawhex == "-" else bytes.fromhex(rawhex)
            d, a = _life_encrypted(seal(g, iid, raw, inner=inner), ADV)
            authentic = 0 <= g <= 0xFFFF and ((inner if inner is not None else g) & 0xFFFF) == g
        elif kind == "K":       # sealed under a key that is not the pairing's
            d, a = _life_encrypted(seal(g, ev[2], b"\x01", k=bytes(32)), ADV)
        elif kind == "A":       # the right key, but sealed for another advertising identifier
            d, a = _life_encrypted(seal(g, ev[2], b"\x01", aid=OTHER), ADV)
        elif kind == "B":
            x = bytearray(seal(g, ev[2], b"\x07"))
            x[ev[3] // 8 % len(x)] ^= 1 << (ev[3] % 8)
            d, a = _life_encrypted(bytes(x), ADV)
        elif kind == "O":       # an accessory nobody is paired with
            d, a = _life_encrypted(seal(g, ev[2], b"\x01", aid=OTHER), OTHER)
        else:
            d, a = _life_encrypted(b"" if ev[1] == "-" else bytes.fromhex(ev[1]), ADV)
        before = state()
        n0 = len(log)
        try:
            ctrl._device_detected(d, a)
            await asyncio.sleep(0)
        except Exception as e:  # noqa: BLE001
            bad("notify/" + type(e).__name__, f"{tag}: _device_detected raised {type(e).__name__}: {e}", idx)
            break
        new = log[n0:]
        after = state()
        stats["adv/" + kind] += 1
        if p is None:
            if new:
                bad("notify/accepted", f"{tag}: reached listeners {new} although no pairing is loaded in this process", idx)
            continue
        allowed = may_key and authentic and any(L < g < L + 100 for L in _ints(S))
        if not new and after == before:
            stats["ignored" + ("/though-acceptable" if allowed else "")] += 1
            continue
        cand = "nothing (no state number learned yet)" if not _ints(S) else "/".join(map(str, sorted(_ints(S))))
        if not allowed:
            why = ("the pairing was never given a broadcast key" if not may_key else "it does not authenticate" if not authentic else
                   f"the last state number the pairing has learned is {cand}")
            if new:
                bad("notify/accepted", f"{tag}: delivered {new[0][1]} (state {before}->{after}) although {why}", idx)
            else:
                bad("notify/state-changed", f"{tag}: changed the state number {before}->{after} although {why}", idx)
            break
        # ---- acceptable: then it must be accepted properly
        if after != g:
            bad("notify/accepted" if new else "notify/state-changed", f"{tag}: authentic and fresh, {'delivered' if new else 'not delivered'}, but the state number went {before}->{after}, not to {g}", idx)
            break
        if g <= max(_ints(S)):
            stats["accepted-below-largest"] += 1
            if len(obs) < 3:
                obs.append(f"event #{idx} {ev} after {case['events'][:idx]} (cache {case['cache']}): accepted although the pairing (or its predecessor in this process) had learned {cand}")
        S = {g}
        if D is not None:
            D = S
        stats["accepted"] += 1
        if iid in fmt_of:
            fmt = fmt_of[iid]
            mine = [e for n, e in new if n == gen[0]]
            if len(mine) != 1:
                bad("notify/listener-missed", f"{tag}: accepted, but the listener connected to the current pairing object was called {len(mine)} times", idx)
            for _, e in new:
                if not (isinstance(e, dict) and list(e) == [(1, iid)] and isinstance(e[(1, iid)], dict) and "value" in e[(1, iid)]):
                    bad("notify/accepted", f"{tag}: delivered under {list(e) if isinstance(e, dict) else e!r}, expected [(1, {iid})]", idx)
                elif not value_matches(fmt, raw, e[(1, iid)]["value"]):
                    bad("notify/wrong-value", f"{tag}: instance id {iid} is {fmt}; accessory sealed {hx(raw)}, listeners got {e[(1, iid)]['value']!r}", idx)
            stats["delivered/" + fmt] += 1
        elif new:
            bad("notify/unknown-iid-delivered", f"{tag}: delivered {new[0][1]} for an instance id the database does not contain", idx)
        else:
            stats["silent-unknown-iid"] += 1
        if viol:
            break
    # whatever the library left running (nothing should be: there is no radio) is stopped
    left = [t for t in asyncio.all_tasks() if t is not asyncio.current_task()]
    if left:
        await asyncio.sleep(0)
        for t in [t for t in left if not t.done()]:
            t.cancel()
        await asyncio.sleep(0)
    return viol, stats, obs


def run_life_history(case, loop=None, dev=False):
    import asyncio
    from unittest import mock

    from bleak.exc import BleakError

    async def no_radio(*a, **k):
        raise BleakError("no radio in this check")
    if loop is not None:        # the caller owns the loop and has taken the radio away (life_stream)
        return loop.run_until_complete(_run_life(case, dev))
    loop = asyncio.new_event_loop()
    try:
        with mock.patch("aiohomekit.controller.ble.pairing.establish_connection", no_radio):
            return loop.run_until_complete(_run_life(case, dev))
    finally:
        loop.close()


LIFE_NOTIFY = ("ev", "ev5", "far", "same", "old", "old1", "ancient", "replay", "wrongkey", "aad", "bitflip", "innerbad", "otherid", "short", "unknown")


def realise_life(rng, acc0, cstate, ckey, syms, lower=False, label=None):
    """symbols -> a self-contained history with absolute numbers.  cstate: None | 'zero' | offset of the stored state number from the
    accessory's number at the start"""
    acc = acc0
    issued = []         # everything the accessory has broadcast so far
    evs = []

    def genuine(g, iid=None, inner=None):
        fmt = rng.choice(ALL_FORMATS)
        e = ["G", g, inner, FORMATS[fmt] if iid is None else iid, hx(gen_raw(rng, fmt)) or "-"]
        return e

    def issue(g):
        for e in issued:
            if e[1] == g:
                return list(e)      # the accessory repeats its broadcasts
        e = genuine(g)
        issued.append(e)
        return list(e)
    for s in syms:
        iid = FORMATS[rng.choice(ALL_FORMATS)]
        if s == "adv":
            evs.append(["adv", acc])
        elif s in ("load", "restart"):
            evs.append([s])
        elif s == "jump":           # the accessory's state changes without a broadcast (a connected controller, an unsubscribed characteristic)
            acc += 3
        elif s.startswith("restore"):
            _, rel, k = s.split(":")
            evs.append(["restore", None if rel == "n" else max(acc + int(rel), 0), k == "1"])
        elif s == "ev":
            acc += 1
            evs.append(issue(acc))
        elif s == "ev5":
            acc += 5
            evs.append(issue(acc))
        elif s == "far":
            acc += 150
            evs.append(issue(acc))
        elif s == "same":
            evs.append(issue(acc))
        elif s == "old":
            evs.append(issue(max(acc - 2, 1)))
        elif s == "old1":
            evs.append(issue(max(acc - 1, 1)))
        elif s == "ancient":        # broadcast long ago: a small absolute state number
            evs.append(issue(rng.randrange(1, max(2, min(acc, 100)))))
        elif s == "replay":
            evs.append(list(rng.choice(issued)) if issued else issue(acc))
        elif s == "unknown":        # authentic, for an instance id the database does not have
            acc += 1
            e = genuine(acc, iid=rng.choice([999, 950]))
            issued.append(e)
            evs.append(list(e))
        elif s == "wrongkey":
            evs.append(["K", acc + 1, iid])
        elif s == "aad":
            evs.append(["A", acc + 1, iid])
        elif s == "bitflip":
            evs.append(["B", acc + rng.choice([0, 1]), iid, rng.randrange(16 * 8)])
        elif s == "innerbad":
            evs.append(["G", acc + 1, acc + rng.choice([0, 2, 3]), iid, "0b"])
        elif s == "otherid":
            evs.append(["O", acc + 1, iid])
        elif s == "short":
            evs.append(["S", hx(bytes(rng.randrange(256) for _ in range(rng.randrange(0, 12)))) or "-"])
        else:
            raise ValueError(s)
    state = None if cstate is None else 0 if cstate == "zero" else max(acc0 + cstate, 0)
    case = {"stream": "life", "cache": {"state": state, "key": bool(ckey)}, "events": evs}
    if lower:
        case["lower"] = True
    if label:
        case["label"] = label
    return case


LIFE_CYCLE = ("adv", "load", "restart", "ev", "jump")


def life_exhaustive(ctx):
    """every order of {regular advertisement, load_pairing (first / again), restart, accessory event with / without broadcast} to a depth,
    from every kind of cache entry, each followed by probes: a repeat of the accessory's latest broadcast, its next event, a repeat of that,
    load_pairing again and a repeat of what was accepted before it, and (for every fifth history) an older / ancient broadcast"""
    rng = ctx.rng
    out = []
    depth = ctx.budget(3, 4)
    variants = [(12, None, True, depth), (12, "zero", True, depth), (12, -5, True, depth), (12, 0, True, depth), (12, 5, True, 2),
                (300, None, True, depth - 1), (300, -5, True, depth), (300, 0, True, depth - 1), (300, 5, True, 2),
                (45, -5, False, 2), (45, None, False, 2), (40000, -120, True, 2)]
    k = 0
    for acc0, cstate, ckey, dmax in variants:
        for d in range(1, dmax + 1):
            for seq in itertools.product(LIFE_CYCLE, repeat=d):
                if seq[0] == "restart" or any(a == b and a in ("restart", "adv") for a, b in zip(seq, seq[1:])):
                    continue        # a restart of a process in which nothing has happened / twice the same thing
                k += 1
                loaded = False
                for s in seq:
                    loaded = (loaded or s == "load") and s != "restart"
                # probes: (an older / ancient broadcast,) a repeat of the latest broadcast, the next event, load_pairing AGAIN, a repeat of what was just accepted
                tail = ([] if loaded else ["load"]) + (["old" if k % 10 else "ancient"] if k % 5 == 0 and cstate != 5 else []) + ["same"] + (["adv"] if cstate == 5 or acc0 > 1000 else []) + ["ev", "load", "same"]
                out.append(realise_life(rng, acc0, cstate, ckey, list(seq) + tail, lower=k % 2 == 0, label=f"{acc0}/{cstate}/{'key' if ckey else 'nokey'}/" + "-".join(seq)))
    return out


def life_directed(ctx):
    """the application hands over a stored state (restore_accessories_state with / without state number, below / equal / above, with /
    without key) at every point of a start-up, followed by load_pairing again or a restart, then probes"""
    rng = ctx.rng
    out = []
    k = 0
    for acc0, cstate in ((12, None), (12, -5), (300, 0), (300, None)):
        for rel in ("n", "-3", "0", "4"):
            for key in ("1", "0"):
                for pre in (["load"], ["adv", "load"], ["load", "adv"], ["load", "ev"], ["adv", "load", "ev"]):
                    for post in ([], ["load"], ["restart", "load"], ["adv"], ["ev", "load"]):
                        k += 1
                        if (k + ctx.seed) % ctx.budget(5, 1):
                            continue        # quick: a fifth of them, a different one for every seed
                        syms = pre + [f"restore:{rel}:{key}"] + post + (["old"] if k % 3 == 0 else []) + ["same", "ev", "same"]
                        out.append(realise_life(rng, acc0, cstate, True, syms, lower=k % 2 == 1, label=f"restore/{acc0}/{cstate}/{rel}/{key}/" + "-".join(pre + ["R"] + post)))
    return out


def gen_life_history(rng, long=False):
    """a random life cycle: cache entry, start-up in any order, then the advertisement alphabet interleaved with further regular
    advertisements, reloads, restarts and restores"""
    acc0 = rng.choice([3, 12, 45, 99, 101, 300, 40000])
    cstate = rng.choice([None, None, "zero", 0, 0, -1, -5, -5, -60, -150, 5])
    syms = []
    for _ in range(rng.randrange(1, 4)):
        syms.append(rng.choice(["adv", "load", "load", "ev", "jump", "same", "ancient", "adv"]))
    if "load" not in syms:
        syms.append("load")
    for _ in range(rng.randrange(3, 30 if long else 11)):
        r = rng.random()
        if r < 0.12:
            syms.append("adv")
        elif r < 0.24:
            syms.append("load")
        elif r < 0.28:
            syms += ["restart"] + rng.choice([["load"], ["adv", "load"], ["load", "adv"], ["same", "load"]])
        elif r < 0.33:
            syms.append("jump")
        elif r < 0.39:
            syms.append(f"restore:{rng.choice(['n', '-3', '0', '4', '-40'])}:{rng.choice('110')}")
        elif r < 0.60:
            syms.append("ev")
        elif r < 0.72:
            syms.append("same")
        else:
            syms.append(rng.choice(LIFE_NOTIFY))
    return realise_life(rng, acc0, cstate, rng.random() > 0.08, syms, lower=rng.random() < 0.5)


def life_stream(ctx):
    import asyncio
    import os
    dev = bool(os.environ.get("VERIF_C18_DEV"))
    cases = life_exhaustive(ctx) + life_directed(ctx) + [gen_life_history(ctx.rng, ctx.thorough()) for _ in range(ctx.budget(100, 3000))]
    from unittest import mock

    from bleak.exc import BleakError

    async def no_radio(*a, **k):
        raise BleakError("no radio in this check")
    loop = asyncio.new_event_loop()
    observations = []
    radio = mock.patch("aiohomekit.controller.ble.pairing.establish_connection", no_radio)
    radio.start()
    try:
        for case in cases:
            try:
                viol, stats, obs = run_life_history(case, loop, dev)
            except Exception as e:  # noqa: BLE001 - creating the controller over the cache ...: library code on valid input
                import traceback
                where = traceback.extract_tb(e.__traceback__)[-1]
                viol, stats, obs = [("notify/" + type(e).__name__, f"the life-cycle history could not be run: {type(e).__name__}: {e} (at {where.filename}:{where.lineno})", len(case["events"]))], {}, []
            ctx.evaluations += 1
            ctx.nontrivial.add(("life", hashlib.sha1(json.dumps(case, sort_keys=True).encode()).hexdigest()))
            ctx.dist["life"] += 1
            for key, n in stats.items():
                ctx.dist["life/" + key] += n
            observations += obs
            seen = set()
            for sig, what, idx in viol:
                if sig not in seen:     # the failing input is the history up to that event
                    seen.add(sig)
                    ctx.violation(sig, what, dict(case, events=case["events"][:idx + 1]))
    finally:
        radio.stop()
        loop.close()
    ctx.sample({k: (v if len(str(v)) < 700 else str(v)[:700] + "...") for k, v in cases[len(cases) // 2].items()})
    if dev:
        for o in observations:
            print(o)
    if ctx.dist["life/accepted-below-largest"]:
        ctx.notes.append(f"life: {ctx.dist['life/accepted-below-largest']} notifications were accepted below the largest state number learned in the process, where the property does not say which "
                         f"source of the last number wins (stored number above the advertised one; a pairing object created anew from a cache entry that does not record accepted notifications; "
                         f"a state handed over by the application) - no verdict; e.g. {[o for o in observations if not o.startswith('DEV')][:2]}")


# ================================================================ the TOP-LEVEL Controller: pairings come, go and come back
# The histories above never end a pairing and never change its identity.  Here the application works with the top-level
# Controller the way it does in production: async_start (the BLE backend is registered, the scanner is a stand-in that hands
# over what the harness tells it to), load_pairing / load_data, subscribe + populate (over a fake radio with a real pair-verify the
# accessory generates a broadcast key bound to THAT session and THAT controller key), Controller.remove_pairing - succeeding,
# failing with every error class the transport raises (accessory out of reach, link lost at every step of the exchange, removal
# refused, unusable answers, a disconnect that fails), cancelled at any moment - then load_pairing again with the SAME or with NEW
# pairing data (the accessory was factory reset / paired again: new long-term keys, its state number restarts or continues), a
# restart of the process over the same characteristic cache (memory object or file) or after the cache was deleted - interleaved
# with the accessory's events, its regular advertisements and notifications sealed under EVERY broadcast key that ever existed in
# the history (replays of recordings and fresh sealings by whoever still knows an old key).
#
# Oracle (harness bookkeeping only).  The harness knows which pairing identity negotiated which key: a key is generated by the
# accessory inside a session verified with the long-term keys of one identity; the key the cache entry holds at the start belongs
# to the first identity.  A pairing object may use
#   * the keys its own identity negotiated, and
#   * the keys the storage chain handed down to it: the cache entry of the accessory id lives on across reloads and restarts
#     (also when the application swaps the pairing data without removing anything - counted, no verdict), and ENDS with
#     Controller.remove_pairing (whatever its outcome: afterwards the controller no longer knows the pairing) or with the deletion
#     of the cache.
# A notification may change state or reach listeners of a pairing object only if it is sealed under such a key for the advertising
# id, its inner counter equals the nonce counter and L < g < L+100 for a state number L the object may have as its last one (the
# candidate sets of the life-cycle stream above; numbers learned inside sessions and everything about retired objects are kept as
# additional candidates - a superset, so that freshness is never demanded more strictly than the property does).
TOP_ALIAS = "hall"
TOP_INIT_KEY = bytes(range(160, 192))
_PAIRINGS_UUID = "00000050-0000-1000-8000-0026BB765291"
TOP_FIXED = [[9000, "00000055-0000-1000-8000-0026BB765291", [[9001, _PAIR_VERIFY, "data"], [9002, _PAIRINGS_UUID, "data"]]], FIXED_SERVICES[1]]
TOP_DB = [[1000, SERVICE_TYPES[0], [[iid, CHAR_TYPES[k], fmt] for k, (fmt, iid) in enumerate(FORMATS.items())]]]

# how a Controller.remove_pairing can go, by what the radio / the accessory does meanwhile
TOP_DOWN = ("BleakError", "BleakNotFoundError", "BleakOutOfConnectionSlotsError", "BleakAbortedError", "BleakConnectionError", "BleakDeviceNotFoundError", "BleakDBusError",
            "TimeoutError", "EOFError", "BrokenPipeError")
TOP_REMOVALS = (["ok", "ok-hangup"] + ["down:" + e for e in TOP_DOWN]
                # the link is lost at the n-th GATT operation of every connection (1-4: pair-verify, 5: the removal request, 6: its answer)
                + [f"drop:{n}:{e}" for n, e in ((1, "BleakError"), (2, "BleakError"), (3, "EOFError"), (4, "BleakError"), (5, "BleakError"), (5, "BrokenPipeError"), (6, "BleakError"),
                                                 (6, "TimeoutError"), (6, "EOFError"))]
                + ["drop1:6:BleakError", "drop1:2:BleakError"]          # ... of the first connection only: the retry gets through
                + ["refuse:2", "refuse:1", "refuse:6", "badstate", "mangled", "status:5", "status:3"]
                + ["disc:RuntimeError", "disc:OSError", "disc:BleakError", "disc:TimeoutError"])
TOP_CANCELS = (("ok", 0.0), ("ok", 0.1), ("ok", 0.315), ("ok", 0.335), ("ok", 0.355), ("ok", 0.365), ("down:BleakError", 0.2), ("down:BleakError", 1.0), ("drop:6:BleakError", 0.5),
               ("refuse:2", 0.37))


def _top_exc(name):
    import asyncio

    import bleak.exc as bx
    import bleak_retry_connector as brc
    msg = "Device with address AA:BB:CC:DD:EE:FF was not found"
    if name == "BleakDeviceNotFoundError":
        return bx.BleakDeviceNotFoundError("AA:BB:CC:DD:EE:FF", msg)
    if name == "BleakDBusError":
        return bx.BleakDBusError("org.bluez.Error.Failed", ["le-connection-abort-by-local"])
    if name.startswith("Bleak"):
        return getattr(brc, name, bx.BleakError)(msg)
    return {"TimeoutError": asyncio.TimeoutError, "EOFError": EOFError, "BrokenPipeError": BrokenPipeError, "OSError": OSError, "RuntimeError": RuntimeError}[name](msg)


class _TopScanner:
    """the BLE scanner: starts, stops, and reports what the harness tells it to"""
    current = None

    def __init__(self, detection_callback=None, **kw):
        self.detection_callback = detection_callback
        self.discovered_devices_and_advertisement_data = {}
        type(self).current = self

    async def start(self):
        return None

    async def stop(self):
        return None


class _TopAcc:
    """the accessory: its identities (a factory reset / a new pair-setup gives it new long-term keys), its own state number and
    EVERY broadcast key it ever sealed with, each with the identity whose session generated it"""

    def __init__(self, pid, gsn, init_key):
        self.who = "A"
        self.pid = pid
        self.address = LIFE_PID
        self.db = TOP_DB
        self.gen = -1
        self.idents = []            # the pairing identities, as pair-setup established them
        self.keys = []              # [{"key", "gen"}]
        self._bkey = None
        self.keys_generated = 0
        self.gsn, self.cfg = gsn, 1
        self.client = None
        self.sig_served, self.val_served, self.verified = set(), set(), 0
        self.removals = 0
        self.new_identity()
        if init_key:
            self.keys.append({"key": init_key, "gen": 0})
            self._bkey = init_key

    @property
    def bkey(self):
        return self._bkey

    @bkey.setter
    def bkey(self, k):
        self._bkey = k
        if k is not None:
            self.keys.append({"key": k, "gen": self.gen})

    def key_index(self):
        return next((i for i in range(len(self.keys) - 1, -1, -1) if self.keys[i]["key"] == self._bkey), None) if self._bkey else None

    def new_identity(self):
        import random as _r
        self.gen += 1
        r = _r.Random(f"c18-top-{self.gen}")
        self.rb = lambda n: bytes(r.randrange(256) for _ in range(n))
        self.ident = refacc.Identity(self.rb, acc_id=self.pid.encode(), ios_id=f"ctrl-{self.gen}")
        self.idents.append(self.ident)
        self._bkey = None           # the broadcast key goes with the pairing
        self.hang_up()

    def unpair(self):
        """the (only) pairing was removed: nobody can set up a session any more, the broadcast key is discarded"""
        import copy
        stranger = copy.copy(self.ident)
        stranger.ios_id = "nobody"
        stranger.ios_ltpk = bytes(32)
        self.ident = stranger
        self._bkey = None
        self.removals += 1

    def hang_up(self, notify=True):
        if self.client is not None:
            self.client.drop(notify=notify)
            self.client = None

    def connect(self, disconnected_callback, plan):
        self.hang_up()
        self.client = _TopClient(self, disconnected_callback, plan)
        return self.client


class _TopClient(_GattClient):
    """one connection over the fake radio: operations take (virtual) time, the link can be lost at a given operation, the accessory
    answers pairing-removal requests"""

    def __init__(self, acc, disconnected_callback, plan):
        super().__init__(acc, disconnected_callback)
        self.services = _gatt_table(acc.db, TOP_FIXED)
        self.plan = plan
        self.ops = 0
        self.hang_up_after_read = False

    async def _op(self):
        import asyncio
        await asyncio.sleep(0.01)
        self.ops += 1
        d = self.plan.get("drop")
        if d and self.is_connected and self.ops == d["at"] and not (d["once"] and d.get("done")):
            d["done"] = True
            self.drop()
            raise _top_exc(d["exc"])

    async def write_gatt_char(self, char, data, response=False):
        await self._op()
        return await super().write_gatt_char(char, data, response)

    async def read_gatt_char(self, char):
        await self._op()
        out = await super().read_gatt_char(char)
        if self.hang_up_after_read:
            # HAP 5.11: the sessions of a removed controller are torn down - at once, or a moment after the answer went out
            import asyncio
            if self.plan.get("removal") == "ok-hangup":
                self.drop()
            else:
                asyncio.get_event_loop().call_later(0.05, self.drop)
            self.hang_up_after_read = False
        return out

    async def disconnect(self):
        if self.plan.get("disc") and self.is_connected:
            raise _top_exc(self.plan["disc"])
        return await super().disconnect()

    def extra_request(self, opcode, target, char, body, encrypted):
        if not (opcode == 0x02 and encrypted and char.uuid == _PAIRINGS_UUID.lower()):
            return None
        req = refacc.untlv(refacc.untlv(body).get(0x01, b""))
        mode = self.plan.get("removal", "ok")
        if req.get(0) != b"\x04" or req.get(6) != b"\x01":      # only RemovePairing is served
            return 0, refacc.tlv([(0x01, refacc.tlv([(6, b"\x02"), (7, b"\x01")]))])
        if mode.startswith("status:"):
            return int(mode.split(":")[1]), b""
        if mode == "mangled":
            return 0, b""
        if mode.startswith("refuse:"):
            inner = refacc.tlv([(6, b"\x02"), (7, bytes([int(mode.split(":")[1])]))])
        elif mode == "badstate":
            inner = refacc.tlv([(6, b"\x04")])
        else:
            if req.get(1) == self.acc.ident.ios_id.encode():
                self.acc.unpair()
                self.hang_up_after_read = True
            inner = refacc.tlv([(6, b"\x02")])
        return 0, refacc.tlv([(0x01, inner)])


def _top_plan(mode):
    kind, _, rest = mode.partition(":")
    if kind == "down":
        return {"down": rest}
    if kind in ("drop", "drop1"):
        n, exc = rest.split(":")
        return {"drop": {"at": int(n), "exc": exc, "once": kind == "drop1"}}
    if kind == "disc":
        return {"disc": rest}
    return {"removal": mode}


class _Top:
    def __init__(self, case):
        from collections import Counter
        self.case = case
        self.pid = LIFE_PID.lower() if case.get("lower", True) else LIFE_PID
        entry = case["cache"].get("entry")
        self.acc = _TopAcc(self.pid, case["acc0"], TOP_INIT_KEY if entry and entry.get("key") else None)
        self.stats, self.viol, self.obs = Counter(), [], []
        self.records = []           # every pairing object the application ever got: {"p", "gen", "log", "state": live|retired|dead, "inherited", "S"}
        self.cur = None
        self.S = self.D = None      # as in _run_life
        self.store_keys = {0} if self.acc.keys else set()      # the keys the storage chain of this accessory id legitimately carries
        self.store_gen = 0 if self.acc.keys else None
        self.plan = {}
        self.in_range = True
        self.issued = []            # everything the accessory ever broadcast
        self.verified_seen, self.keys_seen = 0, len(self.acc.keys)
        self.tmp = self.path = self.mem = self.ctrl = None
        self.fmt_of = db_formats(TOP_DB)
        self.idx = 0
        self.tag = ""

    # ---------------------------------------------------------------- the application process
    def tmpdir(self):
        import tempfile
        if self.tmp is None:
            self.tmp = tempfile.mkdtemp(prefix="c18top")
        return self.tmp

    async def boot(self, first=False):
        import os
        import pathlib

        from aiohomekit.characteristic_cache import CharacteristicCacheFile, CharacteristicCacheMemory
        from aiohomekit.controller import Controller
        from aiohomekit.controller.abstract import TransportType
        kind = self.case["cache"]["kind"]
        if first:
            entry = self.case["cache"].get("entry")
            if kind == "file":
                self.path = pathlib.Path(os.path.join(self.tmpdir(), "cache.json"))
                store = CharacteristicCacheFile(self.path)
            else:
                store = self.mem = CharacteristicCacheMemory()
            if entry:       # what earlier sessions of the first pairing left behind
                store.async_create_or_update_map(self.pid, 1, db_accessories(TOP_DB, TOP_FIXED), TOP_INIT_KEY.hex() if entry.get("key") else None, entry.get("state"))
        self.cache = CharacteristicCacheFile(self.path) if kind == "file" else self.mem
        self.ctrl = Controller(char_cache=self.cache)
        await self.ctrl.async_start()
        if TransportType.BLE not in self.ctrl.transports:
            raise RuntimeError("the BLE backend was not registered by Controller.async_start")
        self.detect = _TopScanner.current.detection_callback

    async def end_process(self, how):
        import asyncio
        if how == "stop":
            for R in self.records:
                if R["state"] == "live":
                    try:
                        await asyncio.wait_for(R["p"].shutdown(), 300)
                    except Exception as e:  # noqa: BLE001 - not this property's business
                        self.stats["shutdown/error/" + type(e).__name__] += 1
            try:
                await self.ctrl.async_stop()
            except Exception as e:  # noqa: BLE001
                self.stats["async_stop/error/" + type(e).__name__] += 1
        await self.kill_tasks()
        self.acc.hang_up(notify=False)
        for R in self.records:
            R["state"] = "dead"         # objects of a process that is gone: their listeners must hear nothing more
        self.cur = None
        self.S = self.D = None

    async def kill_tasks(self):
        import asyncio
        left = [t for t in asyncio.all_tasks() if t is not asyncio.current_task() and not t.done()]
        for t in left:
            t.cancel()
        if left:
            await asyncio.wait(left, timeout=5)

    async def settle(self):
        """let the library's background work finish (virtual time); what does not finish is stopped"""
        import asyncio
        for rnd in range(3):
            tasks = [t for t in asyncio.all_tasks() if t is not asyncio.current_task() and not t.done()]
            if tasks:
                await asyncio.wait(tasks, timeout=200)
            if rnd == 0:
                await asyncio.sleep(2)      # debounced work (start of GATT notifications)
        left = [t for t in asyncio.all_tasks() if t is not asyncio.current_task() and not t.done()]
        if left:
            self.stats["background-task-stopped"] += len(left)
            await self.kill_tasks()
        # connections do not live long on battery powered accessories
        self.acc.hang_up()
        await asyncio.sleep(0)

    def book(self):
        """bookkeeping after an event: sessions that took place, keys the accessory generated in them"""
        acc = self.acc
        if acc.verified != self.verified_seen:
            self.stats["sessions"] += acc.verified - self.verified_seen
            self.verified_seen = acc.verified
            n = acc.gsn & 0xFFFF        # a session may have told the pairing the accessory's number - or not
            if self.cur is not None and self.S is not None:
                self.S.add(n)
            elif self.D is not None:
                self.D.add(n)
            for R in self.records:
                if R["state"] == "retired":
                    R["S"].add(n)
        for i in range(self.keys_seen, len(acc.keys)):
            self.store_keys.add(i)
            self.store_gen = acc.keys[i]["gen"]
            self.stats["key-negotiated"] += 1
        self.keys_seen = len(acc.keys)

    def retire(self, R, removed):
        R["state"] = "retired"
        R["S"] = set(_ints(self.S or ())) | set(_ints(self.D or ()))
        R["removed"] = removed

    def bad(self, sig, what):
        self.viol.append((sig, what, self.idx))

    def state(self):
        p = self.cur["p"] if self.cur else None
        return p.description.state_num if p is not None and p.description else None

    # ---------------------------------------------------------------- events
    async def run(self):
        import asyncio
        await self.boot(first=True)
        evs = self.case["events"]
        for idx, ev in enumerate(evs):
            self.idx = idx
            self.tag = (f"top-level event #{idx} {ev} after {evs[:idx]} (cache {self.case['cache']}, accessory's state number at the start {self.case['acc0']}, "
                        f"AccessoryPairingID {self.pid})")
            try:
                await self.step(ev)
                await self.settle()
            except Exception as e:  # noqa: BLE001 - library code on valid input (load_pairing, the scanner callback, async_start)
                import traceback
                where = traceback.extract_tb(e.__traceback__)[-1]
                self.bad("notify/" + type(e).__name__, f"{self.tag}: raised {type(e).__name__}: {e} (at {where.filename}:{where.lineno})")
                break
            self.book()
            if self.viol:
                break
        await self.kill_tasks()
        self.acc.hang_up(notify=False)
        await asyncio.sleep(0)
        return self.viol, self.stats, self.obs

    def cleanup(self):
        import shutil
        if self.tmp:
            shutil.rmtree(self.tmp, ignore_errors=True)

    async def step(self, ev):
        import asyncio
        import os
        acc, kind = self.acc, ev[0]
        if kind == "adv":
            n = acc.gsn & 0xFFFF
            self.detect(*_life_regular(n, LIFE_PID))
            await asyncio.sleep(0)
            if self.cur is not None:
                self.S = _learned(self.S, n)
                self.D = self.S
                self.stats["regular/for-pairing"] += 1
            else:
                self.D = _learned(self.D, n) if self.D is not None else {n}
                self.stats["regular/no-pairing"] += 1
            for R in self.records:
                if R["state"] == "retired":
                    R["S"].add(n)
            return
        if kind == "range":
            self.in_range = bool(ev[1])
            return
        if kind == "reset":         # the accessory is factory reset ("factory": its state number restarts) or its pairing is replaced ("repair"); pair-setup gives new long-term keys
            acc.new_identity()
            if ev[1] == "factory":
                acc.gsn = 1
            self.stats["accessory/" + ev[1]] += 1
            return
        if kind == "restart":
            await self.end_process(ev[2])
            if ev[1] == "wiped":    # the application's storage is gone
                from aiohomekit.characteristic_cache import CharacteristicCacheMemory
                if self.case["cache"]["kind"] == "file":
                    if os.path.exists(self.path):
                        os.unlink(self.path)
                else:
                    self.mem = CharacteristicCacheMemory()
                self.store_keys, self.store_gen = set(), None
            self.stats["restart/" + ev[1] + "/" + ev[2]] += 1
            await self.boot()
            return
        if kind == "load":
            g = acc.gen if ev[1] == "cur" else acc.gen - 1
            if g < 0:
                self.stats["skipped/load-prev"] += 1
                return
            pd = dict(acc.idents[g].pairing_data(connection="BLE"), AccessoryAddress=LIFE_PID)
            for k in ("AccessoryIP", "AccessoryIPs", "AccessoryPort"):
                pd.pop(k, None)
            c = (self.cache.get_map(self.pid) or {}).get("state_num")      # the application's storage: used for the state number candidates only
            if ev[2] == "load_data":
                fn = os.path.join(self.tmpdir(), "pairings.json")
                with open(fn, "w") as f:
                    json.dump({TOP_ALIAS: pd}, f)
                self.ctrl.load_data(fn)
                p = self.ctrl.aliases[TOP_ALIAS]
            else:
                p = self.ctrl.load_pairing(TOP_ALIAS, pd)
            if self.cur is not None:
                self.retire(self.cur, removed=False)       # replaced without a removal
                self.stats["load/again"] += 1
            R = {"p": p, "gen": g, "log": [], "state": "live", "inherited": set(self.store_keys), "S": None, "removed": False}
            p.dispatcher_connect(R["log"].append)
            self.records.append(R)
            self.cur = R
            if self.store_keys:
                if self.store_gen is not None and self.store_gen != g:
                    self.stats["load/inherits-entry-of-other-identity-never-removed"] += 1
                self.store_gen = g
            if self.D is not None:
                S = set(self.D)
                top = max(_ints(S))
                if isinstance(c, int) and c > top:
                    S.add(c)
                self.D = S
            else:
                new = {None} if c is None else {None, 0} if c == 0 else {c}
                S = new if self.S is None else (set(self.S) | new)
            self.S = S
            self.stats[f"load/{ev[2]}/" + ("current-identity" if g == acc.gen else "previous-identity")] += 1
            return
        if kind == "sub":
            if self.cur is None:
                self.stats["skipped/sub"] += 1
                return
            p = self.cur["p"]

            async def go():
                await p.subscribe({(1, int(i)) for i in ev[1]})
                await p.async_populate_accessories_state(force_update=True)
            out = await self.call(go())
            self.stats["subscribe+populate/" + out] += 1
            return
        if kind == "remove":
            mode, cancel = ev[1], ev[2]
            self.plan = _top_plan(mode)
            out = await self.call(self.ctrl.remove_pairing(TOP_ALIAS), cancel)
            await self.settle()
            self.plan = {}
            self.book()             # a key generated inside a session of the removal itself still belonged to the pairing that is being removed
            self.stats["remove/" + mode.split(":")[0] + ("/cancelled-at" if cancel is not None else "") + "/" + out] += 1
            if self.cur is not None:
                # whatever the outcome: the controller no longer knows the pairing, the storage chain of its keys ends here
                self.retire(self.cur, removed=True)
                self.cur = None
                self.store_keys, self.store_gen = set(), None
                self.stats["remove/accessory-" + ("removed-it" if acc.ident.ios_id == "nobody" else "still-paired")] += 1
            return
        # ---- an encrypted advertisement
        authentic, aid = True, ADV
        if kind == "ev":            # the accessory's state changes: its number grows, it broadcasts if it has a key
            acc.gsn = acc.gsn + 1 if acc.gsn < 0xFFFF else 1
            k = acc.key_index()
            if k is None:
                self.stats["event/no-broadcast"] += 1
                return
            rec = {"k": k, "g": acc.gsn, "inner": None, "iid": FORMATS[ALL_FORMATS[ev[1] % len(ALL_FORMATS)]], "raw": unhx(ev[2])}
            self.issued.append(rec)
        elif kind == "replay":
            if not self.issued:
                self.stats["skipped/replay"] += 1
                return
            rec = self.issued[ev[1] % len(self.issued)]
        elif kind == "bc":          # sealed now by somebody who knows one of the keys that ever existed
            k = self.keyref(ev[1])
            if k is None:
                self.stats["skipped/bc"] += 1
                return
            rec = {"k": k, "g": ev[2], "inner": ev[3], "iid": ev[4], "raw": unhx(ev[5])}
            authentic = 0 <= ev[2] <= 0xFFFF and ((ev[3] if ev[3] is not None else ev[2]) & 0xFFFF) == ev[2]
        else:                       # 'forge': nothing that authenticates
            rec = {"k": None, "g": ev[2], "inner": None, "iid": ev[3], "raw": b"\x01"}
            authentic = False
        key = acc.keys[rec["k"]]["key"] if rec["k"] is not None else bytes(32)
        if kind == "forge" and ev[1] == "aad":
            k = acc.key_index()
            key = acc.keys[k]["key"] if k is not None else TOP_INIT_KEY
            aid = OTHER
        payload = seal(rec["g"], rec["iid"], rec["raw"], inner=rec["inner"], k=key, aid=aid)
        if kind == "forge" and ev[1] == "bitflip":
            k = acc.key_index()
            x = bytearray(seal(rec["g"], rec["iid"], rec["raw"], k=acc.keys[k]["key"] if k is not None else TOP_INIT_KEY))
            x[ev[4] // 8 % len(x)] ^= 1 << (ev[4] % 8)
            payload = bytes(x)
        marks = [len(R["log"]) for R in self.records]
        before = self.state()
        self.detect(*_life_encrypted(payload, ADV))
        await asyncio.sleep(0)
        self.stats["adv/" + kind] += 1
        self.judge(rec, authentic, marks, before)

    async def call(self, coro, cancel=None):
        """an application call into the library that uses the radio: its outcome (a class name), never an exception"""
        import asyncio
        task = asyncio.ensure_future(coro)
        if cancel is not None:
            await asyncio.sleep(cancel)
            task.cancel()
        done, pending = await asyncio.wait({task}, timeout=900)
        if pending:
            task.cancel()
            await asyncio.wait({task}, timeout=5)
            return "never-returned"
        if task.cancelled():
            return "cancelled"
        e = task.exception()
        return "returned" if e is None else type(e).__name__

    def keyref(self, ref):
        """'acc': the key the accessory seals with now; 'init': the key of the cache entry at the start; ['old', n]: the n-th most recent key that is NOT the accessory's current one"""
        acc = self.acc
        if ref == "acc":
            return acc.key_index()
        if ref == "init":
            return 0 if acc.keys and acc.keys[0]["key"] == TOP_INIT_KEY else None
        cur = acc.key_index()
        older = [i for i in range(len(acc.keys) - 1, -1, -1) if i != cur]
        return older[ref[1]] if ref[1] < len(older) else None

    def whose(self, k):
        return f"broadcast key #{k} (negotiated by pairing identity #{self.acc.keys[k]['gen']})" if k is not None else "a key nobody ever negotiated"

    def judge(self, rec, authentic, marks, before):
        acc = self.acc
        g, iid, raw, k = rec["g"], rec["iid"], rec["raw"], rec["k"]
        tag = self.tag
        for R, n0 in zip(self.records, marks):
            new = R["log"][n0:]
            if R is self.cur:
                continue
            if not new:
                continue
            if R["state"] == "dead":
                self.bad("notify/accepted", f"{tag}: reached a listener of a pairing object of a process that has ended: {new[0]}")
                continue
            # a pairing object the application has replaced or removed (the library may still route advertisements to it): judged on its own keys, any number it may have
            legit = authentic and k is not None and (k in R["inherited"] or acc.keys[k]["gen"] == R["gen"])
            fresh = any(L < g < L + 100 for L in R["S"])
            self.stats["retired-object-notified" + ("/removed" if R["removed"] else "/replaced")] += 1
            if not (legit and fresh):
                self.bad("notify/accepted" if not authentic or legit else "notify/foreign-key-accepted",
                         f"{tag}: sealed under {self.whose(k)}, state number {g}: delivered {new[0]} to the listeners of pairing object #{self.records.index(R)} (identity #{R['gen']}, "
                         f"{'removed' if R['removed'] else 'replaced'} earlier; numbers it may have had: {sorted(R['S'])})")
            else:
                R["S"].add(g)
                if self.D is not None:
                    self.D.add(g)
        R = self.cur
        if R is None:
            return
        new = R["log"][marks[self.records.index(R)]:]
        after = self.state()
        S = self.S
        legit = authentic and k is not None and (k in R["inherited"] or acc.keys[k]["gen"] == R["gen"])
        allowed = legit and any(L < g < L + 100 for L in _ints(S))
        if not new and after == before:
            self.stats["ignored" + ("/though-acceptable" if allowed else "")] += 1
            return
        cand = "nothing (no state number learned yet)" if not _ints(S) else "/".join(map(str, sorted(_ints(S))))
        if not allowed:
            if not authentic:
                sig, why = "notify/accepted", "it does not authenticate"
            elif not legit:
                sig = "notify/foreign-key-accepted"
                why = (f"it is sealed under {self.whose(k)} while the current pairing object (identity #{R['gen']}) was loaded after "
                       f"{'the storage of its predecessors ended (remove_pairing / deleted cache)' if not R['inherited'] else 'inheriting keys ' + str(sorted(R['inherited']))} and its identity "
                       f"negotiated {[i for i, x in enumerate(acc.keys) if x['gen'] == R['gen']] or 'no key at all'}")
            else:
                sig, why = "notify/accepted", f"the last state number the pairing has learned is {cand}"
            if new:
                self.bad(sig, f"{tag}: state number {g}: delivered {new[0]} (state {before}->{after}) although {why}")
            else:
                self.bad(sig if sig != "notify/accepted" else "notify/state-changed", f"{tag}: state number {g}: changed the state number {before}->{after} although {why}")
            return
        if after != g:
            self.bad("notify/accepted" if new else "notify/state-changed", f"{tag}: authentic and fresh, {'delivered' if new else 'not delivered'}, but the state number went {before}->{after}, not to {g}")
            return
        if g <= max(_ints(S)):
            self.stats["accepted-below-largest"] += 1
        self.S = {g}
        if self.D is not None:
            self.D = self.S
        for Z in self.records:
            if Z["state"] == "retired":
                Z["S"].add(g)
        self.stats["accepted"] += 1
        self.stats["accepted/under-" + ("own-identitys-key" if acc.keys[k]["gen"] == R["gen"] else "inherited-key")] += 1
        if iid in self.fmt_of:
            fmt = self.fmt_of[iid]
            if len(new) != 1:
                self.bad("notify/listener-missed", f"{tag}: accepted, but the listener connected to the current pairing object was called {len(new)} times")
            for e in new:
                if not (isinstance(e, dict) and list(e) == [(1, iid)] and isinstance(e[(1, iid)], dict) and "value" in e[(1, iid)]):
                    self.bad("notify/accepted", f"{tag}: delivered under {list(e) if isinstance(e, dict) else e!r}, expected [(1, {iid})]")
                elif not value_matches(fmt, raw, e[(1, iid)]["value"]):
                    self.bad("notify/wrong-value", f"{tag}: instance id {iid} is {fmt}; accessory sealed {hx(raw)}, listeners got {e[(1, iid)]['value']!r}")
            self.stats["delivered/" + fmt] += 1
        elif new:
            self.bad("notify/unknown-iid-delivered", f"{tag}: delivered {new[0]} for an instance id the database does not contain")
        else:
            self.stats["silent-unknown-iid"] += 1


def run_top_history(case, loop=None):
    """one history through the top-level Controller.  Returns (violations [(signature, what, event index)], stats, observations)"""
    import contextlib
    from unittest import mock

    from harness.simnet import VLoop
    W = _Top(case)

    async def establish(device, name, disconnected_callback, *a, **k):
        import asyncio
        W.stats["radio/connection-attempt"] += 1
        await asyncio.sleep(0.3)
        if W.plan.get("down") or not W.in_range:
            raise _top_exc(W.plan.get("down") or "BleakNotFoundError")
        return W.acc.connect(disconnected_callback, W.plan)
    own = loop is None
    if own:
        loop = VLoop()
    try:
        with contextlib.ExitStack() as st:
            st.enter_context(mock.patch("aiohomekit.controller.ble.controller.BleakScanner", _TopScanner))
            st.enter_context(mock.patch("aiohomekit.controller.ble.pairing.establish_connection", establish))
            # no IP network in this check: only the BLE backend is registered
            st.enter_context(mock.patch("aiohomekit.controller.controller.IP_TRANSPORT_SUPPORTED", False))
            st.enter_context(mock.patch("aiohomekit.controller.controller.COAP_TRANSPORT_SUPPORTED", False))
            # ... and the BLE backend is enabled the way an installation enables it (aiohomekit.const decides at import, from the environment)
            st.enter_context(mock.patch("aiohomekit.controller.controller.BLE_TRANSPORT_SUPPORTED", True))
            return loop.run_until_complete(W.run())
    finally:
        W.cleanup()
        if own:
            loop.close()


class _TopScript:
    """writes a history; keeps the accessory's state number (it depends on the events only) to place sealings in the window"""

    def __init__(self, rng, acc0):
        self.rng, self.gsn, self.evs = rng, acc0, []

    def add(self, *evs):
        for e in evs:
            if e[0] == "ev":
                self.event()
            elif e[0] == "reset":
                self.reset(e[1])
            else:
                self.evs.append(list(e))
        return self

    def event(self, n=1):
        for _ in range(n):
            self.gsn = self.gsn + 1 if self.gsn < 0xFFFF else 1
            f = self.rng.randrange(len(ALL_FORMATS))
            self.evs.append(["ev", f, hx(gen_raw(self.rng, ALL_FORMATS[f]))])

    def reset(self, how):
        if how == "factory":
            self.gsn = 1
        self.evs.append(["reset", how])

    def sealed(self, keyref, delta, inner=None, unknown=False):
        fmt = self.rng.choice(ALL_FORMATS)
        g = self.gsn + delta
        self.evs.append(["bc", keyref, g, None if inner is None else g + inner, self.rng.choice([999, 950]) if unknown else FORMATS[fmt], hx(gen_raw(self.rng, fmt))])

    def probes(self, n_old=1, init=True):
        """whatever was recorded, and fresh sealings under the keys that are no longer the accessory's"""
        self.evs.append(["replay", self.rng.randrange(4)])
        for n in range(n_old):
            self.sealed(["old", n], self.rng.choice([1, 1, 2, 5]))
        if init:
            self.sealed("init", self.rng.choice([1, 3, 40]))


def top_directed(ctx):
    """first pairing (key from the cache entry or negotiated by itself) and some events -> Controller.remove_pairing in every way it can go -> (restart | restart without the
    cache | nothing) -> the same pairing data, or the accessory reset / paired again and NEW pairing data -> probes with every key that ever existed -> the new pairing negotiates
    its own key -> events and the probes again"""
    rng = ctx.rng
    out = []
    ways = [(m, None) for m in TOP_REMOVALS] + list(TOP_CANCELS)
    k = 0
    for mode, cancel in ways:
        for nxt in ("same", "factory", "repair"):
            k += 1
            if not ctx.thorough() and nxt != ("factory", "repair", "factory", "repair", "same")[(k // 3 + ctx.seed) % 5]:
                continue            # quick: one continuation per way of removing, a different one for every seed
            acc0 = (12, 60, 300, 5)[k % 4]
            own_key = k % 3 == 0            # the first pairing negotiates its own key instead of relying on the cache entry's
            entry = None if k % 9 == 0 else {"key": k % 3 != 0 or k % 2 == 0, "state": (acc0, acc0 - 3, None)[k % 5 % 3]}
            s = _TopScript(rng, acc0)
            first = (["adv"], ["load", "cur", "load_pairing"]) if k % 4 else (["load", "cur", "load_data"], ["adv"])
            s.add(*first)
            if own_key or entry is None or not entry["key"]:
                s.add(["sub", [11, 12]])
            s.event(2)
            if k % 5 == 0:
                s.add(["adv"])
            s.add(["remove", mode, cancel])
            between = k % 7
            if between == 1:
                s.add(["restart", "same", "stop"])
            elif between == 2:
                s.add(["restart", "same", "kill"])
            elif between == 3:
                s.add(["restart", "wiped", "stop"])
            elif between == 4:
                s.add(["remove", "ok", None])       # asked again: the alias is gone
            if nxt != "same":
                s.reset(nxt)
            if k % 2 or between in (1, 2, 3):
                s.add(["adv"])
            s.add(["load", "cur" if k % 11 else "prev", "load_pairing" if k % 3 else "load_data"])
            if k % 2 == 0 and between not in (1, 2, 3):
                s.add(["adv"])
            s.probes(2 if k % 4 == 0 else 1)
            s.add(["sub", [10, 13]])
            s.event(1)
            s.add(["adv"])
            s.event(1)
            s.probes(1, init=k % 3 == 0)
            out.append({"stream": "top", "lower": True, "acc0": acc0, "cache": {"kind": "file" if k % 2 else "memory", "entry": entry}, "events": s.evs,
                        "label": f"{mode}/{cancel}/{nxt}/between{between}"})
    return out


def gen_top_history(rng, long=False):
    acc0 = rng.choice([3, 12, 45, 99, 300, 40000, 65530])
    entry = rng.choice([None, {"key": True, "state": acc0}, {"key": True, "state": acc0}, {"key": True, "state": max(acc0 - 4, 0)}, {"key": False, "state": acc0}, {"key": True, "state": None}])
    s = _TopScript(rng, acc0)

    def removal():
        if rng.random() < 0.25:
            m, c = rng.choice(TOP_CANCELS)
            return ["remove", m, rng.choice([c, round(rng.uniform(0, 0.5), 3)])]
        return ["remove", rng.choice(TOP_REMOVALS) if rng.random() < 0.75 else "ok", None]

    def load():
        return ["load", "cur" if rng.random() < 0.9 else "prev", "load_pairing" if rng.random() < 0.8 else "load_data"]
    s.add(*rng.choice([(["adv"], load()), (load(), ["adv"]), (load(),), (["adv"], load(), ["sub", [11]])]))
    for _ in range(rng.randrange(4, 28 if long else 14)):
        r = rng.random()
        if r < 0.10:
            s.add(["adv"])
        elif r < 0.17:
            s.add(load())
        elif r < 0.25:
            s.add(["sub", rng.sample(sorted(FORMATS.values()), rng.randrange(1, 3))])
        elif r < 0.40:
            # a pairing ends and another one (or the same one) begins
            s.add(removal())
            if rng.random() < 0.3:
                s.add(["restart", rng.choice(["same", "same", "wiped"]), rng.choice(["stop", "kill"])])
            if rng.random() < 0.6:
                s.reset(rng.choice(["factory", "repair"]))
            if rng.random() < 0.7:
                s.add(["adv"])
            s.add(load())
            if rng.random() < 0.3:
                s.add(["adv"])
            s.probes(rng.randrange(1, 3))
        elif r < 0.44:
            s.reset(rng.choice(["factory", "repair"]))
        elif r < 0.49:
            s.add(["restart", rng.choice(["same", "same", "same", "wiped"]), rng.choice(["stop", "kill"])])
            s.add(*rng.choice([(load(),), (["adv"], load()), (load(), ["adv"])]))
        elif r < 0.66:
            s.event(rng.choice([1, 1, 2]))
        elif r < 0.74:
            s.add(["replay", rng.randrange(8)])
        elif r < 0.84:
            s.sealed(rng.choice(["acc", "acc", "init", ["old", 0], ["old", 0], ["old", 1], ["old", 2]]), rng.choice([1, 1, 2, 5, 50, 99, 0, -1, 100, 150]),
                     inner=rng.choice([None] * 6 + [1, -1]), unknown=rng.random() < 0.1)
        elif r < 0.90:
            what = rng.choice(["zero", "aad", "bitflip"])
            s.add(["forge", what, s.gsn + 1, FORMATS[rng.choice(ALL_FORMATS)]] + ([rng.randrange(16 * 8)] if what == "bitflip" else []))
        elif r < 0.94:
            s.add(["range", rng.random() < 0.5])
        else:
            s.add(removal())
    return {"stream": "top", "lower": rng.random() < 0.75, "acc0": acc0, "cache": {"kind": rng.choice(["memory", "file"]), "entry": entry}, "events": s.evs}


def top_stream(ctx):
    from harness.simnet import VLoop
    rng = ctx.rng
    directed = top_directed(ctx)
    # the same histories under an AccessoryPairingID that is not lower case (see ASSUMPTIONS)
    upper = [dict(c, lower=False, label=c["label"] + "/upper") for c in directed[ctx.seed % 5::5]]
    cases = directed + upper + [gen_top_history(rng, ctx.thorough()) for _ in range(ctx.budget(60, 800))]
    loop = VLoop()
    probes = {}
    try:
        for case in cases:
            try:
                viol, stats, obs = run_top_history(case, loop)
            except Exception as e:  # noqa: BLE001 - starting the controller over the cache ...: library code on valid input
                import traceback
                where = traceback.extract_tb(e.__traceback__)[-1]
                viol, stats, obs = [("notify/" + type(e).__name__, f"the top-level history could not be run: {type(e).__name__}: {e} (at {where.filename}:{where.lineno})", len(case["events"]))], {}, []
            ctx.evaluations += 1
            ctx.nontrivial.add(("top", hashlib.sha1(json.dumps(case, sort_keys=True).encode()).hexdigest()))
            ctx.dist["top"] += 1
            ctx.dist["top/id-" + ("lower" if case.get("lower", True) else "not-lower")] += 1
            for key, n in stats.items():
                ctx.dist["top/" + key] += n
            seen = set()
            for sig, what, idx in viol:
                if sig in seen:
                    continue
                seen.add(sig)
                # (histories under an id that is not lower case were probes until the defect they showed on the unchanged tree -
                # Controller.remove_pairing popped the id as given from tables keyed by the lower-case id - was repaired in /repo)
                ctx.violation(sig, what, dict(case, events=case["events"][:idx + 1]))
    finally:
        loop.close()
    ctx.sample({k: (v if len(str(v)) < 900 else str(v)[:900] + "...") for k, v in cases[3].items()})
    for sig, what in probes.items():
        ctx.notes.append(f"top (probe, AccessoryPairingID not lower case, not gated): {ctx.dist['top/probe/' + sig]} histories with {sig}, e.g. {what[:1500]}")
    if ctx.dist["top/load/inherits-entry-of-other-identity-never-removed"]:
        ctx.notes.append(f"top: {ctx.dist['top/load/inherits-entry-of-other-identity-never-removed']} pairings were loaded with new pairing data while the cache entry of the previous identity had never "
                         "been removed (no remove_pairing, cache kept): whatever they accept under the inherited key draws no verdict")


def run(ctx: Ctx, driver: Driver):
    rng = ctx.rng
    cases, outs, lines = [], [], []
    vcases, vouts, vlines = [], [], []
    fmt_of = {iid: f for f, iid in FORMATS.items()}

    nboot = [0]

    def history(start, hist, with_key=True, boot=None):
        """hist: list of symbolic advertisements: ('G', g, inner, iid, value) | ('K', g, iid) wrong key | ('O', g, iid) other adv id | ('B', g, iid, bit) bitflip | ('S', n) short payload |
        ('T', g, iid, k) genuine with the tag cut to k bytes.  boot: the start-up order that establishes `start` (None: the next one in turn)"""
        if boot is None:
            nboot[0] += 1
            opts = boots_for(start)
            boot = opts[nboot[0] % len(opts)]
        ctx.dist["notify/boot/" + boot] += 1
        case0 = {"stream": "notify", "start": start, "key": with_key, "boot": boot, "hist": [list(map(str, x)) for x in hist]}
        try:
            c, p, log = setup(start, with_key, boot)
        except Exception as e:  # noqa: BLE001 - library code on valid input
            ctx.evaluations += 1
            ctx.violation("notify/" + type(e).__name__, f"start-up order {boot} (state number {start}) raised {type(e).__name__}: {e}", case0)
            return
        toks, model_toks = [], []
        out = []
        raised = None
        cur = start         # the harness's own bookkeeping of the last accepted state number, whatever the start-up order
        lost = False
        for h in hist:
            n0 = len(log)
            before = p.description.state_num if p.description else None
            if h[0] == "G":
                _, g, inner, iid, value = h
                d, a = adv(seal(g, iid, value, inner=inner))
                model_toks.append(f"G:1:{g}:{(inner if inner is not None else g) & 0xFFFF}:{iid}:{hx(value.ljust(8, bytes(1)))}")
            elif h[0] == "K":
                d, a = adv(seal(h[1], h[2], b"\x01", k=bytes(32)))
                model_toks.append("F:1")
            elif h[0] == "O":
                d, a = adv(seal(h[1], h[2], b"\x01", aid=OTHER), aid=OTHER)
                model_toks.append(f"G:2:{h[1]}:{h[1]}:{h[2]}:{hx(b'\x01'.ljust(8, bytes(1)))}")
            elif h[0] == "T":
                # a genuine, fresh sealing whose authentication tag was cut short (h[3] of its 4 bytes kept): unauthenticated
                d, a = adv(seal(h[1], h[2], b"\x07")[:12 + h[3]])
                model_toks.append("F:1")
            elif h[0] == "B":
                x = bytearray(seal(h[1], h[2], b"\x07"))
                x[h[3] // 8 % len(x)] ^= 1 << (h[3] % 8)
                d, a = adv(bytes(x))
                model_toks.append("F:1")
            else:
                d, a = adv(bytes(rng.randrange(256) for _ in range(h[1])))
                model_toks.append("S:1" if h[1] < 6 else "F:1")
            try:
                c._device_detected(d, a)
            except Exception as e:  # noqa: BLE001
                raised = type(e).__name__
                break
            new = log[n0:]
            after = p.description.state_num if p.description else None
            # independent of the library's idea of the last number: what the start-up order established, then what was legitimately accepted
            if not lost:
                fresh = with_key and h[0] == "G" and cur < h[1] < cur + 100 and ((h[2] if h[2] is not None else h[1]) & 0xFFFF) == h[1]
                got = bool(new and isinstance(new[-1], dict))
                if got and not fresh:
                    ctx.violation("notify/accepted", f"start-up order {boot} established {start}, last accepted since: {cur}: advertisement {h[:4]} was delivered ({new[-1]}, library state {before}->{after})", dict(case0))
                    lost = True
                elif fresh and after == h[1]:
                    cur = h[1]
                elif after != before:
                    ctx.violation("notify/state-changed", f"start-up order {boot} established {start}, last accepted since: {cur}: advertisement {h[:4]}, not acceptable, moved the library's last state number {before}->{after}", dict(case0))
                    lost = True
            if before is None or after is None:
                break       # no description at all after this start-up (reported above): nothing the window model could be compared with
            if new and isinstance(new[-1], dict):
                (key, val), = new[-1].items()
                out.append(f"d:{key[1]}:{model_toks[-1].split(':')[5] if model_toks[-1].startswith('G') else '?'}")
                # oracle: authentic, fresh, right id, state advanced to it
                ok = h[0] == "G" and before < h[1] < before + 100 and ((h[2] if h[2] is not None else h[1]) & 0xFFFF) == h[1] and key == (1, h[3]) and after == h[1]
                if not ok:
                    ctx.violation("notify/accepted", f"start={start}: advertisement {h[:4]} was delivered (state {before}->{after}, key {key})", dict(case0))
                if h[0] != "G":
                    continue
                # value decoding: what listeners get is the value the accessory sealed, read with the characteristic's own width
                fmt = fmt_of[h[3]]
                want_v = reference_value(fmt, h[4])
                if want_v is not None and canon_value(fmt, val["value"]) != want_v:
                    ctx.violation("notify/wrong-value", f"format {fmt}: accessory sealed value bytes {hx(h[4])} (= {want_v}), listeners got {canon_value(fmt, val['value'])}", {"stream": "value", "fmt": fmt, "value": hx(h[4])})
                vcases.append({"stream": "value", "fmt": fmt, "value": hx(h[4])})
                vouts.append(canon_value(fmt, val["value"]))
                vlines.append(f"bc.val {fmt if fmt != 'data' else 'other'} {hx(h[4].ljust(8, bytes(1)))}")
            else:
                silent_ok = with_key and (h[0] == "G" and h[3] >= 900 and before < h[1] < before + 100 and ((h[2] if h[2] is not None else h[1]) & 0xFFFF) == h[1])
                if silent_ok:
                    # authentic and fresh, but for an instance id the cached database does not know: the state number must advance
                    # (otherwise an older genuine notification stays acceptable), nobody is called
                    if after != h[1]:
                        ctx.violation("notify/unknown-iid-not-accepted", f"start={start}: authentic fresh advertisement {h[:4]} for an unknown instance id left the state number at {after} - older notifications stay acceptable", dict(case0))
                    out.append("q")
                    continue
                if after != before:
                    ctx.violation("notify/state-changed", f"start={start}: rejected advertisement {h[:4]} changed the state number {before}->{after}", dict(case0))
                if h[0] == "O":
                    out.append("n")
                elif h[0] == "S" and h[1] < 6 and with_key:
                    out.append("x")  # ignored or fall-back depending on a tag-prefix coincidence; nothing delivered either way
                elif new == ["f"]:
                    out.append("f")
                else:
                    out.append("i")
        ctx.evaluations += 1
        case = case0
        if raised:
            ctx.violation("notify/" + raised, f"_device_detected raised {raised}", case)
            return
        if lost or not p.description:
            return      # reported with its input above
        cases.append(case)
        outs.append(" ".join(out) + f" | {p.description.state_num}")
        lines.append(f"bc.run 1 {start} {1 if with_key else 0} " + " ".join(model_toks))

    def alphabet(cur):
        """symbols relative to a notional current state (the history tracks it itself)"""
        return ["next", "plus5", "same", "older", "plus100", "plus99", "wrongkey", "otherid", "innerbad"]

    def realise(start, syms):
        cur = start
        hist = []
        for s in syms:
            iid = 11
            if s == "next":
                hist.append(("G", cur + 1, None, iid, bytes([cur % 251 + 1])))
                cur += 1
            elif s == "plus5":
                hist.append(("G", cur + 5, None, iid, b"\x05"))
                cur += 5
            elif s == "plus99":
                hist.append(("G", cur + 99, None, iid, b"\x63"))
                cur += 99
            elif s == "same":
                hist.append(("G", cur, None, iid, b"\x09"))
            elif s == "older":
                if cur >= 2:
                    hist.append(("G", cur - 2, None, iid, b"\x08"))
                else:
                    hist.append(("G", cur, None, iid, b"\x08"))
            elif s == "plus100":
                hist.append(("G", cur + 100, None, iid, b"\x64"))
            elif s == "wrongkey":
                hist.append(("K", cur + 1, iid))
            elif s == "otherid":
                hist.append(("O", cur + 1, iid))
            elif s == "innerbad":
                hist.append(("G", cur + 1, cur + 2, iid, b"\x0b"))
        return hist

    depth = ctx.budget(3, 4)
    syms = alphabet(0)
    for start in (10, 65400) if not ctx.thorough() else (0, 10, 65400):
        for d in range(1, (depth if start == 10 else depth - 1) + 1):
            for seq in itertools.product(syms, repeat=d):
                history(start, realise(start, seq))
                ctx.nontrivial.add((start, seq))
    # near the top of the 16-bit range: genuine advertisements with small absolute state numbers (recorded long ago) must stay stale
    iid0 = FORMATS[sorted(FORMATS)[0]]
    for start in (65436, 65500, 65534, 65535):
        for old_g in (1, 2, 3, 50, 63, 64, 99, 100, 129):
            history(start, [("G", min(start + 1, 65535), None, iid0, b"\x01"), ("G", old_g, None, iid0, b"\x02"), ("G", old_g, None, iid0, b"\x02")])
            ctx.nontrivial.add((start, "ancient", old_g))
    # a genuine fresh sealing whose tag was cut short authenticates nothing - then the complete one is accepted
    for start in (10, 65400):
        for keep in (0, 1, 2, 3):
            history(start, [("T", start + 1, iid0, keep), ("G", start + 1, None, iid0, b"\x07"), ("T", start + 2, iid0, keep)])
            ctx.nontrivial.add((start, "tag-cut", keep))
    # an authentic notification for an unknown instance id must still advance the state: an older genuine one is then stale
    for start in (10, 65400):
        for k in (2, 5, 50):
            history(start, [("G", start + k, None, 999, b"\x01"), ("G", start + 1, None, iid0, b"\x07"), ("G", start + k, None, 999, b"\x01"), ("G", start + k + 1, None, iid0, b"\x09")])
            ctx.nontrivial.add((start, "unknown-iid", k))
    # replays of accepted notifications after arbitrary other traffic, bit flips, short payloads, all formats/values
    for _ in range(ctx.budget(60, 3000)):
        start = rng.choice([0, 1, 7, 100, 65000, 65530, 65535, 70000])
        cur = start
        hist = []
        accepted = []
        for _ in range(rng.randrange(3, 50 if ctx.thorough() else 20)):
            r = rng.random()
            fmt = rng.choice(list(FORMATS))
            iid = FORMATS[fmt]
            value = rng.choice([b"\x00", b"\x01", b"\xff", b"\xff\xff", b"\x00\x01", bytes(8), b"\xff" * 8, bytes(rng.randrange(256) for _ in range(rng.randrange(1, 9))), b"abc", b"\x00\x00\x80\x3f"])
            if fmt == "string":
                value = rng.choice([b"abc", b"", b"on"])
            if rng.random() < 0.12:
                iid = rng.choice([999, 950])   # authentic, but not in the cached accessory database
            if fmt == "int" and rng.random() < 0.5:
                value = struct.pack("<i", rng.choice([-1, -2, -128, -2 ** 31, -rng.randrange(1, 2 ** 31)]))
            if r < 0.35:
                k = rng.choice([1, 1, 1, 2, 5, 50, 99])
                g = cur + k
                if g > 65535:
                    hist.append(("G", g, None, iid, value))  # the 16-bit inner counter cannot match a nonce counter above 65535: ignored
                    continue
                hist.append(("G", g, None, iid, value))
                accepted.append(hist[-1])
                cur = g
            elif r < 0.5 and accepted:
                hist.append(rng.choice(accepted))  # replay
            elif r < 0.6:
                hist.append(("B", cur + 1, iid, rng.randrange(16 * 8)))
            elif r < 0.65:
                hist.append(("S", rng.randrange(0, 12)))
            elif r < 0.72:
                hist.append(("G", cur + rng.choice([100, 101, 150, 1000]), None, iid, value))
            elif r < 0.75:
                # an ancient genuine advertisement (small absolute state number), e.g. recorded long ago and replayed now
                hist.append(("G", rng.randrange(1, 130), None, iid, value))
            elif r < 0.85:
                hist.append(("G", max(cur - rng.randrange(0, 5), 0), None, iid, value))
            elif r < 0.92:
                hist.append(("K", cur + 1, iid))
            else:
                hist.append(("O", cur + 1, iid))
        history(start, hist, with_key=rng.random() > 0.05)
        ctx.nontrivial.add((start, tuple(map(str, hist))))
    ctx.sample(cases[40])
    ctx.sample({k: (v if len(str(v)) < 500 else str(v)[:500] + "...") for k, v in cases[-1].items()})
    compare_with_model(ctx, "notify", cases, outs, lines, driver)
    compare_with_model(ctx, "value", vcases, vouts, vlines, driver)
    # histories that start with the application process: cache entry, scanner, load_pairing (again), restore, restart
    life_stream(ctx)
    # histories in which the accessory database of a pairing is replaced between notifications
    db_stream(ctx, driver)
    # histories through the top-level Controller: pairings are removed (in every way that can go), loaded again with the same or new pairing data, processes restart
    top_stream(ctx)


def replay(ctx, driver, c):
    if isinstance(c, dict) and c.get("stream") == "top":
        try:
            viol, _, _ = run_top_history(c)
        except Exception as e:  # noqa: BLE001 - as in top_stream
            viol = [("notify/" + type(e).__name__, f"the top-level history could not be run: {type(e).__name__}: {e}", 0)]
        return [{"signature": sig, "what": what} for sig, what, _ in viol] or None
    if isinstance(c, dict) and c.get("stream") == "dbhist":
        viol, _, _, _ = run_db_history(c)
        return [{"signature": sig, "what": what} for sig, what, _ in viol] or None
    if isinstance(c, dict) and c.get("stream") == "life":
        viol, _, _ = run_life_history(c)
        return [{"signature": sig, "what": what} for sig, what, _ in viol] or None
    return None
