"""C12 over CoAP: the record loop of `EventResource.render_put` against its Lean model (`HapVerif.CoapEvent`, theorems
C12_coap_event_records, C12_coap_event_truncated_header, C12_gen_coap_event_tie).

The real `EventResource.render_put` runs on decrypted payloads the harness builds (the connection object is a stand-in whose
`decrypt_event` hands the payload over as it is, whose database knows none of the characteristics - so the decoded value is the
value the accessory put into the record - and whose owner records every `event_received` call).  Record bodies are HAP value
TLVs (`01 <len> <value>`) or empty.  Streams: (a) notifications of 1..6 records with values of length 0..40 and EMPTY bodies at
every position - implementation-level oracle: every record is handed over exactly once, in order; (b) the same payloads cut
inside a record header (struct.error after the complete records before it) and the empty payload, for the correspondence."""
from __future__ import annotations

import asyncio
import itertools
import struct
from types import SimpleNamespace

from harness.common import Ctx, Driver, compare_with_model


def rec(iid, value):
    """value None = a record with an empty body"""
    body = b"" if value is None else bytes([1, len(value)]) + value
    return struct.pack("<BHH", 0, iid, len(body)) + body


def real(payload):
    from aiohomekit.controller.coap.connection import EventResource
    got = []
    conn = SimpleNamespace(enc_ctx=SimpleNamespace(decrypt_event=lambda p: p, event_ctr=0),
                           info=SimpleNamespace(find_characteristic_by_iid=lambda iid: None),
                           owner=SimpleNamespace(event_received=lambda ev: got.extend(ev.items())))
    res = EventResource(conn)
    loop = asyncio.new_event_loop()
    try:
        try:
            loop.run_until_complete(res.render_put(SimpleNamespace(payload=payload)))
            st = "ok"
        except struct.error:
            st = "struct-error"
    finally:
        loop.close()
    items = []
    for (aid, iid), v in got:
        items.append((iid, bytes(v["value"])))
    return items, st


def show(items, st):
    return (",".join(f"{iid}:{(bytes([1, len(v)]) + v).hex() if v is not None else '-'}" for iid, v in items) or "-") + " " + st


def canon(s):
    """an empty body and a body holding an empty value both hand over b'': compare them as equal"""
    return s.replace(":0100", ":-")


def run_coapevent(ctx: Ctx, driver: Driver):
    rng = ctx.rng
    cases, outs, lines = [], [], []

    def add(payload, sent, why):
        case = {"stream": "coap-event-loop", "payload": payload.hex(), "why": why}
        try:
            items, st = real(payload)
        except Exception as e:  # noqa: BLE001
            ctx.violation(f"coap-event-loop/{type(e).__name__}", f"render_put raised {type(e).__name__}: {e} on payload {payload.hex()}", case)
            return
        ctx.evaluations += 1
        ctx.dist["coap-event-loop:" + why] += 1
        if sent is not None:
            ctx.nontrivial.add(("coap-event-loop", payload.hex()))
            want = [(iid, v or b"") for iid, v in sent]
            if items != want or st != "ok":
                ctx.violation("coap/event-lost" if len(items) < len(want) else "coap/event-wrong",
                              f"notification of {len(sent)} record(s) {[(i, None if v is None else v.hex()) for i, v in sent]}: the owner was handed {[(i, v.hex()) for i, v in items]} ({st}); "
                              "every record must be handed over exactly once, in order", case)
        cases.append(case)
        outs.append(show([(iid, v) for iid, v in items], st))
        lines.append("ce.parse " + (payload.hex() or "-"))
    # (a) every pattern of empty / non-empty bodies up to 4 records, then random notifications
    pats = [p for n in range(1, 5) for p in itertools.product("ve", repeat=n)]
    sents = [[(10 + k, None if c == "e" else bytes(rng.randrange(256) for _ in range(rng.choice([0, 1, 2, 4, 8])))) for k, c in enumerate(p)] for p in pats]
    for _ in range(ctx.budget(200, 4000)):
        n = rng.randrange(1, 7)
        sents.append([(rng.choice([1, 2, 51, 255, 256, 65535, rng.randrange(65536)]), None if rng.random() < 0.3 else bytes(rng.randrange(256) for _ in range(rng.choice([0, 1, 3, 17, 40]))))
                      for _ in range(n)])
    for sent in sents:
        payload = b"".join(rec(i, v) for i, v in sent)
        add(payload, sent, "conformant")
        # (b) cut inside a header: after record k, 1..4 bytes of the next header (or of junk)
        if rng.random() < 0.4:
            k = rng.randrange(0, len(sent) + 1)
            prefix = b"".join(rec(i, v) for i, v in sent[:k])
            junk = (rec(7, b"x") if k == len(sent) else rec(*sent[k]))[:rng.randrange(1, 5)]
            add(prefix + junk, None, "cut-in-header")
    add(b"", None, "empty-payload")
    compare_with_model(ctx, "coap-event-loop", cases, outs, lines, driver, canon=canon)


def replay_coapevent(ctx: Ctx, driver: Driver, case):
    payload = bytes.fromhex(case["payload"])
    items, st = real(payload)
    compare_with_model(ctx, "coap-event-loop", [case], [show(items, st)], ["ce.parse " + (payload.hex() or "-")], driver, canon=canon)
    return None
