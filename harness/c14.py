"""C14 - values prepared for writing respect format, range and step."""
from __future__ import annotations

import math
from decimal import Decimal
from fractions import Fraction

from harness.common import Ctx, Driver, compare_with_model, hx, load_corpus

from aiohomekit.exceptions import FormatError
from aiohomekit.model import Accessory
from aiohomekit.model.characteristics import CharacteristicsTypes
from aiohomekit.model.characteristics.characteristic import check_convert_value
from aiohomekit.model.services import ServicesTypes

ID = "C14"
RULE = ("formats {bool,uint8,uint16,uint32,uint64,int,float} x (minValue,maxValue,minStep) incl. none/partial, minima down to -2^31, steps {1,2,3,5,7,10,0.1,0.5,0.01,0.25}, "
        "magnitudes up to 2^64-1, inputs as int/float/numeric string/garbage/None/nan/inf; boundary-exhaustive around every tie and range end of small grids; "
        "checked against exact rational arithmetic (fractions.Fraction) on the decimal reading of the inputs. non-trivial = distinct (format class, which of min/max/step set, input kind, outcome class)")
TRUSTED = ["decimal.Decimal constructor is exact; fractions.Fraction as the exact-arithmetic oracle"]
ASSUMPTIONS = ["integer formats: the default 28-digit context is exact on the domain of 64-bit formats (validated by the correspondence up to 2^64, not proved)",
               "float format: the result is compared as the nearest double of the model's rational",
               "tie direction for a value BELOW the offset (only possible when no minValue is declared and the value is negative) is away from zero; the property's 'ties upward' is checked for values at or above the declared minimum"]
EXPLANATION = "Lean theorems C14_* over the exact-rational model (grid membership, nearest with ties upward, range, integrality, the six-digit float path with its error bound); differential tie through Service.build_update / check_convert_value with exact rationals"

INT_RANGES = {"uint8": (0, 255), "uint16": (0, 65535), "uint32": (0, 2 ** 32 - 1), "uint64": (0, 2 ** 64 - 1), "int": (-2 ** 31, 2 ** 31 - 1)}


def fr(x):
    if x is None:
        return "-"
    f = Fraction(Decimal(x))
    return f"{f.numerator}/{f.denominator}"


def mkchar():
    a = Accessory.create_with_info(1, "n", "m", "mo", "sn", "1")
    s = a.add_service(ServicesTypes.LIGHTBULB)
    c = s.add_char(CharacteristicsTypes.BRIGHTNESS)
    return s, c


def exact(fmt, mn, mx, st, v):
    """exact-rational statement of the property: (clamped value, offset, step, candidates nearest grid points)"""
    q = Fraction(Decimal(v))
    if mn is not None:
        q = max(Fraction(Decimal(mn)), q)
    if mx is not None:
        q = min(Fraction(Decimal(mx)), q)
    return q


def run(ctx: Ctx, driver: Driver):
    rng = ctx.rng
    svc, c = mkchar()
    for cc in load_corpus(ID):
        replay(ctx, driver, cc)
    cases, outs, lines = [], [], []
    fcases, fouts, flines = [], [], []

    def one(fmt, mn, mx, st, v, kind):
        c.format = fmt
        c.minValue, c.maxValue, c.minStep = mn, mx, st
        ctx.evaluations += 1
        case = {"stream": "num", "format": fmt, "min": repr(mn), "max": repr(mx), "step": repr(st), "value": repr(v)}
        is_int = fmt != "float"
        use_build = (ctx.evaluations % 3 == 0)
        try:
            if use_build:
                r = svc.build_update({CharacteristicsTypes.BRIGHTNESS: v})[0][2]
            else:
                r = check_convert_value(v, c)
        except FormatError:
            out = "FormatError"
            r = None
        except Exception as e:  # noqa: BLE001
            ctx.violation("num/" + type(e).__name__, f"{fmt} min={mn} max={mx} step={st}: input {v!r} raised {type(e).__name__} (not the library's FormatError)", case)
            return
        # convertible?
        try:
            dv = Decimal(v)
            convertible = dv.is_finite()
        except Exception:  # noqa: BLE001
            convertible = False
        okind = "err" if r is None else "ok"
        ctx.nontrivial.add((fmt if fmt == "float" else "int", mn is not None, mx is not None, st is not None, kind, okind))
        if not convertible:
            if r is not None:
                ctx.violation("num/accepted-garbage", f"unconvertible input {v!r} returned {r!r}", case)
            ctx.dist["num:unconvertible"] += 1
            return
        if r is None:
            ctx.violation("num/rejected-valid", f"convertible input {v!r} raised FormatError", case)
            return
        # ---------------- property oracle in exact arithmetic
        q = exact(fmt, mn, mx, st, v)
        got = Fraction(r) if not isinstance(r, float) else Fraction(r)
        if is_int and not isinstance(r, int):
            ctx.violation("num/not-integer", f"integer format returned {r!r}", case)
        if not is_int and not isinstance(r, float):
            ctx.violation("num/not-float", f"float format returned {r!r}", case)
        if st:
            step = Fraction(Decimal(st))
            off = Fraction(Decimal(mn)) if mn is not None else Fraction(0)
            x = (q - off) / step
            lo = math.floor(x)
            cands = {off + lo * step, off + (lo + 1) * step}
            dist = {g: abs(g - q) for g in cands}
            best = min(dist.values())
            nearest = {g for g, d in dist.items() if d == best}
            if len(nearest) == 2 and q >= off:
                nearest = {max(nearest)}  # ties go upward
            integral = all(z.denominator == 1 for z in (q, off, step))
            if is_int and integral:
                if got not in nearest:
                    ctx.violation("num/int-not-nearest-grid", f"{fmt} min={mn} max={mx} step={st}: {v!r} -> {r!r}, nearest grid point(s) {sorted(nearest)}", case)
            elif not is_int:
                # six significant digits: a position within 6-digit resolution of a tie may go either way
                if abs(x - (lo + Fraction(1, 2))) <= max(abs(x), 1) * Fraction(1, 10 ** 5):
                    nearest = set(cands)
                tgt = max(nearest)
                scale = max(abs(tgt), abs(q), abs(off), abs(step), Fraction(1, 10 ** 30))
                if abs(got - tgt) > scale * Fraction(1, 10 ** 5) * 2 and abs(got - min(nearest)) > scale * Fraction(1, 10 ** 5) * 2:
                    ctx.violation("num/float-far-from-grid", f"float min={mn} max={mx} step={st}: {v!r} -> {r!r}, nearest grid point {float(tgt)}", case)
            # range: when both bounds are on the grid
            if mn is not None and mx is not None:
                on_grid = ((Fraction(Decimal(mx)) - off) / step).denominator == 1
                if on_grid and is_int and integral and not (Fraction(Decimal(mn)) <= got <= Fraction(Decimal(mx))):
                    ctx.violation("num/out-of-range", f"{fmt} [{mn},{mx}] step {st}: {v!r} -> {r!r} outside the range", case)
        else:
            if is_int:
                if abs(got - q) > Fraction(1, 2):
                    ctx.violation("num/int-far", f"{v!r} -> {r!r}", case)
            elif got != Fraction(float(q)):
                ctx.violation("num/float-changed", f"no step: {v!r} -> {r!r} but clamped value is {float(q)}", case)
        (cases if is_int else fcases).append(case)
        (outs if is_int else fouts).append(f"{got.numerator}/{got.denominator}")
        (lines if is_int else flines).append(f"cv.num {'int' if is_int else 'float'} {fr(mn)} {fr(mx)} {fr(st)} {fr(v)}")
        ctx.dist["num:" + ("int" if is_int else "float")] += 1

    # ---- boundary-exhaustive small grids: every tie and range end
    for fmt in ("uint8", "int", "float"):
        for mn, mx, st in [(0, 100, 1), (0, 100, 5), (10, 38, 0.5), (7, 35, 2), (-10, 10, 3), (0, 1, 0.1), (-100, 100, 10), (16, 31, 1), (0, 255, 1)]:
            if fmt != "float" and (isinstance(st, float) and st != 0.5):
                continue
            step = Fraction(Decimal(st))
            lo, hi = Fraction(mn) - 2 * step, Fraction(mx) + 2 * step
            k = 0
            x = lo
            while x <= hi and k < 400:
                for delta in (Fraction(0), step / 2, step / 2 - Fraction(1, 1000), step / 2 + Fraction(1, 1000), step / 4):
                    y = x + delta
                    v = int(y) if y.denominator == 1 else float(y)
                    one(fmt, mn, mx, st, v, "boundary")
                x += step
                k += 1
    # ---- the unchanged-tree findings and large magnitudes, exactness for integers
    for fmt, (a, b) in INT_RANGES.items():
        for st in (None, 1, 2, 5, 10, 3, 7):
            for v in (a, a + 1, b, b - 1, b - 7, 1234567, 12345678901, (a + b) // 2, (a + b) // 3, b + 5, a - 5, 2 ** 64 - 1, 2 ** 63 + 12345):
                one(fmt, a, b, st, v, "magnitude")
                one(fmt, None, b, st, v, "magnitude-nomin")
                one(fmt, a, None, st, v, "magnitude-nomax")
    # ---- random
    steps = [None, 1, 2, 5, 10, 0.1, 0.5, 0.01, 0.25, 3, 7, 0.3]
    for _ in range(ctx.budget(6000, 200000)):
        fmt = rng.choice(["uint8", "uint16", "uint32", "uint64", "int", "float", "float"])
        if fmt != "float":
            mn = rng.choice([None, 0, -100, -2 ** 31, 1, 16])
            mx = rng.choice([None, 100, 255, 65535, 2 ** 32 - 1, 2 ** 64 - 1])
            st = rng.choice([None, None, 1, 1, 2, 5, 10, 3, 7, 0.5])
            v = rng.choice([rng.randint(-10 ** 3, 10 ** 3), rng.randint(0, 2 ** 64), rng.randint(0, 10 ** 7), rng.uniform(-50, 300), str(rng.randint(0, 10 ** 6)),
                            rng.randint(-20, 20) + 0.5, rng.randint(0, 50) / 4, True, "  42 ", "1e3", "-7"])
        else:
            mn = rng.choice([None, 0, -100, 10, 7.2, -0.5, 0.1])
            mx = rng.choice([None, 100, 35, 38, 1000000.5, 359.9])
            st = rng.choice(steps)
            v = rng.choice([rng.uniform(-200, 200), round(rng.uniform(0, 40), 1), round(rng.uniform(0, 40), 2), rng.randint(-50, 400), rng.uniform(0, 1e7), "%.3f" % rng.uniform(0, 100),
                            rng.choice([27.25, 28.5, 0.05, 0.15, 2.5, -2.5, 0.5]), rng.uniform(0, 1e-4)])
        if mn is not None and mx is not None and mn > mx:
            continue
        one(fmt, mn, mx, st, v, type(v).__name__)
    # ---- garbage
    for v in ("abc", None, "nan", "NaN", "inf", "-Infinity", float("nan"), float("inf"), "", " ", "1,5", "0x10", [1], {"a": 1}, b"5", "１２", "1__0", object()):
        for fmt in ("uint8", "float", "int"):
            one(fmt, 0, 100, 1, v, "garbage")
            one(fmt, None, None, None, v, "garbage")
    ctx.sample(cases[11])
    ctx.sample(cases[-3])
    compare_with_model(ctx, "num-int", cases, outs, lines, driver)
    ctx.sample(fcases[5])
    compare_with_model(ctx, "num-float", fcases, fouts, flines, driver, canon=canon_float)
    bool_stream(ctx, driver, c)


def canon_float(s):
    """float format: the implementation returns float(val), i.e. the nearest double of the model's rational"""
    try:
        n, d = s.split("/")
        f = Fraction(float(Fraction(int(n), int(d))))
        return f"{f.numerator}/{f.denominator}"
    except Exception:  # noqa: BLE001
        return s


def bool_stream(ctx, driver, c):
    cases, outs, lines = [], [], []
    c.format = "bool"
    vals = [True, False, 1, 0, "true", "True", "TRUE", "yes", "no", "on", "off", "ON", "t", "f", "y", "n", "1", "0", "2", "", "maybe", None, 1.0, 0.0, "truee", " true", [], "Yes", "oFF"]
    for v in vals:
        ctx.evaluations += 1
        case = {"stream": "bool", "value": repr(v)}
        try:
            r = check_convert_value(v, c)
            out = str(r)
            if r not in (0, 1) or isinstance(r, bool):
                ctx.violation("bool/not-0-1", f"bool format returned {r!r} for {v!r}", case)
        except FormatError:
            out = "err"
        except Exception as e:  # noqa: BLE001
            ctx.violation("bool/" + type(e).__name__, f"bool input {v!r} raised {type(e).__name__}", case)
            continue
        ctx.nontrivial.add(("bool", out, type(v).__name__))
        cases.append(case)
        outs.append(out)
        lines.append("cv.bool " + (str(v).encode().hex() or "-"))
    compare_with_model(ctx, "bool", cases, outs, lines, driver)


def replay(ctx, driver, cc):
    svc, c = mkchar()
    if cc["stream"] != "num":
        return None
    ev = lambda s: eval(s, {"__builtins__": {}}, {"nan": float("nan"), "inf": float("inf")})  # noqa: E731,S307 - our own repr()s
    c.format = cc["format"]
    c.minValue, c.maxValue, c.minStep = ev(cc["min"]), ev(cc["max"]), ev(cc["step"])
    v = ev(cc["value"])
    try:
        r = check_convert_value(v, c)
    except FormatError:
        r = None
    except Exception as e:  # noqa: BLE001
        return f"raised {type(e).__name__}"
    if cc.get("want") is not None and r != ev(cc["want"]):
        return f"{v!r} -> {r!r}, expected {cc['want']}"
    return None
