"""C14 - values prepared for writing respect format, range and step."""
from __future__ import annotations

import asyncio
import base64
import binascii
import functools
import json
import math
import os
import pathlib
import random
import struct
import tempfile
import types
import uuid
from decimal import Decimal
from fractions import Fraction

from harness.common import Ctx, Driver, compare_with_model, hx, load_corpus

from aiohomekit.exceptions import FormatError
from aiohomekit.model import Accessory
from aiohomekit.model.characteristics import CharacteristicsTypes
from aiohomekit.model.characteristics.characteristic import check_convert_value
from aiohomekit.model.services import ServicesTypes

ID = "C14"
RULE = ("formats {bool,uint8,uint16,uint32,uint64,int,float} x (minValue,maxValue,minStep) incl. none/partial, minima down to -2^31, steps {1,2,3,5,7,10,0.1,0.5,0.01,0.25}, "
        "magnitudes up to 2^64-1, inputs as int/float/numeric string/garbage/None/nan/inf; boundary-exhaustive around every tie and range end of small grids; "
        "checked against exact rational arithmetic (fractions.Fraction) on the decimal reading of the inputs; "
        "the characteristic under test also varies (streams typed / typed-multi / fixture / required): standard types of the table with and without metadata defaults (declaration omitting "
        "format / minValue / maxValue / minStep), vendor UUIDs, Apple-base UUIDs the table does not know, short / padded / long / lower-case / undashed spellings, built through "
        "Accessory.create_from_dict, Accessories.from_list / from_file / serialize+from_list, Service.add_char kwargs, the Characteristic constructor, attributes assigned after construction "
        "(as the BLE transport does), add_service(add_required=True) and every characteristic of every fixture under tests/fixtures - crossed with every format (bool, integer formats, float, "
        "string, data, tlv8, none declared) and every input class (int, float, Decimal, numeric strings, bool, None, '', words, nan/inf, lists, dicts, tuples, bytes, complex, Fraction, objects; "
        "base64 / TLV8 well- and ill-formed text) through check_convert_value and single- and multi-item Service.build_update (each item against its own characteristic, addressed to it). "
        "stream wire / wire-multi: the declaration reaches the model over the wire - the harness is the accessory and encodes (format, unit, valid range, step) itself from the HAP-BLE "
        "specification (little-endian, unsigned for uint8..uint64, two's complement for int, IEEE-754 single for float) into a HAP-BLE characteristic signature served by a radio stand-in "
        "(a bleak backend under the real AIOHomeKitBleakClient; real BlePairing GATT database fetch) and into the attribute database of a HAP-over-CoAP accessory (real CoAPPairing."
        "list_accessories_and_characteristics, real pair-verify against the reference accessory, only aiocoap's Context replaced), each also after a restart from a real characteristic cache "
        "file; every wire format, ranges with negative minima down to -2^31, entirely below zero, in the upper half of the unsigned formats, range without step / step without range / neither, "
        "fractional steps, declarations that replace a non-zero table default by zero, inputs inside the declared range, on its ties and equal to the accessory's current value; "
        "the oracle's reference is the declaration the harness encoded, never what the library decoded. "
        "non-trivial = distinct (format class, which of min/max/step set, input kind, outcome class), for the typed and wire streams also (kind of type, construction path, entry point)")
TRUSTED = ["decimal.Decimal constructor is exact; fractions.Fraction as the exact-arithmetic oracle",
           "typed streams: the declared parameters of a characteristic are the harness's own bookkeeping - the declaration, else the default the table of standard types (read as data) gives for the type; "
           "base64 text validity as read by the stdlib's base64.decodebytes, TLV8 well-formedness by the harness's own item walk",
           "wire stream: the harness's own encoder of the HAP-BLE characteristic signature / CoAP attribute database (TLV8 items, GATT presentation format, valid range and step descriptors), "
           "the stdlib's struct for IEEE-754 singles, bleak's GATT table classes, harness/refacc.py as the pair-verify peer"]
ASSUMPTIONS = ["integer formats: the default 28-digit context is exact on the domain of 64-bit formats (validated by the correspondence up to 2^64, not proved)",
               "float format: the result is compared as the nearest double of the model's rational",
               "data / tlv8 / string / undeclared formats are outside the property's quantifier: for them only the last clause is checked (text that is not base64 / not well-formed TLV8 fails with FormatError, "
               "well-formed text is not rejected, nothing but FormatError is raised for str inputs); non-string inputs to data / tlv8 and format names the conversion does not know (the table's 'int32') are counted, not judged",
               "wire stream: a float range / step is an IEEE-754 single on the wire - the declared value is exactly that single (not the decimal the generator started from); a step of 0 and a "
               "valid range without a presentation format have no reading on the wire and are not generated; data and tlv8 share one wire format (only data is generated); the Identify and service "
               "signature types have a transport role of their own in the BLE code and are not used as the characteristic under test; the BLE signature reads precede pair-verify as in the library",
               "tie direction for a value BELOW the offset (only possible when no minValue is declared and the value is negative) is away from zero; the property's 'ties upward' is checked for values at or above the declared minimum"]
EXPLANATION = "Lean theorems C14_* over the exact-rational model (grid membership, nearest with ties upward, range, integrality, the six-digit float path with its error bound); differential tie through Service.build_update / check_convert_value with exact rationals"

INT_RANGES = {"uint8": (0, 255), "uint16": (0, 65535), "uint32": (0, 2 ** 32 - 1), "uint64": (0, 2 ** 64 - 1), "int": (-2 ** 31, 2 ** 31 - 1)}


def fr(x):
    if x is None:
        return "-"
    f = Fraction(Decimal(x))
    return f"{f.numerator}/{f.denominator}"


def mkchar():
    a = Accessory.create_with_info(1, "n", "m", "mo", "sn", "1")
    s = a.add_service(ServicesTypes.LIGHTBULB)
    c = s.add_char(CharacteristicsTypes.BRIGHTNESS)
    return s, c


def exact(fmt, mn, mx, st, v):
    """exact-rational statement of the property: (clamped value, offset, step, candidates nearest grid points)"""
    q = Fraction(Decimal(v))
    if mn is not None:
        q = max(Fraction(Decimal(mn)), q)
    if mx is not None:
        q = min(Fraction(Decimal(mx)), q)
    return q


_EVNS = {"nan": float("nan"), "inf": float("inf"), "Decimal": Decimal, "Fraction": Fraction, "object": object}


def enc(v):
    """replayable spelling of an input value (our own repr()s, read back by dec())"""
    if type(v) is object:
        return "object()"
    return repr(v)


def dec(s):
    return eval(s, {"__builtins__": {}}, _EVNS)  # noqa: S307 - our own repr()s


def judge_num(ctx, pre, case, fmt, mn, mx, st, v, kind, call, sink, model_ok=True, tag=()):
    """The property's oracle for one numeric preparation, in exact arithmetic.

    `call()` performs the preparation through some public entry point on some characteristic whose DECLARED format /
    minimum / maximum / step are (fmt, mn, mx, st) by the harness's own bookkeeping; violations are reported under
    `<pre>/...`; judged cases are appended to `sink` for the differential comparison with the Lean model."""
    is_int = fmt != "float"
    try:
        r = call()
    except FormatError:
        r = None
    except Exception as e:  # noqa: BLE001
        ctx.violation(pre + "/" + type(e).__name__, f"{fmt} min={mn} max={mx} step={st}: input {v!r} raised {type(e).__name__} (not the library's FormatError)", case)
        return
    # convertible?
    try:
        dv = Decimal(v)
        convertible = dv.is_finite()
    except Exception:  # noqa: BLE001
        convertible = False
    okind = "err" if r is None else "ok"
    ctx.nontrivial.add(tuple(tag) + (fmt if fmt == "float" else "int", mn is not None, mx is not None, st is not None, kind, okind))
    if not convertible:
        if r is not None:
            ctx.violation(pre + "/accepted-garbage", f"unconvertible input {v!r} returned {r!r}", case)
        ctx.dist[pre + ":unconvertible"] += 1
        return
    if r is None:
        ctx.violation(pre + "/rejected-valid", f"convertible input {v!r} raised FormatError", case)
        return
    # ---------------- property oracle in exact arithmetic
    if not isinstance(r, (int, float)):
        ctx.violation(pre + ("/not-integer" if is_int else "/not-float"), f"{fmt} format returned {r!r} ({type(r).__name__}) for {v!r}", case)
        return
    if isinstance(r, float) and not math.isfinite(r):
        ctx.violation(pre + "/not-finite", f"{fmt} format returned {r!r} for {v!r}", case)
        return
    q = exact(fmt, mn, mx, st, v)
    got = Fraction(r) if not isinstance(r, float) else Fraction(r)
    if is_int and not isinstance(r, int):
        ctx.violation(pre + "/not-integer", f"integer format returned {r!r}", case)
    if not is_int and not isinstance(r, float):
        ctx.violation(pre + "/not-float", f"float format returned {r!r}", case)
    if st:
        step = Fraction(Decimal(st))
        off = Fraction(Decimal(mn)) if mn is not None else Fraction(0)
        x = (q - off) / step
        lo = math.floor(x)
        cands = {off + lo * step, off + (lo + 1) * step}
        dist = {g: abs(g - q) for g in cands}
        best = min(dist.values())
        nearest = {g for g, d in dist.items() if d == best}
        if len(nearest) == 2 and q >= off:
            nearest = {max(nearest)}  # ties go upward
        integral = all(z.denominator == 1 for z in (q, off, step))
        if is_int and integral:
            if got not in nearest:
                ctx.violation(pre + "/int-not-nearest-grid", f"{fmt} min={mn} max={mx} step={st}: {v!r} -> {r!r}, nearest grid point(s) {sorted(nearest)}", case)
        elif not is_int:
            # six significant digits: a position within 6-digit resolution of a tie may go either way
            if abs(x - (lo + Fraction(1, 2))) <= max(abs(x), 1) * Fraction(1, 10 ** 5):
                nearest = set(cands)
            tgt = max(nearest)
            scale = max(abs(tgt), abs(q), abs(off), abs(step), Fraction(1, 10 ** 30))
            if abs(got - tgt) > scale * Fraction(1, 10 ** 5) * 2 and abs(got - min(nearest)) > scale * Fraction(1, 10 ** 5) * 2:
                ctx.violation(pre + "/float-far-from-grid", f"float min={mn} max={mx} step={st}: {v!r} -> {r!r}, nearest grid point {float(tgt)}", case)
        # range: when both bounds are on the grid
        if mn is not None and mx is not None:
            on_grid = ((Fraction(Decimal(mx)) - off) / step).denominator == 1
            if on_grid and is_int and integral and not (Fraction(Decimal(mn)) <= got <= Fraction(Decimal(mx))):
                ctx.violation(pre + "/out-of-range", f"{fmt} [{mn},{mx}] step {st}: {v!r} -> {r!r} outside the range", case)
    else:
        if is_int:
            if abs(got - q) > Fraction(1, 2):
                ctx.violation(pre + "/int-far", f"{v!r} -> {r!r}", case)
        elif got != Fraction(float(q)):
            ctx.violation(pre + "/float-changed", f"no step: {v!r} -> {r!r} but clamped value is {float(q)}", case)
    if model_ok:
        cs, os_, ls = sink["int" if is_int else "float"]
        cs.append(case)
        os_.append(f"{got.numerator}/{got.denominator}")
        ls.append(f"cv.num {'int' if is_int else 'float'} {fr(mn)} {fr(mx)} {fr(st)} {fr(v)}")
    ctx.dist[pre + ":" + ("int" if is_int else "float")] += 1


def run(ctx: Ctx, driver: Driver):
    rng = ctx.rng
    svc, c = mkchar()
    for cc in load_corpus(ID):
        ctx.evaluations += 1
        why = replay(ctx, driver, cc)
        if why:
            ctx.violation("corpus/regression", f"recorded case fails again: {why}", cc)
    cases, outs, lines = [], [], []
    fcases, fouts, flines = [], [], []

    sink = {"int": (cases, outs, lines), "float": (fcases, fouts, flines)}

    def one(fmt, mn, mx, st, v, kind):
        c.format = fmt
        c.minValue, c.maxValue, c.minStep = mn, mx, st
        ctx.evaluations += 1
        case = {"stream": "num", "format": fmt, "min": repr(mn), "max": repr(mx), "step": repr(st), "value": enc(v)}
        use_build = (ctx.evaluations % 3 == 0)
        if use_build:
            call = lambda: svc.build_update({CharacteristicsTypes.BRIGHTNESS: v})[0][2]  # noqa: E731
        else:
            call = lambda: check_convert_value(v, c)  # noqa: E731
        judge_num(ctx, "num", case, fmt, mn, mx, st, v, kind, call, sink)

    # ---- boundary-exhaustive small grids: every tie and range end
    for fmt in ("uint8", "int", "float"):
        for mn, mx, st in [(0, 100, 1), (0, 100, 5), (10, 38, 0.5), (7, 35, 2), (-10, 10, 3), (0, 1, 0.1), (-100, 100, 10), (16, 31, 1), (0, 255, 1)]:
            if fmt != "float" and (isinstance(st, float) and st != 0.5):
                continue
            step = Fraction(Decimal(st))
            lo, hi = Fraction(mn) - 2 * step, Fraction(mx) + 2 * step
            k = 0
            x = lo
            while x <= hi and k < 400:
                for delta in (Fraction(0), step / 2, step / 2 - Fraction(1, 1000), step / 2 + Fraction(1, 1000), step / 4):
                    y = x + delta
                    v = int(y) if y.denominator == 1 else float(y)
                    one(fmt, mn, mx, st, v, "boundary")
                x += step
                k += 1
    # ---- the unchanged-tree findings and large magnitudes, exactness for integers
    for fmt, (a, b) in INT_RANGES.items():
        for st in (None, 1, 2, 5, 10, 3, 7):
            for v in (a, a + 1, b, b - 1, b - 7, 1234567, 12345678901, (a + b) // 2, (a + b) // 3, b + 5, a - 5, 2 ** 64 - 1, 2 ** 63 + 12345):
                one(fmt, a, b, st, v, "magnitude")
                one(fmt, None, b, st, v, "magnitude-nomin")
                one(fmt, a, None, st, v, "magnitude-nomax")
    # ---- random
    steps = [None, 1, 2, 5, 10, 0.1, 0.5, 0.01, 0.25, 3, 7, 0.3]
    for _ in range(ctx.budget(6000, 200000)):
        fmt = rng.choice(["uint8", "uint16", "uint32", "uint64", "int", "float", "float"])
        if fmt != "float":
            mn = rng.choice([None, 0, -100, -2 ** 31, 1, 16])
            mx = rng.choice([None, 100, 255, 65535, 2 ** 32 - 1, 2 ** 64 - 1])
            st = rng.choice([None, None, 1, 1, 2, 5, 10, 3, 7, 0.5])
            v = rng.choice([rng.randint(-10 ** 3, 10 ** 3), rng.randint(0, 2 ** 64), rng.randint(0, 10 ** 7), rng.uniform(-50, 300), str(rng.randint(0, 10 ** 6)),
                            rng.randint(-20, 20) + 0.5, rng.randint(0, 50) / 4, True, "  42 ", "1e3", "-7"])
        else:
            mn = rng.choice([None, 0, -100, 10, 7.2, -0.5, 0.1])
            mx = rng.choice([None, 100, 35, 38, 1000000.5, 359.9])
            st = rng.choice(steps)
            v = rng.choice([rng.uniform(-200, 200), round(rng.uniform(0, 40), 1), round(rng.uniform(0, 40), 2), rng.randint(-50, 400), rng.uniform(0, 1e7), "%.3f" % rng.uniform(0, 100),
                            rng.choice([27.25, 28.5, 0.05, 0.15, 2.5, -2.5, 0.5]), rng.uniform(0, 1e-4)])
        if mn is not None and mx is not None and mn > mx:
            continue
        one(fmt, mn, mx, st, v, type(v).__name__)
    # ---- garbage
    for v in ("abc", None, "nan", "NaN", "inf", "-Infinity", float("nan"), float("inf"), "", " ", "1,5", "0x10", [1], {"a": 1}, b"5", "１２", "1__0", object()):
        for fmt in ("uint8", "float", "int"):
            one(fmt, 0, 100, 1, v, "garbage")
            one(fmt, None, None, None, v, "garbage")
    ctx.sample(cases[11])
    ctx.sample(cases[-3])
    compare_with_model(ctx, "num-int", cases, outs, lines, driver)
    ctx.sample(fcases[5])
    compare_with_model(ctx, "num-float", fcases, fouts, flines, driver, canon=canon_float)
    bool_stream(ctx, driver, c)
    kinds_stream(ctx, driver)
    wire_stream(ctx, driver)
    # the BLE signature-metadata route against its Lean model (theorems C14_ble_*)
    from harness.c14_blemeta import run_blemeta
    run_blemeta(ctx, driver)


def canon_float(s):
    """float format: the implementation returns float(val), i.e. the nearest double of the model's rational"""
    try:
        n, d = s.split("/")
        f = Fraction(float(Fraction(int(n), int(d))))
        return f"{f.numerator}/{f.denominator}"
    except Exception:  # noqa: BLE001
        return s


def bool_stream(ctx, driver, c):
    cases, outs, lines = [], [], []
    c.format = "bool"
    vals = [True, False, 1, 0, "true", "True", "TRUE", "yes", "no", "on", "off", "ON", "t", "f", "y", "n", "1", "0", "2", "", "maybe", None, 1.0, 0.0, "truee", " true", [], "Yes", "oFF"]
    for v in vals:
        ctx.evaluations += 1
        case = {"stream": "bool", "value": repr(v)}
        try:
            r = check_convert_value(v, c)
            out = str(r)
            if r not in (0, 1) or isinstance(r, bool):
                ctx.violation("bool/not-0-1", f"bool format returned {r!r} for {v!r}", case)
        except FormatError:
            out = "err"
        except Exception as e:  # noqa: BLE001
            ctx.violation("bool/" + type(e).__name__, f"bool input {v!r} raised {type(e).__name__}", case)
            continue
        ctx.nontrivial.add(("bool", out, type(v).__name__))
        cases.append(case)
        outs.append(out)
        lines.append("cv.bool " + (str(v).encode().hex() or "-"))
    compare_with_model(ctx, "bool", cases, outs, lines, driver)


# ======================================================================================================================
# characteristics of every kind, built through the public paths (streams typed / typed-multi / fixture / required)
# ======================================================================================================================
# The conversion is a function of (characteristic, input).  The streams above vary the input and the declared
# (format, minValue, maxValue, minStep) on ONE standard characteristic; here the characteristic itself varies: standard
# types from the library's table (with and without metadata defaults that apply when the accessory's declaration omits
# them), vendor specific UUIDs, Apple-base UUIDs the table does not know, in every spelling the library accepts - built
# through every public construction path - crossed with every input class and every format.  The DECLARED parameters
# the oracle uses are the harness's own bookkeeping: what the declaration says, else the table's default for the type.

OMIT = "omit"  # in a spec: the key is absent from the accessory's declaration
BASE_UUID = "-0000-1000-8000-0026BB765291"
INT_FORMATS = ("uint8", "uint16", "uint32", "uint64", "int")
NUM_FORMATS = INT_FORMATS + ("float",)
ALL_FORMATS = ("bool",) + NUM_FORMATS + ("string", "data", "tlv8")
PATHS = ("from_dict", "from_list", "from_file", "reserialised", "add_char", "ctor", "ble_assign")
CATS = ("std-meta", "std", "vendor", "apple-unknown")
PERMS = (["pr", "pw"], ["pr", "pw", "ev"], ["pw"], ["pr", "pw", "ev", "hd"], ["pr"], [])
VENDOR_TYPES = ("E863F12B-079E-48FF-8F27-9C2605A29F52", "E863F10D-079E-48FF-8F27-9C2605A29F52", "B7DDB9A3-54BB-4572-91D2-F1F5B0510F8C",
                "E4489BBC-5227-4569-93E5-B345E3E5508F", "1B300BC2-CFFC-47FF-89F9-BD6CCF5F2853", "4AAAF93A-0DEC-11E5-B939-0800200C9A66",
                "A8F798E0-4A40-11E6-BDF4-0800200C9A66", "34AB8811-AC7F-4340-BAC3-FD6A85F9943B")
VENDOR_SERVICES = ("E863F007-079E-48FF-8F27-9C2605A29F52", "9715BF53-AB63-4449-8DC7-2785D617390A")

NUM_GARBAGE = ("abc", None, "nan", "NaN", "inf", "-Infinity", "Infinity", float("nan"), float("inf"), float("-inf"), Decimal("NaN"), Decimal("sNaN"),
               Decimal("-Infinity"), "", " ", "1,5", "12,5", "0x10", [1], [], {"a": 1}, {}, b"5", b"", "1__0", "1 2", "--1", "1e", "e5", (1, 2), 1j,
               Fraction(1, 2), "maybe", "true", "12abc", "١٢", object())
BOOL_VALUES = (True, False, 1, 0, "true", "True", "TRUE", "yes", "no", "on", "off", "ON", "t", "f", "y", "n", "1", "0", Decimal(1), Decimal(0), "Yes", "oFF",
               "2", "", "maybe", None, 1.0, 0.0, "truee", " true", "yes ", [], {}, 2, -1, b"1", "nan", float("nan"), "0x1", Decimal("1.0"), "abc", [1], object())
PASS_VALUES = ("abc", "", "name", 5, 1.5, None, True, [1], {"a": 1})


def _std_table():
    """the library's table of standard characteristic types, read as DATA (declared defaults per type) by the harness's own lookup"""
    from aiohomekit.model.characteristics.data import characteristics as table

    return table


def _svc_table():
    from aiohomekit.model.services.data import services as table

    return table


def canon_uuid(t):
    """the harness's own reading of a type spelling: short ids are Apple-base UUIDs, 32 hex digits are an undashed UUID"""
    t = t.upper()
    if len(t) <= 8:
        return t.rjust(8, "0") + BASE_UUID
    if len(t) == 32 and "-" not in t:
        return f"{t[:8]}-{t[8:12]}-{t[12:16]}-{t[16:20]}-{t[20:]}"
    return t


def spell(rng, canon):
    """one of the spellings of a type that the library accepts"""
    opts = [canon, canon, canon.lower()]
    if canon.endswith(BASE_UUID):
        short = canon[:8]
        opts += [short, short.lower(), short.lstrip("0") or "0", (short.lstrip("0") or "0").lower()]
    else:
        opts += [canon.replace("-", ""), canon.replace("-", "").lower()]
    return rng.choice(opts)


def pick_type(rng, cat, taken=()):
    table = _std_table()
    for _ in range(200):
        if cat == "std-meta":
            canon = rng.choice(sorted(t for t in table if any(k in table[t] for k in ("min_value", "max_value", "min_step"))))
        elif cat == "std":
            canon = rng.choice(sorted(table))
        elif cat == "vendor":
            if rng.random() < 0.5:
                canon = rng.choice(VENDOR_TYPES)
            else:
                canon = "%08X-%04X-%04X-%04X-%012X" % (rng.getrandbits(32), rng.getrandbits(16), rng.getrandbits(16), rng.getrandbits(16), rng.getrandbits(48))
        else:
            canon = "%08X" % rng.choice([rng.randrange(1, 0x1000), rng.randrange(0x1000, 0x100000), rng.getrandbits(32)]) + BASE_UUID
        if canon in taken:
            continue
        if cat in ("vendor", "apple-unknown") and canon in table:
            continue
        return canon
    raise RuntimeError("no type left")


def declared(ch):
    """(format, minValue, maxValue, minStep) the characteristic declares: the declaration, else the table default of its type"""
    tab = _std_table().get(canon_uuid(ch["type"]), {})
    return tuple(tab.get(tk) if ch[k] == OMIT else ch[k] for k, tk in (("fmt", "format"), ("min", "min_value"), ("max", "max_value"), ("step", "min_step")))


def _den_ok(x):
    return x is None or Fraction(Decimal(x)).denominator <= 2


def gen_char(rng, cat, fmt, iid, path, taken=(), params=None):
    canon = pick_type(rng, cat, taken)
    ch = {"type": spell(rng, canon), "iid": iid, "perms": list(rng.choice(PERMS)), "fmt": fmt, "cat": cat, "min": OMIT, "max": OMIT, "step": OMIT}
    eff = declared(ch)[0]
    if eff in NUM_FORMATS:
        for _ in range(20):
            if params is not None:
                ch["min"], ch["max"], ch["step"] = params
            elif eff != "float":
                ch["min"] = rng.choice([OMIT, OMIT, None, 0, -100, -2 ** 31, 1, 16])
                ch["max"] = rng.choice([OMIT, OMIT, None, 100, 255, 65535, 2 ** 32 - 1, 2 ** 64 - 1])
                ch["step"] = rng.choice([OMIT, OMIT, None, None, 1, 1, 2, 5, 10, 3, 7, 0.5, 0])
            else:
                ch["min"] = rng.choice([OMIT, OMIT, None, 0, -100, 10, 7.2, -0.5, 0.1])
                ch["max"] = rng.choice([OMIT, OMIT, None, 100, 35, 38, 1000000.5, 359.9])
                ch["step"] = rng.choice([OMIT, OMIT, OMIT, None, 1, 2, 5, 10, 0.1, 0.5, 0.01, 0.25, 3, 7, 0.3, 0, 0.0])
            if path == "reserialised":
                # "declares none" cannot be written down in the serialised form: absent there means the type's default
                for k in ("min", "max", "step"):
                    if ch[k] is None:
                        ch[k] = OMIT
            _, mn, mx, _ = declared(ch)
            if mn is None or mx is None or mn <= mx:
                break
            params = None
        else:
            ch["min"], ch["max"], ch["step"] = 0, 100, 1
    elif eff == "bool" and rng.random() < 0.4:
        ch["min"], ch["max"], ch["step"] = 0, 1, 1  # real accessories declare these on bool characteristics
    if rng.random() < 0.3:
        ch["description"] = "d%d" % iid
    if rng.random() < 0.2:
        ch["unit"] = rng.choice(["celsius", "percentage", "arcdegrees", "lux", "seconds"])
    return ch


def acc_dict(spec):
    """the accessory's declaration as an entity-map dict (what an accessory sends / what is stored)"""
    chars = []
    for ch in spec["chars"]:
        d = {"type": ch["type"], "iid": ch["iid"], "perms": list(ch["perms"])}
        if ch["fmt"] != OMIT:
            d["format"] = ch["fmt"]
        for k, dk in (("min", "minValue"), ("max", "maxValue"), ("step", "minStep"), ("description", "description"), ("unit", "unit")):
            if ch.get(k, OMIT) != OMIT:
                d[dk] = ch[k]
        chars.append(d)
    return {"aid": spec["aid"], "services": [
        {"iid": 1, "type": "3E", "characteristics": [{"type": "23", "iid": 2, "perms": ["pr"], "format": "string", "value": "acc"}]},
        {"iid": spec["siid"], "type": spec["stype"], "characteristics": chars}]}


def build(spec):
    """-> (service, [characteristic per spec char]) through the construction path the spec names"""
    from aiohomekit.model import Accessories
    from aiohomekit.model.characteristics import Characteristic

    path = spec["path"]
    if path in WIRE_PATHS:
        return build_wire(spec)
    if path in ("from_dict", "from_list", "from_file", "reserialised"):
        d = acc_dict(spec)
        if path == "from_dict":
            acc = Accessory.create_from_dict(d)
        elif path == "from_list":
            acc = Accessories.from_list([d]).aid(spec["aid"])
        elif path == "reserialised":
            acc = Accessories.from_list(Accessories.from_list([d]).serialize()).aid(spec["aid"])
        else:
            fd, fn = tempfile.mkstemp(suffix=".json", prefix="c14_")
            try:
                with os.fdopen(fd, "w") as f:
                    json.dump([d], f)
                acc = Accessories.from_file(fn).aid(spec["aid"])
            finally:
                os.unlink(fn)
        svc = acc.services.iid(spec["siid"])
        return svc, [svc.get_char_by_iid(ch["iid"]) for ch in spec["chars"]]
    acc = Accessory(spec["aid"])
    svc = acc.add_service(spec["stype"], iid=spec["siid"])
    chars = []
    for ch in spec["chars"]:
        if path == "ble_assign":
            # the way the BLE transport fills the model: construct by type, then assign what the signature read returned
            hc = svc.add_char(ch["type"], iid=ch["iid"])
            hc.perms = list(ch["perms"])
            for k, attr in (("fmt", "format"), ("step", "minStep"), ("min", "minValue"), ("max", "maxValue")):
                if ch[k] != OMIT:
                    setattr(hc, attr, ch[k])
        else:
            kw = {"iid": ch["iid"], "perms": list(ch["perms"])}
            for k, kk in (("fmt", "format"), ("min", "min_value"), ("max", "max_value"), ("step", "min_step"), ("description", "description"), ("unit", "unit")):
                if ch.get(k, OMIT) != OMIT:
                    kw[kk] = ch[k]
            hc = svc.add_char(ch["type"], **kw) if path == "add_char" else Characteristic(svc, ch["type"], **kw)
        chars.append(hc)
    return svc, chars


# ======================================================================================================================
# the declaration reaches the model over the wire (streams wire / wire-multi)
# ======================================================================================================================
# Besides the JSON dictionary of an IP accessory, the library learns (format, minValue, maxValue, minStep) of a
# characteristic from a HAP-BLE characteristic signature (BlePairing._async_fetch_gatt_database, decoded by
# controller/ble/structs.py) and from the attribute database of a HAP-over-CoAP (Thread) accessory
# (CoAPPairing.list_accessories_and_characteristics, decoded by controller/coap/structs.py), and it writes what it learnt
# to the characteristic cache and reads it back after a restart.  Here the HARNESS is the accessory: it encodes its
# declaration itself from the HAP-BLE specification (GATT presentation format descriptor: format byte, exponent, unit;
# valid range descriptor: lower and upper end, little-endian, in the characteristic's own format - unsigned for
# uint8..uint64, two's complement for int, IEEE-754 single for float; step value descriptor likewise) and serves it
# through a stand-in for the radio (a bleak backend under the real AIOHomeKitBleakClient) / the UDP socket (aiocoap's
# Context under the real CoAPPairing, pair-verify answered by the reference accessory).  The reference of the oracle is
# the declaration the harness ENCODED, never what the library decoded.
WIRE_PATHS = ("ble_gatt", "ble_gatt_cached", "coap_db", "coap_db_cached")
WIRE_FORMATS = ("bool",) + NUM_FORMATS + ("string", "data")
WIRE_FMT = {"bool": 0x01, "uint8": 0x04, "uint16": 0x06, "uint32": 0x08, "uint64": 0x0A, "int": 0x10, "float": 0x14, "string": 0x19, "data": 0x1B}
WIRE_UNIT = {"celsius": 0x272F, "arcdegrees": 0x2763, "percentage": 0x27AD, "lux": 0x2731, "seconds": 0x2703}
WIRE_INT = {"uint8": (1, False), "uint16": (2, False), "uint32": (4, False), "uint64": (8, False), "int": (4, True)}
WIRE_PERM = {"pr": 0x0010, "pw": 0x0020, "ev": 0x0080, "aa": 0x0004, "tw": 0x0008, "hd": 0x0040}
HAP_SVC_INSTANCE_ID = "E604E95D-A759-4817-87D3-AA005083A0D1"   # HAP-BLE: the service instance id characteristic of every service
HAP_CHAR_IID_DESCRIPTOR = "DC46F0FE-81D2-4616-B5D9-6ABDD796939A"  # HAP-BLE: the characteristic instance id descriptor
SVC_SIGNATURE_TYPE = "000000A5" + BASE_UUID
# types with a transport role of their own: Identify (the BLE code presents it as bool whatever the signature says, a documented
# workaround) and the service signature characteristic (answers service signature reads)
WIRE_EXCLUDED = ("00000014" + BASE_UUID, SVC_SIGNATURE_TYPE)


def f32(x):
    """the IEEE-754 single nearest to x, as the double that holds it exactly (what a float range / step is on the wire)"""
    return struct.unpack("<f", struct.pack("<f", x))[0]


def t8(tag, val):
    """one TLV8 item, values longer than 255 bytes continued in items of the same tag"""
    val = bytes(val)
    if not val:
        return bytes([tag, 0])
    return b"".join(bytes([tag, len(val[o:o + 255])]) + val[o:o + 255] for o in range(0, len(val), 255))


def wire_num(fmt, x):
    """a value of the characteristic's format as the valid range / step descriptors carry it"""
    if fmt == "float":
        return struct.pack("<f", x)
    n, signed = WIRE_INT[fmt]
    return int(x).to_bytes(n, "little", signed=signed)


def wire_type(canon, full):
    """a type on the wire: the 128-bit UUID little-endian, or (CoAP, Apple-defined types) just the bytes of the short form"""
    if canon.endswith(BASE_UUID) and not full:
        n = int(canon[:8], 16)
        return n.to_bytes(max(1, (n.bit_length() + 7) // 8), "little")
    return uuid.UUID(canon).bytes[::-1]


def wire_char(ch, transport, siid=None, stype=None):
    """the TLV8 description of one characteristic: a HAP-BLE signature read response body / one entry of the CoAP database"""
    canon = canon_uuid(ch["type"])
    body = t8(0x04, wire_type(canon, transport == "ble" or ch.get("full_type", False))) + t8(0x05, struct.pack("<H", ch["iid"]))
    if transport == "ble":
        body += t8(0x07, struct.pack("<H", siid)) + t8(0x06, wire_type(canon_uuid(stype), True))
    body += t8(0x0A, struct.pack("<H", sum(WIRE_PERM[p] for p in ch["perms"])))
    if "description" in ch:
        body += t8(0x0B, ch["description"].encode())
    fmt = ch["fmt"]
    if fmt != OMIT:
        body += t8(0x0C, struct.pack("<BbHBH", WIRE_FMT[fmt], 0, WIRE_UNIT.get(ch.get("unit"), 0x2700), 1, 0))
        if ch["min"] != OMIT:
            body += t8(0x0D, wire_num(fmt, ch["min"]) + wire_num(fmt, ch["max"]))
        if ch["step"] != OMIT:
            body += t8(0x0E, wire_num(fmt, ch["step"]))
    return body


def wire_value(ch):
    """the accessory's current value of the characteristic, as a read returns it"""
    fmt = ch["fmt"]
    if fmt == OMIT:
        return b""
    if fmt in NUM_FORMATS:
        return wire_num(fmt, ch.get("cur", 0))
    return {"bool": b"\x01", "string": b"acc", "data": b"\x01\x02"}[fmt]


NAME_CHAR = {"type": "23", "perms": ["pr"], "fmt": "string", "min": OMIT, "max": OMIT, "step": OMIT}


def _run_async(main):
    """run one coroutine to completion on a loop of its own; whatever it left scheduled is cancelled"""
    loop = asyncio.new_event_loop()
    try:
        return loop.run_until_complete(main(loop))
    finally:
        try:
            left = [t for t in asyncio.all_tasks(loop) if not t.done()]
            for t in left:
                t.cancel()
            if left:
                loop.run_until_complete(asyncio.gather(*left, return_exceptions=True))
        finally:
            loop.close()


def _cache_file():
    fd, fn = tempfile.mkstemp(suffix=".json", prefix="c14_cache_")
    os.close(fd)
    os.unlink(fn)
    return pathlib.Path(fn)


def _controller(cache):
    from unittest import mock

    ctrl = mock.MagicMock()
    ctrl._char_cache = cache
    return ctrl


@functools.lru_cache(maxsize=1)
def _ble_kit():
    """the radio: a bleak backend that serves a GATT table and answers HAP-BLE signature reads (nothing of aiohomekit in it)"""
    import bleak  # noqa: F401 - before aiohomekit's BLE modules
    from bleak.backends.characteristic import BleakGATTCharacteristic
    from bleak.backends.client import BaseBleakClient
    from bleak.backends.descriptor import BleakGATTDescriptor
    from bleak.backends.service import BleakGATTService, BleakGATTServiceCollection

    class Radio(BaseBleakClient):
        def __init__(self, address, **kw):
            super().__init__(address, **kw)
            self.acc = kw["acc"]
            self.up = False

        mtu_size = 185
        name = "acc"

        @property
        def is_connected(self):
            return self.up

        async def connect(self, pair, **kw):
            self.up = True
            self.services = self.acc.table()

        async def disconnect(self):
            self.up = False

        async def pair(self, *a, **k):
            pass

        async def unpair(self):
            pass

        async def read_gatt_char(self, characteristic, **kw):
            return bytearray(self.acc.read(characteristic.handle))

        async def read_gatt_descriptor(self, descriptor, **kw):
            return bytearray(self.acc.descs[descriptor.handle])

        async def write_gatt_char(self, characteristic, data, response):
            self.acc.write(characteristic.handle, bytes(data))

        async def write_gatt_descriptor(self, descriptor, data):
            pass

        async def start_notify(self, *a, **k):
            pass

        async def stop_notify(self, *a, **k):
            pass

    class BleAccessory:
        """GATT table of one HAP service: service instance id characteristic, optionally the service signature characteristic,
        the characteristics of the spec with their instance id descriptors; HAP PDUs: characteristic / service signature read"""

        def __init__(self, spec):
            self.spec = spec
            self.plain, self.descs, self.sigs, self.asked = {}, {}, {}, {}

        def table(self):
            spec = self.spec
            col = BleakGATTServiceCollection()
            h = 1
            svc = BleakGATTService(None, h, canon_uuid(spec["stype"]).lower())
            col.add_service(svc)
            h += 1
            col.add_characteristic(BleakGATTCharacteristic(None, h, HAP_SVC_INSTANCE_ID.lower(), ["read"], lambda: 20, svc))
            self.plain[h] = struct.pack("<H", spec["siid"])
            chars = list(spec["chars"])
            if spec.get("svc_sig"):
                chars.append({"type": SVC_SIGNATURE_TYPE, "iid": spec["siid"] + 44, "perms": ["pr"], "fmt": "data", "min": OMIT, "max": OMIT, "step": OMIT})
            for ch in chars:
                h += 1
                gc = BleakGATTCharacteristic(None, h, canon_uuid(ch["type"]).lower(), ["read", "write"], lambda: 20, svc)
                col.add_characteristic(gc)
                self.sigs[h] = (ch["iid"], wire_char(ch, "ble", spec["siid"], spec["stype"]))
                h += 1
                col.add_descriptor(BleakGATTDescriptor(None, h, HAP_CHAR_IID_DESCRIPTOR.lower(), gc))
                self.descs[h] = struct.pack("<H", ch["iid"])
            return col

        def write(self, h, data):
            _control, opcode, tid, iid = struct.unpack("<BBBH", data[:5])
            self.asked[h] = (opcode, tid, iid)

        def read(self, h):
            if h in self.plain:
                return self.plain[h]
            opcode, tid, iid = self.asked.pop(h)
            own_iid, sig = self.sigs[h]
            if opcode == 0x06 and iid == self.spec["siid"]:
                sig = t8(0x0F, struct.pack("<H", 0x0001)) + t8(0x10, b"")  # service signature: primary service, no linked services
            elif opcode != 0x01 or iid != own_iid:
                return struct.pack("<BBB", 0x02, tid, 0x06)
            return struct.pack("<BBBH", 0x02, tid, 0, len(sig)) + sig

    return types.SimpleNamespace(Radio=Radio, BleAccessory=BleAccessory)


def build_ble(spec, cached):
    """real BlePairing + real AIOHomeKitBleakClient over the radio stand-in: the GATT database fetch builds the model; `cached`:
    the model is written to a real characteristic cache file the way the pairing does after the fetch, and a new pairing
    (a restart) loads it"""
    kit = _ble_kit()
    from aiohomekit.characteristic_cache import CharacteristicCacheFile
    from aiohomekit.controller.ble.bleak import AIOHomeKitBleakClient
    from aiohomekit.controller.ble.pairing import BlePairing
    from aiohomekit.model import AccessoriesState

    pd = {"AccessoryAddress": "AA:BB:CC:DD:EE:FF", "AccessoryPairingID": "aa:bb:cc:dd:ee:ff", "Connection": "BLE"}
    fn = _cache_file()

    async def main(loop):
        pairing = BlePairing(_controller(CharacteristicCacheFile(fn)), pd)
        client = AIOHomeKitBleakClient(pd["AccessoryAddress"], backend=kit.Radio, acc=kit.BleAccessory(spec))
        await client.connect()
        pairing.client = client
        accessories = await pairing._async_fetch_gatt_database()
        if not cached:
            return accessories
        pairing._accessories_state = AccessoriesState(accessories, 1, None)
        pairing._update_accessories_state_cache()
        return BlePairing(_controller(CharacteristicCacheFile(fn)), pd).accessories
    try:
        return _run_async(main)
    finally:
        if fn.exists():
            fn.unlink()


def coap_database(spec):
    """the attribute database of the accessory as the TLV8 body of the CoAP database read: accessory information with a name, and
    the service of the spec (every service holds a readable characteristic, as real ones do)"""
    def svc(stype, siid, chars):
        entries = [t8(0x13, wire_char(c, "coap")) for c in chars]
        return t8(0x15, t8(0x07, struct.pack("<H", siid)) + t8(0x06, wire_type(canon_uuid(stype), False)) + t8(0x10, b"") + t8(0x14, b"\x00\x00".join(entries)))
    info = svc("3E", 1, [dict(NAME_CHAR, iid=2)])
    own = svc(spec["stype"], spec["siid"], list(spec["chars"]) + [dict(NAME_CHAR, iid=spec["siid"] + 45)])
    return t8(0x18, t8(0x19, t8(0x1A, struct.pack("<H", spec["aid"])) + t8(0x16, info + b"\x00\x00" + own)))


def build_coap(spec, cached):
    """real CoAPPairing / CoAPHomeKitConnection / EncryptionContext; only aiocoap's Context is replaced.  Pair-verify is answered
    by the reference accessory, the database read by coap_database(spec), value reads by the accessory's current values.
    `cached`: a new pairing (a restart) loads what the first one wrote to a real characteristic cache file"""
    from unittest import mock

    from cryptography.hazmat.primitives.ciphers.aead import ChaCha20Poly1305
    from harness import refacc

    from aiohomekit.characteristic_cache import CharacteristicCacheFile
    from aiohomekit.controller.coap import connection as coapc
    from aiohomekit.controller.coap.pairing import CoAPPairing

    rnd = random.Random(spec["siid"])

    def rb(n):
        return bytes(rnd.randrange(256) for _ in range(n))
    ident = refacc.Identity(rb)
    database = coap_database(spec)
    values = {ch["iid"]: wire_value(ch) for ch in spec["chars"]}
    values[2] = values[spec["siid"] + 45] = b"acc"
    st = {"verify": None, "keys": None, "rx": 0, "tx": 0}

    def nonce(c):
        return struct.pack("=4xQ", c)

    def pair_verify(payload):
        d = refacc.untlv(payload)
        if d.get(6) == b"\x01":
            st["verify"] = refacc.VerifyAccessory(ident, rb(32))
            return refacc.tlv(st["verify"].m2(d[3]))
        va, st["verify"] = st["verify"], None
        if va is None or not va.check_m3(list(d.items())):
            return refacc.tlv([(6, b"\x04"), (7, b"\x02")])
        st["keys"], st["rx"], st["tx"] = va.keys(), 0, 0
        return refacc.tlv([(6, b"\x04")])

    def secure(payload):
        c2a, a2c, _evt = st["keys"]
        plain = ChaCha20Poly1305(c2a).decrypt(nonce(st["rx"]), payload, b"")
        st["rx"] += 1
        out, off = b"", 0
        while off + 7 <= len(plain):
            _control, opcode, tid, iid, ln = struct.unpack("<BBBHH", plain[off:off + 7])
            off += 7 + ln
            status, body = 0, b""
            if opcode == 0x09:
                body = database
            elif opcode == 0x03 and iid in values:
                body = t8(0x01, values[iid]) if values[iid] else b""
            else:
                status = 4
            out += struct.pack("<BBBH", 0x02, tid, status, len(body)) + body
        enc = ChaCha20Poly1305(a2c).encrypt(nonce(st["tx"]), out, b"")
        st["tx"] += 1
        return enc

    fn = _cache_file()

    async def main(loop):
        class Socket:
            def request(self, msg):
                fut = loop.create_future()
                handler = pair_verify if "/".join(msg.opt.uri_path) == "2" else secure
                fut.set_result(coapc.Message(code=coapc.Code.CHANGED, payload=handler(bytes(msg.payload))))
                return types.SimpleNamespace(response=fut)

            async def shutdown(self):
                pass

        class FakeContext:
            @staticmethod
            async def create_server_context(site, bind=None):
                return Socket()

            @staticmethod
            async def create_client_context():
                return Socket()

        pd = ident.pairing_data(hosts=("fd00::1",), port=5683, connection="CoAP")
        with mock.patch.object(coapc, "Context", FakeContext):
            pairing = CoAPPairing(_controller(CharacteristicCacheFile(fn)), pd)
            await pairing.list_accessories_and_characteristics()
            if not cached:
                return pairing.accessories
            return CoAPPairing(_controller(CharacteristicCacheFile(fn)), pd).accessories
    try:
        return _run_async(main)
    finally:
        if fn.exists():
            fn.unlink()


def build_wire(spec):
    path = spec["path"]
    accs = (build_ble if path.startswith("ble") else build_coap)(spec, path.endswith("_cached"))
    if accs is None:
        raise LookupError("the pairing holds no accessories after the database was fetched")
    svc = accs.aid(spec["aid"]).services.iid(spec["siid"])
    if svc is None:
        raise LookupError(f"service iid={spec['siid']} sent by the accessory is missing from the model")
    chars = [svc.get_char_by_iid(ch["iid"]) for ch in spec["chars"]]
    for ch, hc in zip(spec["chars"], chars):
        if hc is None:
            raise LookupError(f"characteristic iid={ch['iid']} type {ch['type']} sent by the accessory is missing from the model")
    return svc, chars


# deterministic part of the wire stream: per format the valid ranges / steps every run declares (negative minima down to -2^31,
# upper halves of the unsigned formats, ranges entirely below zero, range without step, step without range, fractional steps)
WIRE_GRID = {
    "uint8": [(0, 255, 1), (0, 100, 5), (16, 31, OMIT), (128, 255, 7), (OMIT, OMIT, 2), (0, 255, 128)],
    "uint16": [(0, 65535, 1), (100, 50000, 100), (32768, 65535, 3), (0, 65535, 32768)],
    "uint32": [(0, 2 ** 32 - 1, 1), (2 ** 31, 2 ** 32 - 1, 2 ** 16), (0, 2 ** 31, 7)],
    "uint64": [(0, 2 ** 64 - 1, 1), (2 ** 63, 2 ** 64 - 1, 10), (0, 2 ** 63 + 12345, 3)],
    "int": [(-2 ** 31, 2 ** 31 - 1, 5), (-90, 90, 1), (-100, -10, 3), (-2 ** 31, 2 ** 31 - 1, OMIT), (-2 ** 31 + 1, -1, 7), (0, 100, 1), (-32768, 32767, 10),
            (OMIT, OMIT, 10), (-1, 2 ** 31 - 1, 2)],
    "float": [(-100, 100, 0.1), (-0.5, 359.9, 0.5), (7.2, 38, 0.01), (-273.15, 1000000.5, 0.25), (-90, 90, OMIT), (0, 1, 0.3), (-1000000.0, -10.5, 1), (OMIT, OMIT, 0.5)],
}


def wire_range(rng, fmt):
    """a (min, max, step) declaration that the wire can carry: the valid range has both ends or is absent, every number is a value of the format"""
    if fmt == "float":
        for _ in range(50):
            lo = rng.choice([-100, -0.5, 0, 7.2, 10, 0.1, -90, -273.15, -1e6, -40, -2.5e9, round(rng.uniform(-500, 500), 2)])
            hi = rng.choice([100, 35, 38, 1000000.5, 359.9, 1, 0, 65535, -0.25, 2.5e9, round(rng.uniform(-500, 500), 2)])
            if lo <= hi:
                break
        else:
            lo, hi = 0, 100
        st = rng.choice([OMIT, OMIT, 1, 2, 5, 10, 0.1, 0.5, 0.01, 0.25, 3, 7, 0.3])
        conv = f32
    else:
        a, b = INT_RANGES[fmt]
        for _ in range(50):
            lo = rng.choice([a, a, a + 1, 0, 1, 16, -1, -90, -100, -128, -32768, -65536, -2 ** 24, -10 ** 9, a // 2, b // 2 + 1, rng.randint(a, b)])
            hi = rng.choice([b, b, b - 1, 100, 255, 90, 65535, 2 ** 31 - 1, 2 ** 32 - 1, 0, -1, -50, 10 ** 9, 2 ** 63, b // 2, rng.randint(a, b)])
            if a <= lo <= hi <= b:
                break
        else:
            lo, hi = a, b
        st = rng.choice([OMIT, OMIT, 1, 1, 2, 3, 5, 7, 10, 100, 2 ** 16, 2 ** 31 - 1, b // 2 + 1])
        if st != OMIT and st > b:
            st = 1
        conv = int
    if rng.random() < 0.15:
        lo = hi = OMIT
    return tuple(x if x == OMIT else conv(x) for x in (lo, hi, st))


def gen_wire_char(rng, cat, fmt, iid, path, taken, params=None, canon=None):
    canon = canon or pick_type(rng, cat, taken)
    ch = {"type": spell(rng, canon), "iid": iid, "perms": list(rng.choice(PERMS)), "fmt": fmt, "cat": cat, "min": OMIT, "max": OMIT, "step": OMIT}
    if fmt in NUM_FORMATS:
        # (without a presentation format the valid range and step descriptors have no reading: they go with a declared format only)
        mn, mx, st = params if params is not None else wire_range(rng, fmt)
        conv = f32 if fmt == "float" else int
        ch["min"], ch["max"], ch["step"] = (x if x == OMIT else conv(x) for x in (mn, mx, st))
        a, b = (ch["min"], ch["max"]) if ch["min"] != OMIT else (INT_RANGES.get(fmt, (-1000, 1000)))
        ch["cur"] = conv(min(max(rng.choice([0, 1, 21, 50, 100, -5, 20.5 if fmt == "float" else 20]), a), b))
    if path.startswith("coap"):
        ch["full_type"] = rng.random() < 0.3
    if rng.random() < 0.3:
        ch["description"] = "d%d" % iid
    if rng.random() < 0.3:
        ch["unit"] = rng.choice(sorted(WIRE_UNIT))
    return ch


def gen_wire_spec(rng, path, cats, fmts, params=None, canon=None):
    siid = rng.randint(8, 60)
    stype = rng.choice(["43", "4A", "0000004A", "00000049-0000-1000-8000-0026BB765291", "b7", "8c", rng.choice(VENDOR_SERVICES), rng.choice(VENDOR_SERVICES).lower()])
    spec = {"path": path, "aid": 1 if path.startswith("ble") else rng.choice([1, 1, 1, 2, 7, 99]), "siid": siid, "stype": stype, "chars": []}
    if path.startswith("ble"):
        spec["svc_sig"] = rng.random() < 0.4
    taken = {"00000023" + BASE_UUID, *WIRE_EXCLUDED}
    for i, (cat, fmt) in enumerate(zip(cats, fmts)):
        ch = gen_wire_char(rng, cat, fmt, siid + 1 + i, path, taken, params, canon)
        taken.add(canon_uuid(ch["type"]))
        spec["chars"].append(ch)
    return spec


def override_cases():
    """standard types whose table entry has a non-zero default minimum / maximum, with a wire declaration whose corresponding end is 0
    (and a step other than the table's): what the accessory declares replaces the default of the type, also when it is zero"""
    out = []
    table = _std_table()
    for canon in sorted(table):
        e = table[canon]
        fmt = e.get("format")
        if canon in WIRE_EXCLUDED or not (fmt in WIRE_INT or fmt == "float"):
            continue
        a, b = INT_RANGES.get(fmt, (-10 ** 6, 10 ** 6))
        tmin, tmax, tstep = e.get("min_value"), e.get("max_value"), e.get("min_step")
        step = OMIT if not tstep else (tstep * 2 if tstep * 2 <= b else tstep)
        if tmin:
            out.append((canon, fmt, (0, tmax if tmax is not None and 0 <= tmax <= b else 100, step)))
        if tmax:
            out.append((canon, fmt, (max(a, min(tmin if tmin is not None else 0, -100)), 0, step) if a < 0 else (0, 0, OMIT)))
    return out


def wire_inputs(rng, ch, decl):
    """inputs beyond those of values_for: inside the declared range wherever it lies, ties of the declared grid far from its origin,
    and the value the accessory currently reports in several spellings"""
    fmt, mn, mx, st = decl
    out = []
    if fmt not in NUM_FORMATS:
        return out
    if mn is not None and mx is not None and mn <= mx:
        if fmt == "float":
            out += [rng.uniform(mn, mx), round(rng.uniform(mn, mx), 2), str(round(rng.uniform(mn, mx), 1))]
        else:
            a, b = math.ceil(mn), math.floor(mx)
            if a <= b:
                out += [rng.randint(a, b), rng.randint(a, b) + 0.5, str(rng.randint(a, b))]
        if st:
            off, step, top = Fraction(Decimal(mn)), Fraction(Decimal(st)), Fraction(Decimal(mx))
            k = rng.randint(0, max(0, math.floor((top - off) / step)))
            for y in (off + k * step, off + k * step + step / 2, off + k * step + step / 2 - Fraction(1, 1000)):
                out.append(int(y) if y.denominator == 1 else float(y))
    if "cur" in ch:
        cur = ch["cur"]
        out += [cur, float(cur), str(cur)]
    return [(v, "wire-" + type(v).__name__) for v in out]


def wire_stream(ctx, driver):
    rng = ctx.rng
    sinks = Sinks()
    try:
        _ble_kit()
        ble_ok = True
    except Exception as e:  # noqa: BLE001
        ble_ok = False
        ctx.notes.append(f"wire stream: bleak is not importable here ({type(e).__name__}: {e}); the BLE routes were not run")
    paths = [p for p in WIRE_PATHS if ble_ok or not p.startswith("ble")]
    # ---- deterministic in its coverage: route x format x the ranges of WIRE_GRID, and the formats without range
    k = 0
    for path in paths:
        for fmt in WIRE_FORMATS + (OMIT,):
            for params in WIRE_GRID.get(fmt, [None]):
                k += 1
                spec = gen_wire_spec(rng, path, [CATS[k % len(CATS)]], [fmt], params)
                exercise(ctx, rng, spec, sinks, 4, 3)
    ctx.dist["wire:grid-accessories"] = k
    # ---- ... and declarations that replace a non-zero default of a standard type by zero
    cases = override_cases()
    for path in paths:
        for canon, fmt, params in (cases if ctx.thorough() else rng.sample(cases, min(len(cases), 6))):
            spec = gen_wire_spec(rng, path, ["std-meta"], [fmt], params, canon)
            exercise(ctx, rng, spec, sinks, 3, 1)
            ctx.dist["wire:default-replaced-accessories"] += 1
    # ---- random accessories: 1..3 characteristics in one service, random ranges of the format, multi-item updates
    for _ in range(ctx.budget(260, 6000)):
        n = rng.choice([1, 2, 2, 3])
        cats = [rng.choice(CATS) for _ in range(n)]
        fmts = [rng.choice(WIRE_FORMATS + NUM_FORMATS + ("int", "int", "float", OMIT)) for _ in range(n)]
        spec = gen_wire_spec(rng, rng.choice(paths), cats, fmts)
        exercise(ctx, rng, spec, sinks, 4, 3)
    if sinks.num["int"][0]:
        ctx.sample(sinks.num["int"][0][len(sinks.num["int"][0]) // 3])
    sinks.compare(ctx, driver, "wire")


def ref_text_valid(fmt, v):
    """reference for data / tlv8 inputs given as str: base64 text (the stdlib's reading), tlv8 also a well-formed TLV8 item sequence"""
    try:
        raw = base64.decodebytes(v.encode())
    except binascii.Error:
        return False
    if fmt == "tlv8":
        i = 0
        while i < len(raw):
            if i + 2 > len(raw) or i + 2 + raw[i + 1] > len(raw):
                return False
            i += 2 + raw[i + 1]
    return True


def text_values(rng):
    """inputs for data / tlv8: base64 of arbitrary bytes, of well-formed and of malformed TLV8, broken base64, and non-strings"""
    out = ["", "AQ==", "AQEB", "a", "abc", "YWJ", "AQ=", "A", "AQ", "=", "!!!!", "AQEB\n", " AQEB ", "AQID", "/w==", "AQ==AQ=="]
    for _ in range(4):
        items = b"".join(bytes([rng.randrange(256), n]) + bytes(rng.randrange(256) for _ in range(n)) for n in [rng.choice([0, 1, 2, 5])] * rng.randint(0, 3))
        out.append(base64.b64encode(items).decode())
        out.append(base64.b64encode(items + bytes([rng.randrange(256)])).decode())          # lone trailing type byte
        out.append(base64.b64encode(items + bytes([1, rng.randint(2, 9), 7])).decode())     # value shorter than its declared length
        out.append(base64.b64encode(bytes(rng.randrange(256) for _ in range(rng.randint(0, 12)))).decode())
        out.append(base64.b64encode(items).decode().rstrip("=")[:-1])
    return out + [None, 5, 1.5, b"AQ==", [], {}]


def num_values(rng, fmt, mn, mx, st, n):
    """inputs for a numeric format: the classes of the `num` stream plus Decimal inputs and the neighbourhood of the declared range ends / ties"""
    out = []
    for _ in range(n):
        if fmt != "float":
            v = rng.choice([rng.randint(-10 ** 3, 10 ** 3), rng.randint(0, 2 ** 64), rng.randint(0, 10 ** 7), rng.uniform(-50, 300), str(rng.randint(0, 10 ** 6)),
                            rng.randint(-20, 20) + 0.5, rng.randint(0, 50) / 4, True, False, "  42 ", "1e3", "-7", "+5", "5.", ".5",
                            Decimal(rng.randint(-500, 70000)), Decimal(str(round(rng.uniform(-50, 300), 2))), Decimal("1E+2")])
        else:
            v = rng.choice([rng.uniform(-200, 200), round(rng.uniform(0, 40), 1), round(rng.uniform(0, 40), 2), rng.randint(-50, 400), rng.uniform(0, 1e7), "%.3f" % rng.uniform(0, 100),
                            rng.choice([27.25, 28.5, 0.05, 0.15, 2.5, -2.5, 0.5]), rng.uniform(0, 1e-4), True, " 42 ", "1e3", "-7.25", ".5",
                            Decimal(str(round(rng.uniform(0, 400), 3))), Decimal(rng.randint(-50, 400))])
        out.append(v)
    # the neighbourhood of the declared range ends and of a tie of the declared grid
    near = []
    for b in (mn, mx):
        if b is not None:
            near += [Fraction(Decimal(b)) + d for d in (0, -1, 1)]
    if st:
        off = Fraction(Decimal(mn)) if mn is not None else Fraction(0)
        step = Fraction(Decimal(st))
        k = rng.randint(0, 40)
        near += [off + k * step, off + k * step + step / 2, off + k * step + step / 2 - Fraction(1, 1000), off + k * step + step / 4]
    if near:
        for y in rng.sample(near, min(len(near), max(2, n // 2))):
            out.append(int(y) if y.denominator == 1 else float(y))
    return out


def judge_bool(ctx, pre, case, v, call, bsink, tag=()):
    try:
        r = call()
        out = str(r)
        if r not in (0, 1) or isinstance(r, bool):
            ctx.violation(pre + "/bool-not-0-1", f"bool format returned {r!r} for {v!r}", case)
    except FormatError:
        out = "err"
    except Exception as e:  # noqa: BLE001
        ctx.violation(pre + "/" + type(e).__name__, f"bool input {v!r} raised {type(e).__name__} (not the library's FormatError)", case)
        return
    ctx.nontrivial.add(tuple(tag) + ("bool", out, type(v).__name__))
    ctx.dist[pre + ":bool"] += 1
    cs, os_, ls = bsink
    cs.append(case)
    os_.append(out)
    ls.append("cv.bool " + (str(v).encode().hex() or "-"))


def judge_text(ctx, pre, case, fmt, v, call, tag=()):
    try:
        call()
        out = "ok"
    except FormatError:
        out = "err"
    except Exception as e:  # noqa: BLE001
        if not isinstance(v, str):
            # a non-string for a base64 format: outside the declared parameter type and outside the property's formats - observed, not judged
            ctx.dist[f"{pre}:{fmt}-nonstr:{type(e).__name__}"] += 1
            return
        ctx.violation(pre + "/" + type(e).__name__, f"{fmt} input {v!r} raised {type(e).__name__} (not the library's FormatError)", case)
        return
    if not isinstance(v, str):
        ctx.dist[f"{pre}:{fmt}-nonstr:{out}"] += 1
        return
    valid = ref_text_valid(fmt, v)
    ctx.nontrivial.add(tuple(tag) + (fmt, valid, out))
    ctx.dist[f"{pre}:{fmt}:{out}"] += 1
    if valid and out == "err":
        ctx.violation(pre + "/rejected-valid", f"{fmt}: well-formed input {v!r} raised FormatError", case)
    if not valid and out == "ok":
        ctx.violation(pre + "/accepted-garbage", f"{fmt}: input {v!r} is not base64 text" + (" of a well-formed TLV8" if fmt == "tlv8" else "") + " but was accepted", case)


def judge_pass(ctx, pre, case, fmt, v, call, tag=()):
    """formats the conversion does not touch (string, none declared, names it does not know): nothing but the library's FormatError may come out"""
    try:
        call()
        out = "ok"
    except FormatError:
        out = "err"
    except Exception as e:  # noqa: BLE001
        ctx.violation(pre + "/" + type(e).__name__, f"format {fmt!r}: input {v!r} raised {type(e).__name__} (not the library's FormatError)", case)
        return
    ctx.nontrivial.add(tuple(tag) + (str(fmt), out))
    ctx.dist[f"{pre}:untouched-format:{fmt}"] += 1


class Sinks:
    def __init__(self):
        self.num = {"int": ([], [], []), "float": ([], [], [])}
        self.bool = ([], [], [])

    def compare(self, ctx, driver, name):
        compare_with_model(ctx, name + "-int", *self.num["int"], driver)
        compare_with_model(ctx, name + "-float", *self.num["float"], driver, canon=canon_float)
        compare_with_model(ctx, name + "-bool", *self.bool, driver)


def judge_any(ctx, pre, case, decl, v, kind, call, sinks, tag=()):
    """route one preparation to the oracle of the declared format"""
    fmt, mn, mx, st = decl
    ctx.evaluations += 1
    if fmt in NUM_FORMATS:
        if mn is not None and mx is not None and mn > mx:
            ctx.dist[pre + ":empty-range-skipped"] += 1
            return
        model_ok = fmt == "float" or all(_den_ok(x) for x in (mn, mx, st))
        judge_num(ctx, pre, case, fmt, mn, mx, st, v, kind, call, sinks.num, model_ok=model_ok, tag=tag)
    elif fmt == "bool":
        judge_bool(ctx, pre, case, v, call, sinks.bool, tag)
    elif fmt in ("data", "tlv8"):
        judge_text(ctx, pre, case, fmt, v, call, tag)
    else:
        judge_pass(ctx, pre, case, fmt, v, call, tag)


def values_for(rng, decl, n_good, n_bad):
    """(value, kind) inputs for a characteristic declaring `decl`: every class of input, the error classes sampled `n_bad` at a time (None = all)"""
    fmt, mn, mx, st = decl
    if fmt in NUM_FORMATS:
        bad = list(NUM_GARBAGE) if n_bad is None else rng.sample(NUM_GARBAGE, n_bad)
        return [(v, type(v).__name__) for v in num_values(rng, fmt, mn, mx, st, n_good)] + [(v, "garbage") for v in bad]
    if fmt == "bool":
        vals = list(BOOL_VALUES) if n_bad is None else rng.sample(BOOL_VALUES, min(len(BOOL_VALUES), n_good + n_bad))
        return [(v, type(v).__name__) for v in vals]
    if fmt in ("data", "tlv8"):
        vals = text_values(rng)
        if n_bad is not None:
            vals = rng.sample(vals, min(len(vals), n_good + n_bad))
        return [(v, type(v).__name__) for v in vals]
    vals = list(PASS_VALUES) if n_bad is None else rng.sample(PASS_VALUES, 4)
    return [(v, type(v).__name__) for v in vals]


def prepare(svc, char, aid, iid, entry, key, v, holder):
    """one preparation through a public entry point; for build_update the whole result is kept for the target check"""
    if entry == "check":
        return check_convert_value(v, char)
    res = svc.build_update({key: v})
    holder["res"] = res
    return res[0][2]


def check_target(ctx, pre, case, holder, aid, iid):
    """build_update renders (aid, iid, value): the prepared value must be addressed to the characteristic the caller named"""
    res = holder.get("res")
    if res is None:
        return
    try:
        ok = len(res) == 1 and tuple(res[0][:2]) == (aid, iid)
    except Exception:  # noqa: BLE001
        ok = False
    if not ok:
        ctx.violation(pre + "/build-wrong-target", f"build_update for characteristic aid={aid} iid={iid} rendered {res!r}", case)


def locate(ctx, n0, where):
    """say in the violation text which characteristic / entry point it was"""
    for x in ctx.violations[n0:]:
        x["what"] = where + x["what"]


def stream_of(spec):
    """the stream a spec belongs to (prefix of its signatures, `stream` of its cases)"""
    return "wire" if spec["path"] in WIRE_PATHS else "typed"


def typed_one(ctx, spec, built, ci, entry, key, v, kind, sinks):
    svc, chars = built
    ch = spec["chars"][ci]
    pre = stream_of(spec)
    case = {"stream": pre, "spec": spec, "char": ci, "entry": entry, "key": key, "value": enc(v)}
    holder = {}
    n0 = len(ctx.violations)
    decl = declared(ch)
    judge_any(ctx, pre, case, decl, v, kind, lambda: prepare(svc, chars[ci], spec["aid"], ch["iid"], entry, key, v, holder), sinks,
              tag=(pre, ch["cat"], spec["path"], entry))
    check_target(ctx, pre, case, holder, spec["aid"], ch["iid"])
    locate(ctx, n0, f"{ch['cat']} type {ch['type']} built through {spec['path']}, {'Service.build_update' if entry == 'build' else 'check_convert_value'}: ")
    ctx.dist[pre + ":path:" + spec["path"]] += 1
    ctx.dist[pre + ":type:" + ch["cat"]] += 1
    if pre == "wire":
        ctx.dist["wire:declares:%s:%s%s" % (ch["fmt"], "range" if ch["min"] != OMIT else "-", "+step" if ch["step"] != OMIT else "")] += 1
        if decl[0] in NUM_FORMATS and decl[1] is not None and decl[1] < 0:
            ctx.dist["wire:negative-minimum:" + decl[0]] += 1


def convertible_ref(decl, v):
    """does the property call `v` convertible for a characteristic declaring `decl`?  (None = the harness has no reference for this format)"""
    fmt = decl[0]
    if fmt in NUM_FORMATS:
        try:
            return Decimal(v).is_finite()
        except Exception:  # noqa: BLE001
            return False
    if fmt in ("data", "tlv8") and isinstance(v, str):
        return ref_text_valid(fmt, v)
    return None


def typed_multi(ctx, spec, built, payload, sinks):
    """one build_update call naming several characteristics of the service: every item is prepared against ITS OWN characteristic,
    in the order given; one unconvertible item fails the call with FormatError"""
    svc, chars = built
    pre = stream_of(spec)
    case = {"stream": pre + "-multi", "spec": spec, "payload": [[ci, key, enc(v)] for ci, key, v in payload]}
    decls = [declared(spec["chars"][ci]) for ci, _, _ in payload]
    refs = [convertible_ref(d, v) for d, (_, _, v) in zip(decls, payload)]
    ctx.evaluations += 1
    ctx.dist[pre + ":multi"] += 1
    try:
        res = svc.build_update({key: v for _, key, v in payload})
        exc = None
    except Exception as e:  # noqa: BLE001
        res, exc = None, e
    if exc is not None and not isinstance(exc, FormatError):
        ctx.violation(pre + "/multi/" + type(exc).__name__, f"build_update of {len(payload)} items raised {type(exc).__name__} (not the library's FormatError)", case)
        return
    if any(r is False for r in refs):
        if exc is None:
            ctx.violation(pre + "/multi/accepted-garbage", f"build_update with an unconvertible item returned {res!r}", case)
        return
    if exc is not None:
        if all(r is True for r in refs):
            ctx.violation(pre + "/multi/rejected-valid", "build_update of convertible items raised FormatError", case)
        return
    want = [(spec["aid"], spec["chars"][ci]["iid"]) for ci, _, _ in payload]
    try:
        targets = [tuple(x[:2]) for x in res]
    except Exception:  # noqa: BLE001
        targets = None
    if targets != want:
        ctx.violation(pre + "/multi/build-wrong-target", f"build_update for {want} rendered {res!r}", case)
        return
    for (ci, key, v), d, item in zip(payload, decls, res):
        if d[0] in NUM_FORMATS or d[0] == "bool":
            ctx.evaluations -= 1  # counted once for the call
            judge_any(ctx, pre + "/multi", case, d, v, "multi", lambda item=item: item[2], sinks, tag=(pre + "-multi", spec["chars"][ci]["cat"], spec["path"]))


def gen_spec(rng, path, cats, fmts, params=None):
    siid = rng.randint(8, 60)
    stype = rng.choice(["43", "4A", "0000004A", "00000049-0000-1000-8000-0026BB765291", "b7", rng.choice(VENDOR_SERVICES), rng.choice(VENDOR_SERVICES).lower()])
    spec = {"path": path, "aid": rng.choice([1, 1, 2, 7, 99, 2 ** 31]), "siid": siid, "stype": stype, "chars": []}
    taken = {"00000023" + BASE_UUID}
    for i, (cat, fmt) in enumerate(zip(cats, fmts)):
        ch = gen_char(rng, cat, fmt, siid + 1 + i, path, taken, params)
        taken.add(canon_uuid(ch["type"]))
        spec["chars"].append(ch)
    return spec


def safe_build(ctx, pre, spec):
    try:
        return build(spec)
    except Exception as e:  # noqa: BLE001
        ctx.evaluations += 1
        ctx.violation(pre + "/construct/" + type(e).__name__, f"constructing a characteristic from a well-formed declaration through {spec['path']} raised {type(e).__name__}: {e}",
                      {"stream": stream_of(spec), "spec": spec, "char": 0, "entry": "check", "key": spec["chars"][0]["type"], "value": "0"})
        return None


def exercise(ctx, rng, spec, sinks, n_good, n_bad):
    built = safe_build(ctx, stream_of(spec), spec)
    if built is None:
        return
    for ci, ch in enumerate(spec["chars"]):
        decl = declared(ch)
        canon = canon_uuid(ch["type"])
        inputs = values_for(rng, decl, n_good, n_bad)
        if spec["path"] in WIRE_PATHS:
            inputs += wire_inputs(rng, ch, decl)
        for j, (v, kind) in enumerate(inputs):
            entry = "check" if (spec["path"] == "ctor" or (j + ci) % 2 == 0) else "build"
            typed_one(ctx, spec, built, ci, entry, spell(rng, canon), v, kind, sinks)
    if len(spec["chars"]) > 1 and spec["path"] != "ctor":
        order = list(range(len(spec["chars"])))
        bad_at = None
        for rnd in range(3):
            rng.shuffle(order)
            if rnd == 2:  # ... and once with one unconvertible item somewhere
                bad_at = rng.choice(order)
            payload = [(ci, spell(rng, canon_uuid(spec["chars"][ci]["type"])), pick_item(rng, declared(spec["chars"][ci]), ci == bad_at)) for ci in order]
            typed_multi(ctx, spec, built, payload, sinks)


def pick_item(rng, decl, bad):
    """an input for one item of a multi-item update: convertible by the harness's reference (or unconvertible if `bad` and the format has such inputs)"""
    fmt = decl[0]
    if fmt in ("data", "tlv8"):
        vals = [v for v in text_values(rng) if isinstance(v, str)]
        pool = [v for v in vals if ref_text_valid(fmt, v) != bad]
        return rng.choice(pool or vals)
    if fmt in NUM_FORMATS:
        if bad:
            return rng.choice(NUM_GARBAGE)
        return rng.choice(num_values(rng, fmt, decl[1], decl[2], decl[3], 3))
    if fmt == "bool":
        return rng.choice(BOOL_VALUES)
    return rng.choice(PASS_VALUES)


def fixture_dir():
    import aiohomekit

    return os.path.join(os.path.dirname(os.path.dirname(os.path.abspath(aiohomekit.__file__))), "tests", "fixtures")


def fixture_chars(fn):
    """the harness's own reading of a fixture: [(aid, siid, char dict as a spec char, may use build_update)]"""
    with open(os.path.join(fixture_dir(), fn), encoding="utf-8") as f:
        raw = json.load(f)
    out = []
    for a in raw:
        for s in a["services"]:
            types = [canon_uuid(c["type"]) for c in s["characteristics"]]
            for c in s["characteristics"]:
                canon = canon_uuid(c["type"])
                ch = {"type": c["type"], "iid": c["iid"], "fmt": c["format"] if "format" in c else OMIT, "min": c["minValue"] if "minValue" in c else OMIT,
                      "max": c["maxValue"] if "maxValue" in c else OMIT, "step": c["minStep"] if "minStep" in c else OMIT,
                      "cat": "std" if canon in _std_table() else ("apple-unknown" if canon.endswith(BASE_UUID) else "vendor")}
                out.append((a["aid"], s["iid"], ch, types.count(canon) == 1))
    return out


def fixture_one(ctx, accs, fn, aid, siid, ch, entry, key, v, kind, sinks):
    svc = accs.aid(aid).services.iid(siid)
    char = svc.get_char_by_iid(ch["iid"])
    case = {"stream": "fixture", "file": fn, "aid": aid, "siid": siid, "iid": ch["iid"], "entry": entry, "key": key, "value": enc(v)}
    holder = {}
    n0 = len(ctx.violations)
    judge_any(ctx, "fixture", case, declared(ch), v, kind, lambda: prepare(svc, char, aid, ch["iid"], entry, key, v, holder), sinks, tag=("fixture", ch["cat"], entry))
    check_target(ctx, "fixture", case, holder, aid, ch["iid"])
    locate(ctx, n0, f"{fn} aid={aid} iid={ch['iid']} ({ch['cat']} type {ch['type']}), {'Service.build_update' if entry == 'build' else 'check_convert_value'}: ")
    ctx.dist["fixture:type:" + ch["cat"]] += 1


def load_fixture(fn):
    from aiohomekit.model import Accessories

    return Accessories.from_file(os.path.join(fixture_dir(), fn))


def required_one(ctx, stype, name, ctype, entry, v, kind, sinks):
    """a service created with its required characteristics (every parameter comes from the library's tables)"""
    ch = {"type": ctype, "fmt": OMIT, "min": OMIT, "max": OMIT, "step": OMIT}
    case = {"stream": "required", "stype": stype, "name": name, "ctype": ctype, "entry": entry, "value": enc(v)}
    try:
        acc = Accessory.create_with_info(3, "n", "m", "mo", "sn", "1")
        svc = acc.add_service(stype, name=name, add_required=True)
        char = svc[ctype]
    except Exception as e:  # noqa: BLE001
        ctx.evaluations += 1
        ctx.violation("required/construct/" + type(e).__name__, f"creating service {stype} with its required characteristics raised {type(e).__name__}: {e}", case)
        return
    holder = {}
    judge_any(ctx, "required", case, declared(ch), v, kind, lambda: prepare(svc, char, 3, char.iid, entry, ctype, v, holder), sinks, tag=("required", entry))
    if holder.get("res") is not None and (len(holder["res"]) != 1 or holder["res"][0][0] != 3):
        ctx.violation("required/build-wrong-target", f"build_update rendered {holder['res']!r}", case)


def kinds_stream(ctx, driver):
    rng = ctx.rng
    sinks = Sinks()
    # ---- the cross, deterministic in its coverage: construction path x kind of type x format (incl. none declared) with EVERY input of the format's classes
    k = 0
    for path in PATHS:
        for cat in CATS:
            for fmt in ALL_FORMATS + (OMIT,):
                k += 1
                params = ((OMIT, OMIT, OMIT), (0, 100, 1), (None, None, None))[k % 3]
                spec = gen_spec(rng, path, [cat], [fmt], params)
                exercise(ctx, rng, spec, sinks, 3, None)
    ctx.dist["typed:cross-accessories"] = k
    # ---- random accessories: 1..3 characteristics of different kinds in one service, sampled inputs, multi-item updates
    for _ in range(ctx.budget(450, 12000)):
        n = rng.choice([1, 2, 2, 3])
        cats = [rng.choice(CATS) for _ in range(n)]
        fmts = [rng.choice(ALL_FORMATS + NUM_FORMATS + (OMIT, "float", "bool")) for _ in range(n)]
        spec = gen_spec(rng, rng.choice(PATHS), cats, fmts)
        exercise(ctx, rng, spec, sinks, 5, 5)
    if sinks.num["int"][0]:
        ctx.sample(sinks.num["int"][0][len(sinks.num["int"][0]) // 2])
    sinks.compare(ctx, driver, "typed")
    # ---- the repository's fixtures: real accessory databases with standard and vendor specific characteristics
    fsinks = Sinks()
    try:
        names = sorted(f for f in os.listdir(fixture_dir()) if f.endswith(".json"))
    except OSError:
        names = []
        ctx.notes.append("fixture stream: tests/fixtures not found next to the package, stream not run")
    for fn in names:
        try:
            chars = fixture_chars(fn)
        except Exception as e:  # noqa: BLE001
            ctx.notes.append(f"fixture stream: {fn} not readable as plain JSON by the harness ({type(e).__name__}), skipped")
            continue
        try:
            accs = load_fixture(fn)
        except Exception as e:  # noqa: BLE001
            ctx.evaluations += 1
            ctx.violation("fixture/construct/" + type(e).__name__, f"loading {fn} raised {type(e).__name__}: {e}", {"stream": "fixture", "file": fn, "load": True})
            continue
        for aid, siid, ch, unique in chars:
            decl = declared(ch)
            canon = canon_uuid(ch["type"])
            full = ctx.thorough()
            for j, (v, kind) in enumerate(values_for(rng, decl, 4, None if full else 6)):
                entry = "build" if (unique and j % 2 == 0) else "check"
                fixture_one(ctx, accs, fn, aid, siid, ch, entry, spell(rng, canon), v, kind, fsinks)
        ctx.dist["fixture:files"] += 1
    fsinks.compare(ctx, driver, "fixture")
    # ---- services created with their required characteristics
    rsinks = Sinks()
    svc_table = _svc_table()
    for stype in sorted(svc_table):
        for ctype in svc_table[stype]["required"]:
            ch = {"type": ctype, "fmt": OMIT, "min": OMIT, "max": OMIT, "step": OMIT}
            for j, (v, kind) in enumerate(values_for(rng, declared(ch), 3, 4)):
                required_one(ctx, spell(rng, stype), rng.choice([None, "svc"]), spell(rng, ctype), "build" if j % 2 else "check", v, kind, rsinks)
    rsinks.compare(ctx, driver, "required")
    untouched = sorted(k.split(":")[-1] for k in ctx.dist if ":untouched-format:" in k and k.split(":")[-1] not in ("string", "None"))
    if untouched:
        ctx.notes.append("formats met on characteristics that the conversion passes through untouched (outside the property's formats; not judged beyond the exception rule): "
                         + ", ".join(sorted(set(untouched))))
    nonstr = sorted(k for k in ctx.dist if "-nonstr:" in k and not k.endswith(":err") and not k.endswith(":ok"))
    if nonstr:
        ctx.notes.append("non-string inputs to data/tlv8 characteristics leave with an exception other than FormatError (outside the property's formats; observed, not judged): " + ", ".join(nonstr))


def replay_kinds(ctx, cc):
    sinks = Sinks()
    stream = cc["stream"]
    if stream in ("typed", "wire"):
        built = safe_build(ctx, stream, cc["spec"])
        if built is not None:
            typed_one(ctx, cc["spec"], built, cc["char"], cc["entry"], cc["key"], dec(cc["value"]), "replay", sinks)
    elif stream in ("typed-multi", "wire-multi"):
        built = safe_build(ctx, stream.split("-")[0], cc["spec"])
        if built is not None:
            typed_multi(ctx, cc["spec"], built, [(ci, key, dec(v)) for ci, key, v in cc["payload"]], sinks)
    elif stream == "fixture":
        if cc.get("load"):
            load_fixture(cc["file"])
            return
        accs = load_fixture(cc["file"])
        for aid, siid, ch, _ in fixture_chars(cc["file"]):
            if (aid, siid, ch["iid"]) == (cc["aid"], cc["siid"], cc["iid"]):
                fixture_one(ctx, accs, cc["file"], aid, siid, ch, cc["entry"], cc["key"], dec(cc["value"]), "replay", sinks)
                break
    elif stream == "required":
        required_one(ctx, cc["stype"], cc["name"], cc["ctype"], cc["entry"], dec(cc["value"]), "replay", sinks)


def replay(ctx, driver, cc):
    stream = cc.get("stream")
    if stream == "ble-meta":
        from harness.c14_blemeta import replay_blemeta
        return replay_blemeta(ctx, driver, cc)
    if stream in ("typed", "typed-multi", "wire", "wire-multi", "fixture", "required"):
        sub = Ctx(ctx.pid, ctx.tier, ctx.seed)
        try:
            replay_kinds(sub, cc)
        except Exception as e:  # noqa: BLE001
            return f"replay could not rebuild the case: {type(e).__name__}: {e}"
        return "; ".join(f"{v['signature']}: {v['what']}" for v in sub.violations[:3]) or None
    svc, c = mkchar()
    if stream == "bool":
        c.format = "bool"
        v = dec(cc["value"])
        try:
            r = check_convert_value(v, c)
        except FormatError:
            return None
        except Exception as e:  # noqa: BLE001
            return f"raised {type(e).__name__}"
        return None if (r in (0, 1) and not isinstance(r, bool)) else f"bool format returned {r!r}"
    if stream != "num":
        return None
    ev = dec
    c.format = cc["format"]
    c.minValue, c.maxValue, c.minStep = ev(cc["min"]), ev(cc["max"]), ev(cc["step"])
    v = ev(cc["value"])
    try:
        r = check_convert_value(v, c)
    except FormatError:
        r = None
    except Exception as e:  # noqa: BLE001
        return f"raised {type(e).__name__}"
    if cc.get("want") is not None and r != ev(cc["want"]):
        return f"{v!r} -> {r!r}, expected {cc['want']}"
    # the property's oracle once more on the recorded input
    sub = Ctx(ctx.pid, ctx.tier, ctx.seed)
    sink = {"int": ([], [], []), "float": ([], [], [])}
    judge_num(sub, "num", cc, c.format, c.minValue, c.maxValue, c.minStep, v, "replay", lambda: check_convert_value(v, c), sink)
    return "; ".join(f"{x['signature']}: {x['what']}" for x in sub.violations[:3]) or None
