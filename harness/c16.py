"""C16 - structured TLV8 messages round-trip for every defined message type."""
from __future__ import annotations

import dataclasses
import enum
import importlib
import json
import os
import struct
import typing
from collections import abc

from harness.common import LEAN, Ctx, Driver, compare_with_model, hx, load_corpus

import aiohomekit.tlv8 as T

ID = "C16"
RULE = ("every TLVStruct subclass found by reflection (schemas regenerated each run) x random field values of every supported type with boundary sizes 1,254,255,256,510,511, "
        "unset fields, nested structs, sequences of 1..3 structs, id lists of 0..6 entries over all byte values; stream 'enc' = library encode of library objects, "
        "stream 'peer' = messages written by an independent reference TLV8 writer (conformant accessory), stream 'mut' = mutated encodings (correspondence only). "
        "non-trivial = distinct (class, set-field mask, size classes)")
TRUSTED = ["Python dataclasses/typing reflection (schema extraction)", "struct.pack native == little-endian on this platform"]
ASSUMPTIONS = ["float fields (min_rtcp_interval) have no (de)serialiser in the library and are never set; they are left out of the schemas",
               "values with an empty encoding (empty bytes/str, empty sequence, struct with no field set) are outside the round-trip theorem: the encoder emits nothing for them (WFV hypothesis)"]
EXPLANATION = "schema-generic Lean model of tlv8.py; theorems over all schemas satisfying WFS; Gen.Schemas (reflection) transfers them to every class; differential tie per class"

SIZES = {T.u8: 1, T.u16: 2, T.u32: 4, T.u64: 8, T.u128: 16}


def load_schemas():
    with open(os.path.join(LEAN, "HapVerif", "Gen", "gen.json")) as f:
        return json.load(f)["Schemas"]


def cls_of(name):
    mod, _, q = name.rpartition(".")
    return getattr(importlib.import_module(mod), q)


def fields_of(cls):
    hints = typing.get_type_hints(cls)
    return [(f, hints.get(f.name, f.type)) for f in dataclasses.fields(cls) if f.init and hints.get(f.name, f.type) is not float]


# ---------- rendering python values in the driver's syntax
def show(v, tp):
    if v is None:
        return "_"
    if typing.get_origin(tp) is abc.Sequence:
        inner = tp.__args__[0]
        if inner is T.u16:
            return "( " + " ".join(str(int(x)) for x in v) + " )"
        return "[ " + " ".join(show(x, inner) for x in v) + " ]"
    if isinstance(v, T.TLVStruct):
        return "{ " + " ".join(show(getattr(v, f.name), t) for f, t in fields_of(type(v))) + " }"
    if isinstance(v, enum.IntEnum):
        return f"i{int(v)}"
    if isinstance(v, bool):
        return f"i{int(v)}"
    if isinstance(v, int):
        return f"i{v}"
    if isinstance(v, str):
        return "x" + hx(v.encode("utf-8", "surrogatepass"))
    if isinstance(v, (bytes, bytearray)):
        return "x" + hx(v)
    raise TypeError(v)


def show_struct(v):
    return "{ " + " ".join(show(getattr(v, f.name), t) for f, t in fields_of(type(v))) + " }"


# ---------- independent reference writer (conformant peer): canonical TLV8 of a value tree
def ref_frag(t, b):
    out = b""
    for i in range(0, len(b), 255):
        c = b[i:i + 255]
        out += bytes([t, len(c)]) + c
    return out


def ref_val(v, tp):
    if typing.get_origin(tp) is abc.Sequence:
        inner = tp.__args__[0]
        if inner is T.u16:
            return b"".join(struct.pack("<H", int(x)) for x in v)  # packed list of 16-bit ids (HAP-BLE service signature)
        return b"\x00\x00".join(ref_struct(x) for x in v)
    if isinstance(v, T.TLVStruct):
        return ref_struct(v)
    if tp in SIZES:
        return int(v).to_bytes(SIZES[tp], "little")
    if tp is T.bu16:
        return int(v).to_bytes(2, "big")
    if isinstance(v, enum.IntEnum):
        return bytes([int(v)])
    if isinstance(v, str):
        return v.encode()
    return bytes(v)


def ref_struct(inst):
    out = b""
    for f, tp in fields_of(type(inst)):
        v = getattr(inst, f.name)
        if v is None:
            continue
        out += ref_frag(int(f.metadata["tlv_type"]), ref_val(v, tp))
    return out


# ---------- generators
def rbytes(rng, allow_small=True):
    n = rng.choice([1, 2, 5, 30, 254, 255, 256, 510, 511] if allow_small else [254, 255, 256, 510])
    return bytes(rng.randrange(256) for _ in range(n))


def rval(rng, tp, depth, with_ids):
    if typing.get_origin(tp) is abc.Sequence:
        inner = tp.__args__[0]
        if inner is T.u16:
            if not with_ids:
                return None
            return [T.u16(rng.choice([rng.randrange(65536), rng.randrange(256), 0x1000, 0x2000, 257 * rng.randrange(256)])) for _ in range(rng.randint(0, 6))]
        out = []
        for _ in range(rng.randint(1, 3)):
            x = rinst(rng, inner, depth + 1, with_ids)
            if x is not None:
                out.append(x)
        if out and rng.random() < 0.2:
            # list items whose fields are all unset encode to nothing: in leading or middle position they are still
            # delimited by the 00 00 separators (a trailing one is indistinguishable from "no more items" and is not generated)
            try:
                empty = inner()
                pos = rng.randrange(0, len(out))
                out[pos:pos] = [empty] * rng.choice([1, 1, 2])
            except TypeError:
                pass
        return out or None
    if tp in SIZES:
        k = SIZES[tp]
        return tp(rng.choice([0, 1, 255, 256 ** k - 1, rng.randrange(256 ** k)]))
    if tp is T.bu16:
        return T.bu16(rng.choice([0, 1, 255, 256, 65535, rng.randrange(65536)]))
    if tp is str:
        base = "".join(rng.choice("abcXYZ09 -é€") for _ in range(rng.choice([1, 3, 40, 255, 256])))
        r = rng.random()
        if r < 0.3:
            # what a decoder might be tempted to tidy up: terminators, padding, line ends, a BOM - at either end or inside
            edge = rng.choice(["\x00", "\x00\x00\x00", " ", "  ", "\n", "\r\n", "\t", "\ufeff", "\x7f", "\u00a0"])
            pos = rng.choice(["end", "end", "start", "mid", "only"])
            base = {"end": base + edge, "start": edge + base, "mid": base[:len(base) // 2] + edge + base[len(base) // 2:], "only": edge}[pos]
        return base
    if tp is bytes:
        return rbytes(rng)
    if isinstance(tp, type) and issubclass(tp, enum.IntEnum):
        return rng.choice(list(tp))
    if isinstance(tp, type) and issubclass(tp, T.TLVStruct):
        return rinst(rng, tp, depth + 1, with_ids)
    raise TypeError(tp)


def rinst(rng, cls, depth=0, with_ids=False):
    """random instance with a non-empty encoding (None if the draw left every field unset)"""
    kw = {}
    fl = fields_of(cls)
    for f, tp in fl:
        if rng.random() < (0.25 if depth < 2 else 0.5):
            continue
        v = rval(rng, tp, depth, with_ids)
        if v is not None:
            kw[f.name] = v
    if not kw:
        # force one scalar field so that the encoding is non-empty
        for f, tp in fl:
            v = rval(rng, tp, depth, with_ids)
            if v is not None and not (isinstance(v, list) and not v):
                kw[f.name] = v
                break
    if not kw:
        return None
    return cls(**kw)


def dup_types(schema_fields):
    ts = [t for _, t, _ in schema_fields]
    return sorted({t for t in ts if ts.count(t) > 1})


def has_sequ16(ft):
    if ft[0] == "sequ16":
        return True
    if ft[0] in ("struct", "seq"):
        return any(has_sequ16(x[2]) for x in ft[1])
    return False


def strip(inst, drop_ids, dup_names):
    """copy of inst without Sequence[u16] fields (drop_ids) and without the earlier field of a duplicated TLV type"""
    kw = {}
    for f, tp in fields_of(type(inst)):
        v = getattr(inst, f.name)
        if v is None:
            continue
        if typing.get_origin(tp) is abc.Sequence:
            inner = tp.__args__[0]
            if inner is T.u16:
                if drop_ids:
                    v = [T.u16(1)]  # a single id without a zero byte is decoded correctly even by the TLV splitter
            else:
                v = [strip(x, drop_ids, dup_names) for x in v]
        elif isinstance(v, T.TLVStruct):
            v = strip(v, drop_ids, dup_names)
        if f.name in dup_names:
            continue
        kw[f.name] = v
    return type(inst)(**kw)


def earlier_dup_names(cls):
    seen = {}
    out = set()
    for f, _ in fields_of(cls):
        t = int(f.metadata["tlv_type"])
        seen.setdefault(t, []).append(f.name)
    for names in seen.values():
        out.update(names[:-1])
    return out


def explained(cls, inst, encoder, drop_ids, dups):
    """is the mismatch explained by the known finding alone? (the same value without the id lists / the earlier duplicate fields behaves)"""
    try:
        st = strip(inst, drop_ids, earlier_dup_names(cls) if dups else set())
        return impl_decode(cls, encoder(st)) == "ok " + show_struct(st)
    except Exception:  # noqa: BLE001
        return False


def mask(inst):
    return tuple(getattr(inst, f.name) is not None for f, _ in fields_of(type(inst)))


def scramble(obj, rng, depth=0):
    """modify a decoded object in place, nested structs and list items included"""
    import dataclasses
    if depth > 4 or not dataclasses.is_dataclass(obj):
        return
    for f in dataclasses.fields(obj):
        v = getattr(obj, f.name)
        if dataclasses.is_dataclass(v):
            scramble(v, rng, depth + 1)
        elif isinstance(v, list):
            for x in v:
                scramble(x, rng, depth + 1)
            if v:
                v.append(v[0])
        elif isinstance(v, bool) or v is None:
            continue
        elif isinstance(v, int):
            try:
                setattr(obj, f.name, type(v)((int(v) + 1) % 200))
            except Exception:  # noqa: BLE001
                pass
        elif isinstance(v, (bytes, str)):
            setattr(obj, f.name, v[:0])


def impl_decode(cls, data):
    try:
        return "ok " + show_struct(cls.decode(data))
    except T.TlvParseException:
        return "err parse"
    except IndexError:
        return "err index"
    except UnicodeDecodeError:
        return "err unicode"
    except ValueError:
        return "err value"
    except Exception as e:  # noqa: BLE001
        return "exc " + type(e).__name__


def impl_encode(inst):
    try:
        return "ok " + hx(inst.encode())
    except (struct.error, OverflowError):
        return "err struct"
    except AttributeError:
        return "err attr"
    except Exception as e:  # noqa: BLE001
        return "exc " + type(e).__name__


def run(ctx: Ctx, driver: Driver):
    rng = ctx.rng
    schemas = load_schemas()
    classes = [(name, cls_of(name), fields) for name, fields in schemas]
    ctx.notes.append(f"{len(classes)} TLVStruct classes found by reflection")
    for c in load_corpus(ID):
        replay(ctx, driver, c)
    per = ctx.budget(60, 1500)
    # ---- stream enc: library objects -> encode -> (canonical? round trip?) ; model encode
    cases, outs, lines = [], [], []
    dcases, douts, dlines = [], [], []
    for name, cls, fields in classes:
        dups = dup_types(fields)
        seq16 = any(has_sequ16(ft) for _, _, ft in fields)
        for _ in range(per):
            inst = rinst(rng, cls)
            if inst is None:
                continue
            ctx.evaluations += 1
            out = impl_encode(inst)
            val = show_struct(inst)
            case = {"stream": "enc", "cls": name, "value": val if len(val) < 4000 else val[:4000]}
            ctx.nontrivial.add(("enc", name, mask(inst)))
            if out.startswith("exc"):
                ctx.violation(f"enc/{name.split('.')[-1]}/{out.split()[1]}", f"{name}.encode() raised {out.split()[1]}", case)
            elif out == "err struct":
                # every generated integer fits its declared width, so the packer has no reason to refuse it
                ctx.violation(f"enc/{name.split('.')[-1]}/refused-in-range", f"{name}.encode() refused a value whose integers all fit their declared widths (struct.error): no encoding, no round trip", case)
            elif out.startswith("ok"):
                enc = bytes.fromhex(out[3:]) if out[3:] != "-" else b""
                if enc != ref_struct(inst):
                    ctx.violation(f"enc/{name.split('.')[-1]}/not-canonical", f"{name}: encoding is not the canonical TLV8 form (declaration order, 255-byte fragments, 00 00 between list items)", case)
                back = impl_decode(cls, enc)
                if back == "ok " + val and rng.random() < 0.5:
                    # decoding is a function of the bytes: changing what an earlier decode returned must not change a later one
                    try:
                        first = cls.decode(enc)
                        scramble(first, rng)
                        again = impl_decode(cls, enc)
                        if again != "ok " + val:
                            ctx.violation(f"roundtrip/{name.split('.')[-1]}/decode-not-pure", f"{name}: decoding the same bytes again after the first decoded object was modified gives a different value (decoded objects are shared)", case)
                    except Exception as e:  # noqa: BLE001
                        ctx.violation(f"roundtrip/{name.split('.')[-1]}/decode-not-pure", f"{name}: second decode raised {type(e).__name__}", case)
                if back != "ok " + val:
                    # duplicate TLV types make the earlier field come back under the later name
                    sig = f"roundtrip/{name.split('.')[-1]}" + ("/duplicate-type-" + "-".join(map(str, dups)) if dups and explained(cls, inst, lambda x: x.encode(), False, dups) else "")
                    ctx.violation(sig, f"{name}: decode(encode(v)) != v: {back[:120]} vs {val[:120]}", case)
                dcases.append({"stream": "dec", "cls": name, "data": hx(enc)})
                douts.append(back)
                dlines.append(f"t8.dec {name} {hx(enc)}")
            if len(val) < 60000:
                cases.append(case)
                outs.append(out)
                lines.append(f"t8.enc {name} {val}")
            ctx.dist["enc:" + out.split()[0]] += 1
    ctx.sample(cases[3])
    compare_with_model(ctx, "enc", cases, outs, lines, driver)
    # ---- stream peer: messages from a conformant accessory (reference writer), incl. packed id lists
    for name, cls, fields in classes:
        seq16 = any(has_sequ16(ft) for _, _, ft in fields)
        dups = dup_types(fields)
        for _ in range(per if seq16 else per // 3):
            inst = rinst(rng, cls, with_ids=True)
            if inst is None:
                continue
            data = ref_struct(inst)
            want = "ok " + show_struct(inst)
            out = impl_decode(cls, data)
            ctx.evaluations += 1
            case = {"stream": "peer", "cls": name, "data": hx(data), "want": want[:3000]}
            ctx.nontrivial.add(("peer", name, mask(inst)))
            if out != want:
                if out.startswith("exc"):
                    sig = f"peer/{name.split('.')[-1]}/{out.split()[1]}"
                elif seq16 and explained(cls, inst, ref_struct, True, dups):
                    sig = f"peer/{name.split('.')[-1]}/seqU16"
                elif dups and explained(cls, inst, ref_struct, False, dups):
                    sig = f"peer/{name.split('.')[-1]}/duplicate-type-" + "-".join(map(str, dups))
                else:
                    sig = f"peer/{name.split('.')[-1]}"
                ctx.violation(sig, f"{name}: decoding a conformant accessory's message gives {out[:100]} instead of the encoded values {want[:100]}", case)
            dcases.append({"stream": "dec", "cls": name, "data": hx(data)})
            douts.append(out)
            dlines.append(f"t8.dec {name} {hx(data)}")
            ctx.dist["peer:" + out.split()[0]] += 1
            # ---- mutated copies: correspondence only
            if data and rng.random() < 0.5:
                b = bytearray(data)
                i = rng.randrange(len(b))
                m = rng.randrange(3)
                if m == 0:
                    b[i] = rng.randrange(256)
                elif m == 1:
                    b = b[:i]
                else:
                    b[i] ^= 1 << rng.randrange(8)
                out2 = impl_decode(cls, bytes(b))
                dcases.append({"stream": "dec", "cls": name, "data": hx(b)})
                douts.append(out2)
                dlines.append(f"t8.dec {name} {hx(b)}")
                ctx.dist["mut:" + " ".join(out2.split()[:2] if out2.startswith("err") else out2.split()[:1])] += 1
                ctx.evaluations += 1
    ctx.sample({k: (v if len(str(v)) < 400 else str(v)[:400] + "...") for k, v in dcases[-1].items()})
    compare_with_model(ctx, "dec", dcases, douts, dlines, driver, canon=lambda s: ("err" if s.startswith("err") else s))


def replay(ctx, driver, c):
    cls = cls_of(c["cls"])
    nm = len(ctx.mismatches)
    if c["stream"] in ("peer", "dec"):
        data = bytes.fromhex(c["data"]) if c["data"] != "-" else b""
        out = impl_decode(cls, data)
        compare_with_model(ctx, "dec", [c], [out], [f"t8.dec {c['cls']} {hx(data)}"], driver, canon=lambda s: ("err" if s.startswith("err") else s))
        if "want" in c and out != c["want"]:
            return f"decoding gives {out[:200]} instead of {c['want'][:200]}"
    else:
        # value syntax -> model only; the implementation side is reproduced from the decode of the model's bytes
        outs = driver.run([f"t8.enc {c['cls']} {c['value']}"])
        if outs and outs[0].startswith("ok"):
            data = bytes.fromhex(outs[0][3:]) if outs[0][3:] != "-" else b""
            back = impl_decode(cls, data)
            if back != "ok " + c["value"]:
                return f"decode(encode(v)) = {back[:200]} != v = {c['value'][:200]}"
    if len(ctx.mismatches) > nm:
        return "model/implementation mismatch: " + str(ctx.mismatches[-1])[:300]
    return None
