"""C16 - structured TLV8 messages round-trip for every defined message type."""
from __future__ import annotations

import dataclasses
import enum
import importlib
import json
import os
import struct
import typing
from collections import Counter, abc

from harness.common import LEAN, Ctx, Driver, compare_with_model, hx, load_corpus, shrink_list

import aiohomekit.tlv8 as T

ID = "C16"
RULE = ("every TLVStruct subclass found by reflection (schemas regenerated each run) x random field values of every supported type with boundary sizes 1,254,255,256,510,511, "
        "unset fields, nested structs, sequences of 1..3 structs, id lists of 0..6 entries over all byte values; stream 'enc' = library encode of library objects, "
        "stream 'peer' = messages written by an independent reference TLV8 writer (conformant accessory), stream 'mut' = mutated encodings (correspondence only); "
        "stream 'model' = every characteristic type whose metadata names a struct (bare or array, found by reflection) x reference-encoded values (lists of 0..4 items, items ending in 00, "
        "zero numbers/enums in every position, exhaustive lists of 0..3 for small enum-only structs, empty items, nested lists, > 255 bytes) stored as base64 in histories of 1..4 stores via "
        "add_char(value=) / set_value / value setter / process_changes / Accessories.from_list / serialize+from_list and read back through every accessor (Characteristic.value, get_value, "
        "Service.value, Service[...], Characteristics.first, Services.first/filter by value, iteration), read purity, and the write path Service.build_update; "
        "stream 'ip' = the same histories end to end through the unpatched IpPairing on the simulated network (GET /accessories, EVENT, get_characteristics, build_update+put_characteristics of library-encoded messages). "
        "the value generators of every scalar type also draw domain-structured values (128-bit: every characteristic / service type of the library's own tables in full and short form, any id on the "
        "HAP base UUID, vendor UUIDs, UUIDs sharing only part of the base or in the other byte order; integers: 00 / FF runs, powers of 256, the field's width, fragment sizes, the item types of the enclosing "
        "message; bytes / text: item headers, separators, zero-length items, fills of 253 / 254 / 255 / 510 bytes followed by headers, multi-byte characters astride the fragment boundary), and unset fields are "
        "passed to every constructor as explicit None; stream 'wire' = byte strings hand-built from plain value trees (no library object on the reference side) for every class x every subset of items present "
        "(all subsets up to 5 fields; none / each alone / all but one / all / random otherwise) x writing style (declaration order, items permuted at every level, 128-bit types in short form), every scalar item alone "
        "over the structured values of its type (128-bit fields: the whole type table), decoded and compared field by field (absent item -> None, present item -> its value), plus the library's own object for the "
        "same tree (other fields None) encoded (canonical) and decoded (equal); items of length zero: correspondence only; stream 'db' = reference-encoded CoAP accessory databases (1..3 accessories x 1..3 services x "
        "1..3 characteristics, types in full / short / vendor form) and BLE characteristic signatures through decode(), to_dict() and Accessories.from_list(to_dict()). "
        "non-trivial = distinct (class, set-field mask, size classes) / (characteristic, store path, item count, 00 tail, 00 00 inside, size class) / (class, writing style, items-present mask)")
TRUSTED = ["Python dataclasses/typing reflection (schema extraction)", "struct.pack native == little-endian on this platform",
           "harness/simnet.py virtual-time loop and in-memory transport, harness/acc.py scaffold accessory (stream 'ip')", "base64 of the standard library",
           "HAP-BLE characteristic-properties bit table, GATT presentation-format widths and the HAP base UUID as written in the harness (streams 'wire' / 'db')"]
ASSUMPTIONS = ["float fields (min_rtcp_interval) have no (de)serialiser in the library and are never set; they are left out of the schemas",
               "values with an empty encoding (empty bytes/str, empty sequence, struct with no field set) are outside the round-trip theorem: the encoder emits nothing for them (WFV hypothesis)",
               "streams 'model'/'ip': a characteristic value is held as the base64 text of the message, as the IP transport and the entity map deliver it (the BLE/CoAP value converters hand tlv8 values on as hex text, which the model accessor does not read: noted in the evidence, not asserted)",
               "streams 'wire' (short-form style) / 'db': a 128-bit type written in fewer than 16 bytes (as accessories on Thread write Apple-defined types) names the same integer; in the to_dict() / accessory-model views a short id and the Apple-defined UUID with that id are the same type",
               "an item of length zero sent by a peer (empty value) is compared between model and implementation only; the property does not say whether it is an empty value or an absent one"]
EXPLANATION = "schema-generic Lean model of tlv8.py; theorems over all schemas satisfying WFS; Gen.Schemas (reflection) transfers them to every class; differential tie per class"

SIZES = {T.u8: 1, T.u16: 2, T.u32: 4, T.u64: 8, T.u128: 16}


def load_schemas():
    with open(os.path.join(LEAN, "HapVerif", "Gen", "gen.json")) as f:
        return json.load(f)["Schemas"]


def cls_of(name):
    mod, _, q = name.rpartition(".")
    return getattr(importlib.import_module(mod), q)


def fields_of(cls):
    hints = typing.get_type_hints(cls)
    return [(f, hints.get(f.name, f.type)) for f in dataclasses.fields(cls) if f.init and hints.get(f.name, f.type) is not float]


def mk(cls, kw):
    """instance with every field the caller did not set explicitly absent (None): 'unset' means no item on the wire, whatever
    defaults the class declares"""
    full = {f.name: None for f in dataclasses.fields(cls) if f.init}
    full.update(kw)
    return cls(**full)


# ---------- rendering python values in the driver's syntax
def show(v, tp):
    if v is None:
        return "_"
    if typing.get_origin(tp) is abc.Sequence:
        inner = tp.__args__[0]
        if inner is T.u16:
            return "( " + " ".join(str(int(x)) for x in v) + " )"
        return "[ " + " ".join(show(x, inner) for x in v) + " ]"
    if isinstance(v, T.TLVStruct):
        return "{ " + " ".join(show(getattr(v, f.name), t) for f, t in fields_of(type(v))) + " }"
    if isinstance(v, enum.IntEnum):
        return f"i{int(v)}"
    if isinstance(v, bool):
        return f"i{int(v)}"
    if isinstance(v, int):
        return f"i{v}"
    if isinstance(v, str):
        return "x" + hx(v.encode("utf-8", "surrogatepass"))
    if isinstance(v, (bytes, bytearray)):
        return "x" + hx(v)
    raise TypeError(v)


def show_struct(v):
    return "{ " + " ".join(show(getattr(v, f.name), t) for f, t in fields_of(type(v))) + " }"


# ---------- independent reference writer (conformant peer): canonical TLV8 of a value tree
def ref_frag(t, b):
    out = b""
    for i in range(0, len(b), 255):
        c = b[i:i + 255]
        out += bytes([t, len(c)]) + c
    return out


def ref_val(v, tp):
    if typing.get_origin(tp) is abc.Sequence:
        inner = tp.__args__[0]
        if inner is T.u16:
            return b"".join(struct.pack("<H", int(x)) for x in v)  # packed list of 16-bit ids (HAP-BLE service signature)
        return b"\x00\x00".join(ref_struct(x) for x in v)
    if isinstance(v, T.TLVStruct):
        return ref_struct(v)
    if tp in SIZES:
        return int(v).to_bytes(SIZES[tp], "little")
    if tp is T.bu16:
        return int(v).to_bytes(2, "big")
    if isinstance(v, enum.IntEnum):
        return bytes([int(v)])
    if isinstance(v, str):
        return v.encode()
    return bytes(v)


def ref_struct(inst):
    out = b""
    for f, tp in fields_of(type(inst)):
        v = getattr(inst, f.name)
        if v is None:
            continue
        out += ref_frag(int(f.metadata["tlv_type"]), ref_val(v, tp))
    return out


# ---------- generators
def rbytes(rng, allow_small=True):
    n = rng.choice([1, 2, 5, 30, 254, 255, 256, 510, 511] if allow_small else [254, 255, 256, 510])
    return bytes(rng.randrange(256) for _ in range(n))


# ---------- domain-structured values: what the fields of these messages hold in the field, and byte patterns that coincide with
# the framing (item headers, separators, fragment boundaries, other widths / byte orders)
HAP_BASE = 0x0000_1000_8000_0026_BB76_5291  # HAP spec: Apple-defined types are XXXXXXXX-0000-1000-8000-0026BB765291
BT_BASE = 0x0000_1000_8000_0080_5F9B_34FB  # Bluetooth SIG base (shares -0000-1000-8000- with the HAP base)
LOW96 = (1 << 96) - 1
GEN_KINDS = Counter()
_UUIDS = None


def uuid_pool():
    """every characteristic / service type the library's own tables name (by reflection over its tables), as 128-bit integers:
    (Apple-defined ones, all others)"""
    global _UUIDS
    if _UUIDS is None:
        import uuid
        found = set()
        for modname, attr in (("aiohomekit.model.characteristics", "CharacteristicsTypes"), ("aiohomekit.model.services", "ServicesTypes"),
                              ("aiohomekit.model.characteristics.data", "characteristics"), ("aiohomekit.model.services.data", "services")):
            try:
                o = getattr(importlib.import_module(modname), attr, None)
            except Exception:  # noqa: BLE001
                o = None
            if o is None:
                continue
            cands = list(o) if isinstance(o, dict) else [v for k, v in vars(o).items() if not k.startswith("_")]
            for c in cands:
                if isinstance(c, str):
                    try:
                        found.add(uuid.UUID(c).int)
                    except ValueError:
                        pass
        apple = sorted(u for u in found if u & LOW96 == HAP_BASE)
        other = sorted(u for u in found if u & LOW96 != HAP_BASE)
        _UUIDS = (apple or [(0x25 << 96) | HAP_BASE], other or [0xE863F10A_079E_48FF_8F27_9C2605A29F52])
    return _UUIDS


def u128_structured(rng):
    apple, other = uuid_pool()
    kind = rng.choice(["apple-full", "apple-full", "apple-full", "apple-short", "apple-any-id", "vendor-table", "vendor-random", "partial-base", "partial-base"])
    u = rng.choice(apple)
    if kind == "apple-full":
        v = u
    elif kind == "apple-short":
        v = u >> 96
    elif kind == "apple-any-id":
        v = (rng.choice([0, 1, rng.randrange(256), rng.randrange(65536), rng.randrange(1 << 32), (1 << 32) - 1]) << 96) | HAP_BASE
    elif kind == "vendor-table":
        v = rng.choice(other)
    elif kind == "vendor-random":
        v = (rng.getrandbits(128) & ~(0xF << 76) & ~(0x3 << 62)) | (4 << 76) | (2 << 62)  # RFC 4122 version 4
    else:
        short = u >> 96
        v = rng.choice([
            u ^ (1 << rng.randrange(96)),  # one bit of the base off
            u ^ (0xFF << (8 * rng.randrange(12))),  # one byte of the base off
            (short << 96) | (HAP_BASE & ((1 << 64) - 1)),  # only the low half of the base
            (short << 96) | (HAP_BASE >> 48 << 48),  # only the high half of the base
            (short << 96) | BT_BASE,  # the Bluetooth SIG base
            (short << 96) | (HAP_BASE >> 8),  # base shifted by a byte
            HAP_BASE,  # base alone
            (HAP_BASE << 32) | short,  # id at the other end
            int.from_bytes(u.to_bytes(16, "big"), "little"),  # the same UUID in the other byte order
            (short << 64) | (HAP_BASE & ((1 << 64) - 1)),  # a 96-bit value
            u + 1, u - 1,
            u | (1 << 127),
        ]) & ((1 << 128) - 1)
    GEN_KINDS["u128:" + kind] += 1
    return v


def int_structured(rng, k, types):
    """values of a k-byte field whose bytes coincide with other things on the wire: runs of 00 / FF, powers of 256, the field's own
    width, fragment sizes, the item types of the enclosing message"""
    j = rng.randrange(k)
    t = rng.choice(list(types) or [1])
    v = rng.choice([
        0, 256 ** k - 1, 256 ** j, 256 ** (j + 1) - 1, 0x80 << (8 * (k - 1)), (0x80 << (8 * (k - 1))) - 1,
        k, 2 * k, 255, 254, 256, 510, 511, 0xFF00, 0x00FF, 0x0100, 0x0001 << (8 * j), 0xFF << (8 * j),
        t, t << (8 * j), (t << 8) | k, (k << 8) | t, t | (0xFF << 8), int.from_bytes(bytes([t, k] * 8)[:k], "little"),
        int.from_bytes(bytes([rng.randrange(1, 256)]) * k, "little"),  # one byte repeated
        rng.randrange(256 ** k) & ~(0xFF << (8 * j)),  # a 00 byte inside
        rng.randrange(256 ** k) | (0xFF << (8 * j)),  # an FF byte inside
    ]) % (256 ** k)
    GEN_KINDS[f"u{8 * k}:structured"] += 1
    return v


def bytes_structured(rng, types, text=False):
    """values that look like framing: items of the enclosing message's types, separators, zero-length items, fragments of 255
    bytes followed by what looks like a continuation (as text: the same patterns within ASCII)"""
    lim = 128 if text else 256
    ts = [x for x in types if x < lim] or [1]
    t = rng.choice(ts + [0, lim - 1])
    n = rng.choice([0, 1, 2, 3, 16])

    def fill(m):
        return bytes(rng.randrange(1 if text else 0, lim) for _ in range(m))
    kind = rng.choice(["item", "items", "separator", "separator-inside", "zero-length-item", "overlong-header", "fill-255-then-header", "fill-253-then-separator",
                       "fill-254-then-type", "ff-run", "00-run", "fragment-sized", "two-fragments-then-header"])
    if kind == "item":
        v = bytes([t, n]) + fill(n)
    elif kind == "items":
        v = b"".join(bytes([rng.choice(ts), m]) + fill(m) for m in [rng.randrange(4) for _ in range(rng.randint(2, 4))])
    elif kind == "separator":
        v = b"\x00\x00" * rng.choice([1, 1, 2])
    elif kind == "separator-inside":
        v = bytes([t, 1]) + fill(1) + b"\x00\x00" + bytes([t, 1]) + fill(1)
    elif kind == "zero-length-item":
        v = bytes([t, 0])
    elif kind == "overlong-header":
        v = bytes([t, lim - 1]) + fill(rng.choice([0, 1, 5]))
    elif kind == "fill-255-then-header":
        v = fill(255) + bytes([t, n]) + fill(n)
    elif kind == "fill-253-then-separator":
        v = fill(253) + b"\x00\x00" + rng.choice([b"", bytes([t, 1]) + fill(1)])
    elif kind == "fill-254-then-type":
        v = fill(254) + bytes([t]) + rng.choice([b"", bytes([n]) + fill(n)])
    elif kind == "ff-run":
        v = bytes([lim - 1]) * rng.choice([1, 2, 255, 256, 257])
    elif kind == "00-run":
        v = b"\x00" * rng.choice([1, 3, 255, 256, 257, 510])
    elif kind == "fragment-sized":
        v = bytes([t, lim - 1]) + fill(253)  # exactly one fragment, opening like a full fragment's header
    else:
        v = fill(510) + bytes([t, n]) + fill(n)
    GEN_KINDS[("str:" if text else "bytes:") + kind] += 1
    return v


def str_structured(rng, types):
    if rng.random() < 0.35:
        # multi-byte characters astride the 255-byte fragment boundary
        v = rng.choice(["a" * 254 + "\u00e9", "a" * 253 + "\u20ac", "a" * 254 + "\u20ac" + "b" * 3, "\u00e9" * 128, "\u20ac" * 85, "\u20ac" * 86, "a" * 509 + "\u00e9z",
                        "a" * 252 + "\U0001f3e0", "\x7f" * 255])
        GEN_KINDS["str:multibyte-at-fragment-boundary"] += 1
        return v
    return bytes_structured(rng, types, text=True).decode("ascii")


def rval(rng, tp, depth, with_ids, types=()):
    if typing.get_origin(tp) is abc.Sequence:
        inner = tp.__args__[0]
        if inner is T.u16:
            if not with_ids:
                return None
            return [T.u16(rng.choice([rng.randrange(65536), rng.randrange(256), 0x1000, 0x2000, 257 * rng.randrange(256)])) for _ in range(rng.randint(0, 6))]
        out = []
        for _ in range(rng.randint(1, 3)):
            x = rinst(rng, inner, depth + 1, with_ids)
            if x is not None:
                out.append(x)
        if out and rng.random() < 0.2:
            # list items whose fields are all unset encode to nothing: in leading or middle position they are still
            # delimited by the 00 00 separators (a trailing one is indistinguishable from "no more items" and is not generated)
            try:
                empty = mk(inner, {})
                pos = rng.randrange(0, len(out))
                out[pos:pos] = [empty] * rng.choice([1, 1, 2])
            except TypeError:
                pass
        return out or None
    structured = rng.random() < 0.4
    if tp in SIZES:
        k = SIZES[tp]
        if structured:
            return tp(u128_structured(rng) if k == 16 else int_structured(rng, k, types))
        return tp(rng.choice([0, 1, 255, 256 ** k - 1, rng.randrange(256 ** k)]))
    if tp is T.bu16:
        if structured:
            return T.bu16(int_structured(rng, 2, types))
        return T.bu16(rng.choice([0, 1, 255, 256, 65535, rng.randrange(65536)]))
    if tp is str:
        if structured:
            return str_structured(rng, types)
        base = "".join(rng.choice("abcXYZ09 -é€") for _ in range(rng.choice([1, 3, 40, 255, 256])))
        r = rng.random()
        if r < 0.3:
            # what a decoder might be tempted to tidy up: terminators, padding, line ends, a BOM - at either end or inside
            edge = rng.choice(["\x00", "\x00\x00\x00", " ", "  ", "\n", "\r\n", "\t", "\ufeff", "\x7f", "\u00a0"])
            pos = rng.choice(["end", "end", "start", "mid", "only"])
            base = {"end": base + edge, "start": edge + base, "mid": base[:len(base) // 2] + edge + base[len(base) // 2:], "only": edge}[pos]
        return base
    if tp is bytes:
        if structured:
            return bytes_structured(rng, types)
        return rbytes(rng)
    if isinstance(tp, type) and issubclass(tp, enum.IntEnum):
        return rng.choice(list(tp))
    if isinstance(tp, type) and issubclass(tp, T.TLVStruct):
        return rinst(rng, tp, depth + 1, with_ids)
    raise TypeError(tp)


def tlv_types_of(cls):
    return [int(f.metadata["tlv_type"]) for f, _ in fields_of(cls)]


def rinst(rng, cls, depth=0, with_ids=False):
    """random instance with a non-empty encoding (None if the draw left every field unset)"""
    kw = {}
    fl = fields_of(cls)
    types = [int(f.metadata["tlv_type"]) for f, _ in fl]
    for f, tp in fl:
        if rng.random() < (0.25 if depth < 2 else 0.5):
            continue
        v = rval(rng, tp, depth, with_ids, types)
        if v is not None:
            kw[f.name] = v
    if not kw:
        # force one scalar field so that the encoding is non-empty
        for f, tp in fl:
            v = rval(rng, tp, depth, with_ids, types)
            if v is not None and not (isinstance(v, list) and not v):
                kw[f.name] = v
                break
    if not kw:
        return None
    return mk(cls, kw)


def dup_types(schema_fields):
    ts = [t for _, t, _ in schema_fields]
    return sorted({t for t in ts if ts.count(t) > 1})


def has_sequ16(ft):
    if ft[0] == "sequ16":
        return True
    if ft[0] in ("struct", "seq"):
        return any(has_sequ16(x[2]) for x in ft[1])
    return False


def strip(inst, drop_ids, dup_names):
    """copy of inst without Sequence[u16] fields (drop_ids) and without the earlier field of a duplicated TLV type"""
    kw = {}
    for f, tp in fields_of(type(inst)):
        v = getattr(inst, f.name)
        if v is None:
            continue
        if typing.get_origin(tp) is abc.Sequence:
            inner = tp.__args__[0]
            if inner is T.u16:
                if drop_ids:
                    v = [T.u16(1)]  # a single id without a zero byte is decoded correctly even by the TLV splitter
            else:
                v = [strip(x, drop_ids, dup_names) for x in v]
        elif isinstance(v, T.TLVStruct):
            v = strip(v, drop_ids, dup_names)
        if f.name in dup_names:
            continue
        kw[f.name] = v
    return mk(type(inst), kw)


def earlier_dup_names(cls):
    seen = {}
    out = set()
    for f, _ in fields_of(cls):
        t = int(f.metadata["tlv_type"])
        seen.setdefault(t, []).append(f.name)
    for names in seen.values():
        out.update(names[:-1])
    return out


def explained(cls, inst, encoder, drop_ids, dups):
    """is the mismatch explained by the known finding alone? (the same value without the id lists / the earlier duplicate fields behaves)"""
    try:
        st = strip(inst, drop_ids, earlier_dup_names(cls) if dups else set())
        return impl_decode(cls, encoder(st)) == "ok " + show_struct(st)
    except Exception:  # noqa: BLE001
        return False


def mask(inst):
    return tuple(getattr(inst, f.name) is not None for f, _ in fields_of(type(inst)))


def scramble(obj, rng, depth=0):
    """modify a decoded object in place, nested structs and list items included"""
    import dataclasses
    if depth > 4 or not dataclasses.is_dataclass(obj):
        return
    for f in dataclasses.fields(obj):
        v = getattr(obj, f.name)
        if dataclasses.is_dataclass(v):
            scramble(v, rng, depth + 1)
        elif isinstance(v, list):
            for x in v:
                scramble(x, rng, depth + 1)
            if v:
                v.append(v[0])
        elif isinstance(v, bool) or v is None:
            continue
        elif isinstance(v, int):
            try:
                setattr(obj, f.name, type(v)((int(v) + 1) % 200))
            except Exception:  # noqa: BLE001
                pass
        elif isinstance(v, (bytes, str)):
            setattr(obj, f.name, v[:0])


def impl_decode(cls, data):
    try:
        return "ok " + show_struct(cls.decode(data))
    except T.TlvParseException:
        return "err parse"
    except IndexError:
        return "err index"
    except UnicodeDecodeError:
        return "err unicode"
    except ValueError:
        return "err value"
    except Exception as e:  # noqa: BLE001
        return "exc " + type(e).__name__


def impl_encode(inst):
    try:
        return "ok " + hx(inst.encode())
    except (struct.error, OverflowError):
        return "err struct"
    except AttributeError:
        return "err attr"
    except Exception as e:  # noqa: BLE001
        return "exc " + type(e).__name__


# ---------- streams 'model' / 'ip': structured values read and written through the accessory model
def struct_chars():
    """every characteristic type whose metadata names a TLVStruct (bare struct or array of structs), found by reflection"""
    from aiohomekit.model.characteristics.data import characteristics as table
    out = []
    for uuid in sorted(table):
        meta = table[uuid]
        st = meta.get("struct")
        if isinstance(st, type) and issubclass(st, T.TLVStruct):
            out.append((uuid, str(meta.get("name", uuid)), st, bool(meta.get("array"))))
    return out


def zero_member(tp):
    return next((m for m in tp if int(m) == 0), None)


def zero_tail(inst):
    """in place: make the canonical encoding of inst end in a 00 byte where the type of its last set field allows"""
    fl = [(f, tp) for f, tp in fields_of(type(inst)) if getattr(inst, f.name) is not None]
    if not fl:
        return
    f, tp = fl[-1]
    v = getattr(inst, f.name)
    if typing.get_origin(tp) is abc.Sequence:
        if tp.__args__[0] is T.u16:
            if v:
                v[-1] = T.u16(int(v[-1]) & 0xFF)
        elif v:
            zero_tail(v[-1])
    elif isinstance(v, T.TLVStruct):
        zero_tail(v)
    elif tp in SIZES:
        setattr(inst, f.name, tp(int(v) % (256 ** (SIZES[tp] - 1))))
    elif tp is T.bu16:
        setattr(inst, f.name, T.bu16(int(v) & 0xFF00))
    elif isinstance(tp, type) and issubclass(tp, enum.IntEnum):
        z = zero_member(tp)
        if z is not None:
            setattr(inst, f.name, z)
    elif isinstance(v, str):
        setattr(inst, f.name, v + "\x00")
    elif isinstance(v, (bytes, bytearray)):
        setattr(inst, f.name, bytes(v) + b"\x00")


def zero_fields(inst, rng, p):
    """in place: numbers / enums become 0 with probability p, at every depth (runs of 00 bytes inside and at the end of values)"""
    for f, tp in fields_of(type(inst)):
        v = getattr(inst, f.name)
        if v is None:
            continue
        if typing.get_origin(tp) is abc.Sequence:
            if tp.__args__[0] is not T.u16:
                for x in v:
                    zero_fields(x, rng, p)
        elif isinstance(v, T.TLVStruct):
            zero_fields(v, rng, p)
        elif rng.random() < p:
            if tp in SIZES or tp is T.bu16:
                setattr(inst, f.name, tp(0))
            elif isinstance(tp, type) and issubclass(tp, enum.IntEnum):
                z = zero_member(tp)
                if z is not None:
                    setattr(inst, f.name, z)


def model_item(rng, st):
    x = None
    for _ in range(20):
        x = rinst(rng, st)
        if x is not None:
            break
    if x is None:
        return None
    r = rng.random()
    if r < 0.3:
        zero_tail(x)
    elif r < 0.5:
        zero_fields(x, rng, 0.6)
    return x


def model_value(rng, st, array):
    if not array:
        return model_item(rng, st)
    items = [x for x in (model_item(rng, st) for _ in range(rng.choice([0, 1, 2, 2, 3, 3, 4]))) if x is not None]
    if items and rng.random() < 0.1:
        # an item with no field set encodes to nothing; in leading or middle position the separators still delimit it
        try:
            items.insert(rng.randrange(len(items)), mk(st, {}))
        except TypeError:
            pass
    return items


def small_domain(st, limit=8):
    """all instances of a struct whose fields are all enums (every field set), when there are at most `limit` of them"""
    import itertools
    fl = fields_of(st)
    if not fl or not all(isinstance(tp, type) and issubclass(tp, enum.IntEnum) for _, tp in fl):
        return None
    n = 1
    for _, tp in fl:
        n *= len(list(tp))
    if n == 0 or n > limit:
        return None
    return [dict(zip([f.name for f, _ in fl], combo)) for combo in itertools.product(*[list(tp) for _, tp in fl])]


def model_payload(v, array):
    return b"\x00\x00".join(ref_struct(x) for x in v) if array else ref_struct(v)


def model_show(v, st, array):
    """rendering of a value held by / read from the model (never raises)"""
    try:
        if array:
            if not isinstance(v, (list, tuple)):
                return f"<{type(v).__name__} instead of a list>"
            if not all(isinstance(x, st) for x in v):
                return "<list with items of type " + ",".join(sorted({type(x).__name__ for x in v})) + ">"
            return "[ " + " ".join(show_struct(x) for x in v) + " ]"
        if not isinstance(v, st):
            return f"<{type(v).__name__} instead of {st.__name__}>"
        return show_struct(v)
    except Exception as e:  # noqa: BLE001
        return f"<unrenderable: {type(e).__name__}>"


class RefReadError(Exception):
    pass


def ref_tlvs(data):
    out = []
    i = 0
    while i < len(data):
        if i + 2 > len(data) or i + 2 + data[i + 1] > len(data):
            raise RefReadError("truncated")
        out.append((i, data[i], data[i + 1], data[i + 2:i + 2 + data[i + 1]]))
        i += 2 + data[i + 1]
    return out


def ref_items(data):
    """split a canonical list on its separator items (walking the TLV headers)"""
    items, start = [], 0
    for off, t, n, _ in ref_tlvs(data):
        if t == 0 and n == 0:
            items.append(data[start:off])
            start = off + 2
    items.append(data[start:])
    return items


def ref_read(st, data):
    """independent reader of what ref_struct writes (rebuilds the expected object of a recorded case; the harness's own codec pair)"""
    by_type = {}
    for f, tp in fields_of(st):
        t = int(f.metadata["tlv_type"])
        if t == 0 or t in by_type:
            raise RefReadError("schema outside the reference reader")
        by_type[t] = (f, tp)
    merged = []
    for _, t, n, chunk in ref_tlvs(data):
        if merged and merged[-1][0] == t:
            merged[-1][1] += chunk
        else:
            merged.append([t, bytes(chunk)])
    kw = {}
    for t, b in merged:
        if t not in by_type:
            raise RefReadError("unknown type")
        f, tp = by_type[t]
        if typing.get_origin(tp) is abc.Sequence:
            inner = tp.__args__[0]
            if inner is T.u16:
                v = [T.u16(x[0]) for x in struct.iter_unpack("<H", b)]
            else:
                v = [ref_read(inner, it) for it in ref_items(b)]
        elif tp in SIZES:
            v = tp(int.from_bytes(b, "little"))
        elif tp is T.bu16:
            v = T.bu16(int.from_bytes(b, "big"))
        elif isinstance(tp, type) and issubclass(tp, enum.IntEnum):
            v = tp(b[0])
        elif tp is str:
            v = b.decode()
        elif tp is bytes:
            v = bytes(b)
        elif isinstance(tp, type) and issubclass(tp, T.TLVStruct):
            v = ref_read(tp, b)
        else:
            raise RefReadError("field type")
        kw[f.name] = v
    return mk(st, kw)


def ref_read_value(st, array, payload, want):
    """expected object for a payload, or None when the reference reader does not reproduce the recorded rendering"""
    try:
        obj = [ref_read(st, it) for it in ref_items(payload)] if (array and payload) else ([] if array else ref_read(st, payload))
        return obj if model_show(obj, st, array) == want else None
    except Exception:  # noqa: BLE001
        return None


def b64(b):
    import base64
    return base64.b64encode(bytes(b)).decode()


def unb64(s):
    import base64
    return base64.b64decode(s, validate=True)


MODEL_STORES = ["ctor", "set_value", "setter", "changes", "from_list", "reload"]
IP_STORES = ["listed", "event", "get", "put"]


class ModelRig:
    """one accessory holding every struct-valued characteristic type in one service; values arrive the ways a transport, an
    application or a cache restore delivers them.  `cur` (base64 per type) is the harness's own record of what was stored."""
    AID = 7
    SIID = 30

    def __init__(self, chars, build=True):
        from aiohomekit.model.services import ServicesTypes
        self.stype = ServicesTypes.CAMERA_RTP_STREAM_MANAGEMENT
        self.chars = chars
        self.iids = {c[0]: 31 + k for k, c in enumerate(chars)}
        self.cur = {}
        self.accs = None
        if build:
            self._programmatic()

    def _programmatic(self):
        from aiohomekit.model import Accessories, Accessory
        a = Accessory(self.AID)
        s = a.add_service(self.stype, iid=self.SIID)
        for uuid, _, _, _ in self.chars:
            kw = {"iid": self.iids[uuid]}
            if uuid in self.cur:
                kw["value"] = self.cur[uuid]
            s.add_char(uuid, **kw)
        self.accs = Accessories()
        self.accs.add_accessory(a)

    def entity_map(self):
        rows = []
        for uuid, _, _, _ in self.chars:
            row = {"iid": self.iids[uuid], "type": uuid, "perms": ["pr", "pw", "ev"], "format": "tlv8"}
            if uuid in self.cur:
                row["value"] = self.cur[uuid]
            rows.append(row)
        return [{"aid": self.AID, "services": [{"iid": self.SIID, "type": self.stype, "characteristics": rows}]}]

    def char(self, uuid):
        return self.accs.aid(self.AID).characteristics.iid(self.iids[uuid])

    def store(self, how, uuid, value):
        from aiohomekit import hkjson
        from aiohomekit.model import Accessories
        if how == "ctor":
            self.cur[uuid] = value
            self._programmatic()
        elif how == "from_list":
            self.cur[uuid] = value
            self.accs = Accessories.from_list(hkjson.loads(hkjson.dumps(self.entity_map())))
        else:
            self.cur[uuid] = value
            if how == "set_value":
                self.char(uuid).set_value(value)
            elif how == "setter":
                self.char(uuid).value = value
            elif how == "changes":
                self.accs.process_changes({(self.AID, self.iids[uuid]): {"value": value}})
            elif how == "reload":
                # persisted entity map of a running model, restored (what the characteristic cache does across restarts)
                self.char(uuid).set_value(value)
                self.accs = Accessories.from_list(hkjson.loads(hkjson.dumps(self.accs.serialize())))
            else:
                raise ValueError(how)


def model_accessors(accs, aid, siid, iid, uuid, stype):
    def acc():
        return accs.aid(aid)
    return [
        ("Characteristic.value", lambda: acc().characteristics.iid(iid).value),
        ("Characteristic.get_value()", lambda: acc().services.iid(siid).get_char_by_iid(iid).get_value()),
        ("Service.value(type)", lambda: acc().services.iid(siid).value(uuid)),
        ("Service[type].value", lambda: acc().services.iid(siid)[uuid].value),
        ("Service.characteristics.first(type).value", lambda: acc().services.iid(siid).characteristics.first(char_types=[uuid]).value),
        ("Services.first(service_type).value(type)", lambda: acc().services.first(service_type=stype).value(uuid)),
        ("iteration over accessories/services/characteristics", lambda: next(c for a in accs for s in a.services for c in s.characteristics if (a.aid, c.iid) == (aid, iid)).value),
    ]


def model_read_all(accs, aid, siid, iid, uuid, stype, name, st, array, want, want_obj, how, rng, full=True):
    """read one characteristic back through the model's accessors; problems as (signature, text)"""
    out = []
    via = f"stored via {how}"
    accessors = model_accessors(accs, aid, siid, iid, uuid, stype)
    for label, fn in (accessors if full else accessors[:1] + accessors[2:3]):
        try:
            got = fn()
        except Exception as e:  # noqa: BLE001
            out.append((f"model/{name}/raised-{type(e).__name__}", f"{name} ({via}): {label} raised {type(e).__name__}({str(e)[:80]}) on a conformant accessory's value; encoded message {want[:160]}"))
            continue
        r = model_show(got, st, array)
        if r != want:
            out.append((f"model/{name}/differs", f"{name} ({via}): {label} returns {r[:160]} instead of the encoded message {want[:160]}"))
    if not full:
        return out
    # reading is a function of the stored bytes: modifying what one read returned must not change the next read
    try:
        first = accs.aid(aid).characteristics.iid(iid).value
        for x in (first if isinstance(first, list) else [first]):
            scramble(x, rng)
        if isinstance(first, list):
            first.append(first[0] if first else None)
        r = model_show(accs.aid(aid).characteristics.iid(iid).value, st, array)
        if r != want and not any(s.endswith("/differs") for s, _ in out):
            out.append((f"model/{name}/read-not-pure", f"{name} ({via}): after the object returned by one read was modified, the next read returns {r[:160]} instead of {want[:160]}"))
    except Exception:  # noqa: BLE001
        pass  # a raising accessor is already reported above
    # selecting services by the value of a structured characteristic compares the decoded message with the caller's
    if want_obj is not None:
        try:
            svc = accs.aid(aid).services.first(characteristics={uuid: want_obj})
            hits = list(accs.aid(aid).services.filter(service_type=stype, characteristics={uuid: want_obj}))
            if svc is None or svc.iid != siid or [s.iid for s in hits] != [siid]:
                if not out:
                    out.append((f"model/{name}/not-equal", f"{name} ({via}): Services.first/filter(characteristics={{type: message}}) does not find the service holding the encoding of that very message {want[:160]} (decoded value != encoded value)"))
        except Exception as e:  # noqa: BLE001
            if not out:
                out.append((f"model/{name}/raised-{type(e).__name__}", f"{name} ({via}): Services.first/filter(characteristics=...) raised {type(e).__name__}({str(e)[:80]}); encoded message {want[:160]}"))
    return out


def model_write_check(svc, aid, iid, uuid, name, value, payload, want):
    """the model's write path (Service.build_update -> put_characteristics payload) hands the encoding on unchanged"""
    try:
        upd = svc.build_update({uuid: value})
    except Exception as e:  # noqa: BLE001
        return [(f"model/{name}/write-refused", f"{name}: Service.build_update refuses the canonical encoding of {want[:160]}: {type(e).__name__}({str(e)[:80]})")], None
    try:
        ok = len(upd) == 1 and tuple(upd[0][:2]) == (aid, iid) and unb64(upd[0][2]) == payload
    except Exception:  # noqa: BLE001
        ok = False
    if not ok:
        return [(f"model/{name}/write-altered", f"{name}: Service.build_update turns the encoding of {want[:160]} into {str(upd)[:160]}")], None
    return [], upd


def run_model_history(chars, steps, seed):
    """steps: [uuid, how, payload hex, want rendering]; every step stores one value and reads every stored value back"""
    import random
    rng = random.Random(seed)
    by = {c[0]: c for c in chars}
    try:
        rig = ModelRig(chars)
    except Exception as e:  # noqa: BLE001
        return [(f"model/setup/{type(e).__name__}", f"building an accessory with the structured characteristic types raised {type(e).__name__}({str(e)[:80]})")]
    wants = {}
    problems = []
    for uuid, how, ph, want in steps:
        if uuid not in by or how not in MODEL_STORES:
            continue
        _, name, st, array = by[uuid]
        payload = unhex(ph)
        try:
            rig.store(how, uuid, b64(payload))
        except Exception as e:  # noqa: BLE001
            problems.append((f"model/{name}/store-raised-{type(e).__name__}", f"{name}: storing a conformant accessory's value via {how} raised {type(e).__name__}({str(e)[:80]}); encoded message {want[:160]}"))
            break
        wants[uuid] = (want, ref_read_value(st, array, payload, want), how)
        for u2, (w2, o2, h2) in wants.items():
            _, n2, st2, arr2 = by[u2]
            problems += model_read_all(rig.accs, rig.AID, rig.SIID, rig.iids[u2], u2, rig.stype, n2, st2, arr2, w2, o2, h2, rng, full=(u2 == uuid))
        try:
            svc = rig.accs.aid(rig.AID).services.iid(rig.SIID)
        except Exception:  # noqa: BLE001
            svc = None
        if svc is not None:
            problems += model_write_check(svc, rig.AID, rig.iids[uuid], uuid, name, b64(payload), payload, want)[0]
        if problems:
            break
    return problems


def unhex(s):
    return b"" if s in ("-", "") else bytes.fromhex(s)


def lib_encode(obj, array):
    return b"\x00\x00".join(x.encode() for x in obj) if array else obj.encode()


async def _ip_history(loop, chars, steps, seed):
    """the same histories end to end: unpatched IpPairing (pair-verify, encrypted frames, JSON) against the scaffold accessory"""
    import asyncio
    import random
    from unittest.mock import MagicMock

    from harness import simnet
    from harness.acc import Accessory as Scaffold, http
    from harness.rcsim import settle

    from aiohomekit.characteristic_cache import CharacteristicCacheMemory
    from aiohomekit.controller.ip.pairing import IpPairing

    rnd = random.Random(seed)
    by = {c[0]: c for c in chars}
    rig = ModelRig(chars, build=False)  # only its entity map / ids are used: the accessory's database
    net = simnet.Net(loop)
    acc = Scaffold(loop, net, lambda n: bytes(rnd.randrange(256) for _ in range(n)))
    puts = []
    iid_to_uuid = {i: u for u, i in rig.iids.items()}

    def responder(s, method, target, body):
        if target == "/characteristics" and method == "PUT":
            d = json.loads(body)
            puts.append(d)
            for c in d.get("characteristics", []):
                if "value" in c and c.get("iid") in iid_to_uuid:
                    rig.cur[iid_to_uuid[c["iid"]]] = c["value"]
            return b"HTTP/1.1 204 No Content\r\n\r\n"
        if target.startswith("/characteristics") and method == "GET":
            ids = [x.split(".") for x in target.split("id=")[1].split("&")[0].split(",")]
            rows = [{"aid": int(a), "iid": int(i), "value": rig.cur.get(iid_to_uuid.get(int(i)), "")} for a, i in ids]
            return http(json.dumps({"characteristics": rows}).encode(), b"application/hap+json")
        if target.startswith("/accessories"):
            return http(json.dumps({"accessories": rig.entity_map()}).encode(), b"application/hap+json")
        return http(b"{}", b"application/hap+json")
    acc.responder = responder
    ctrl = MagicMock()
    ctrl._char_cache = CharacteristicCacheMemory()
    problems = []
    wants = {}
    with net.patched():
        p = IpPairing(ctrl, acc.pairing_data(["10.0.0.1"]))
        events = []

        def listener(ev):
            # what an application does with every event / write echo: apply it to the pairing's model
            events.append(ev)
            if p.accessories:
                p.accessories.process_changes(ev)
        p.dispatcher_connect(listener)
        try:
            await asyncio.wait_for(p.list_accessories_and_characteristics(), 120)
        except Exception as e:  # noqa: BLE001
            return [(f"ip/setup/{type(e).__name__}", f"listing an accessory database with structured characteristics raised {type(e).__name__}({str(e)[:80]})")]
        for uuid, how, ph, want in steps:
            if uuid not in by or how not in IP_STORES:
                continue
            _, name, st, array = by[uuid]
            payload = unhex(ph)
            iid = rig.iids[uuid]
            key = (rig.AID, iid)
            obj = ref_read_value(st, array, payload, want)
            try:
                if how == "listed":
                    rig.cur[uuid] = b64(payload)
                    await asyncio.wait_for(p.list_accessories_and_characteristics(), 120)
                elif how == "event":
                    rig.cur[uuid] = b64(payload)
                    n0 = len(events)
                    acc.event(net.open[-1], [{"aid": rig.AID, "iid": iid, "value": b64(payload)}])
                    await settle(loop)
                    got = [e[key].get("value") for e in events[n0:] if key in e]
                    if len(got) != 1 or unb64(got[0]) != payload:
                        problems.append((f"ip/{name}/event-value", f"{name}: an event carrying the encoding of {want[:160]} reaches the listener as {str(got)[:160]}"))
                elif how == "get":
                    rig.cur[uuid] = b64(payload)
                    res = await asyncio.wait_for(p.get_characteristics([key]), 120)
                    if key not in res or "value" not in res[key] or unb64(res[key]["value"]) != payload:
                        problems.append((f"ip/{name}/get-value", f"{name}: get_characteristics returns {str(res)[:160]} for a characteristic holding the encoding of {want[:160]}"))
                    else:
                        p.accessories.process_changes(res)
                elif how == "put":
                    if obj is None:
                        continue
                    try:
                        enc = lib_encode(obj, array)
                    except Exception as e:  # noqa: BLE001
                        problems.append((f"ip/{name}/encode-raised-{type(e).__name__}", f"{name}: encoding {want[:160]} for a write raised {type(e).__name__}"))
                        break
                    svc = p.accessories.aid(rig.AID).services.iid(rig.SIID)
                    pr, upd = model_write_check(svc, rig.AID, iid, uuid, name, b64(enc), payload, want)
                    if pr:
                        problems += [(s.replace("model/", "ip/", 1), t) for s, t in pr]
                        break
                    n0 = len(puts)
                    res = await asyncio.wait_for(p.put_characteristics(upd), 120)
                    rows = [c for d in puts[n0:] for c in d.get("characteristics", [])]
                    try:
                        ok = len(rows) == 1 and (rows[0].get("aid"), rows[0].get("iid")) == key and unb64(rows[0].get("value")) == payload
                    except Exception:  # noqa: BLE001
                        ok = False
                    if not ok or res:
                        problems.append((f"ip/{name}/write-altered", f"{name}: writing {want[:160]} (put_characteristics of build_update) sends {str(rows)[:200]} / returns {str(res)[:80]} instead of the canonical encoding {payload.hex()[:80]}"))
            except asyncio.TimeoutError:
                problems.append((f"ip/{name}/no-answer", f"{name}: {how} of the encoding of {want[:160]} did not complete"))
                break
            except Exception as e:  # noqa: BLE001
                problems.append((f"ip/{name}/{how}-raised-{type(e).__name__}", f"{name}: {how} of a conformant accessory's value raised {type(e).__name__}({str(e)[:80]}); encoded message {want[:160]}"))
                break
            if problems:
                break
            wants[uuid] = (want, obj, how)
            accs = p.accessories
            for u2, (w2, o2, h2) in wants.items():
                _, n2, st2, arr2 = by[u2]
                pr = model_read_all(accs, rig.AID, rig.SIID, rig.iids[u2], u2, rig.stype, n2, st2, arr2, w2, o2, h2, rnd, full=(u2 == uuid))
                problems += [(s.replace("model/", "ip/", 1), t) for s, t in pr]
            if problems:
                break
        try:
            await asyncio.wait_for(p.close(), 120)
        except Exception:  # noqa: BLE001
            pass
    return problems


def run_ip_history(loop, chars, steps, seed):
    import asyncio
    try:
        return loop.run_until_complete(_ip_history(loop, chars, steps, seed))
    finally:
        pend = [t for t in asyncio.all_tasks(loop) if not t.done()]
        for t in pend:
            t.cancel()
        if pend:
            loop.run_until_complete(asyncio.gather(*pend, return_exceptions=True))


def model_histories(ctx, chars):
    """(kind, steps, objects) - steps as recorded in the case; objects only for the distribution counters"""
    rng = ctx.rng
    out = []
    # exhaustive part: structs with a handful of values - every value, and for arrays every list of 0..3 of them (every
    # value in every position), each stored through every path in turn
    k = 0
    for uuid, name, st, array in chars:
        dom = small_domain(st)
        if dom is None:
            continue
        import itertools
        combos = [c for n in range(0, 4) for c in itertools.product(dom, repeat=n)] if array else [(d,) for d in dom]
        if len(combos) > 700:
            combos = rng.sample(combos, 700)
        for combo in combos:
            v = [mk(st, kw) for kw in combo] if array else mk(st, combo[0])
            for how in (MODEL_STORES if len(combos) * len(MODEL_STORES) <= 1500 else [MODEL_STORES[k % len(MODEL_STORES)]]):
                out.append(("exhaustive", [[uuid, how, hx(model_payload(v, array)), model_show(v, st, array)]], [(name, array, v)]))
            k += 1
    # random histories of 1..4 stores over all the types
    per = ctx.budget(120, 3000)
    for uuid, name, st, array in chars:
        for _ in range(per):
            steps, objs = [], []
            for j in range(rng.choice([1, 1, 2, 3, 4])):
                u, n2, st2, arr2 = (uuid, name, st, array) if (j == 0 or rng.random() < 0.6) else rng.choice(chars)
                v = model_value(rng, st2, arr2)
                if v is None:
                    continue
                steps.append([u, rng.choice(MODEL_STORES), hx(model_payload(v, arr2)), model_show(v, st2, arr2)])
                objs.append((n2, arr2, v))
            if steps:
                out.append(("random", steps, objs))
    return out


def ip_histories(ctx, chars):
    rng = ctx.rng
    out = []
    for uuid, name, st, array in chars:
        for _ in range(ctx.budget(12, 300)):
            steps, objs = [], []
            for j in range(rng.choice([1, 2, 3, 4])):
                u, n2, st2, arr2 = (uuid, name, st, array) if (j == 0 or rng.random() < 0.6) else rng.choice(chars)
                v = model_value(rng, st2, arr2)
                if v is None:
                    continue
                steps.append([u, rng.choice(IP_STORES), hx(model_payload(v, arr2)), model_show(v, st2, arr2)])
                objs.append((n2, arr2, v))
            if steps:
                out.append(("random", steps, objs))
    return out


def count_history(ctx, stream, kind, steps, objs):
    ctx.evaluations += len(steps)
    ctx.dist[f"{stream}:{kind}"] += 1
    for (u, how, ph, want), (name, array, v) in zip(steps, objs):
        payload = unhex(ph)
        n = len(v) if array else -1
        tail0 = bool(payload) and payload[-1] == 0
        inner00 = b"\x00\x00" in (payload if not array else b"".join(ref_struct(x) for x in v))
        size = "0" if not payload else ("<=255" if len(payload) <= 255 else ">255")
        ctx.dist[f"{stream}:store:{how}"] += 1
        ctx.dist[f"{stream}:char:{name}"] += 1
        if array:
            ctx.dist[f"{stream}:items:{n}"] += 1
            if any(ref_struct(x).endswith(b"\x00") for x in v[:-1]):
                ctx.dist[f"{stream}:item-ending-00-before-separator"] += 1
        if tail0:
            ctx.dist[f"{stream}:payload-ending-00"] += 1
        if inner00:
            ctx.dist[f"{stream}:00-00-inside-a-value"] += 1
        ctx.dist[f"{stream}:size:{size}"] += 1
        ctx.nontrivial.add((stream, name, how, n, tail0, inner00, size))


def model_streams(ctx):
    chars = struct_chars()
    ctx.notes.append(f"{len(chars)} struct-valued characteristic types found by reflection: " + ", ".join(n + ("[]" if a else "") for _, n, _, a in chars))
    if not chars:
        return
    reported = Counter()

    def report(stream, problems, steps, seed, rerun):
        seen = set()
        for sig, text in problems:
            if sig in seen or reported[sig] >= 3:
                continue
            seen.add(sig)
            reported[sig] += 1
            small = steps
            if len(steps) > 1:
                # shortest sub-history that still shows the same failure
                small = shrink_list(steps, lambda cand, sig=sig: any(s2 == sig for s2, _ in rerun(cand)), budget=24)
                text = next((t for s2, t in rerun(small) if s2 == sig), None) or text
                if text is None or not small:
                    small = steps
            ctx.violation(sig, text, {"stream": stream, "steps": small, "seed": seed})
    try:
        # observation only: the BLE value converter's text form of a tlv8 value, read through the model accessor
        from aiohomekit.controller.ble.values import from_bytes
        rig = ModelRig(chars)
        uuid, name, st, array = chars[0]
        v = model_item(ctx.rng, st)
        rig.store("set_value", uuid, from_bytes(rig.char(uuid), ref_struct(v)))
        try:
            ok = model_show(rig.char(uuid).value, st, array) == model_show([v] if array else v, st, array)
            ctx.notes.append(f"observed (not asserted): a tlv8 value in the text form of the BLE value converter reads back {'equal' if ok else 'different'} through Characteristic.value")
        except Exception as e:  # noqa: BLE001
            ctx.notes.append(f"observed (not asserted): a tlv8 value in the text form of the BLE value converter (hex) makes Characteristic.value raise {type(e).__name__}")
    except Exception:  # noqa: BLE001
        pass
    sampled = False
    for i, (kind, steps, objs) in enumerate(model_histories(ctx, chars)):
        seed = ctx.seed * 7919 + i
        count_history(ctx, "model", kind, steps, objs)
        report("model", run_model_history(chars, steps, seed), steps, seed, lambda cand, seed=seed: run_model_history(chars, cand, seed))
        if kind == "random" and not sampled:
            sampled = True
            ctx.sample({"stream": "model", "steps": [[u, h, (p if len(p) < 200 else p[:200] + "..."), (w if len(w) < 200 else w[:200] + "...")] for u, h, p, w in steps]})
    import asyncio

    from harness import simnet
    loop = simnet.VLoop()
    asyncio.set_event_loop(loop)
    try:
        for i, (kind, steps, objs) in enumerate(ip_histories(ctx, chars)):
            seed = ctx.seed * 104729 + i
            count_history(ctx, "ip", kind, steps, objs)
            report("ip", run_ip_history(loop, chars, steps, seed), steps, seed, lambda cand, seed=seed: run_ip_history(loop, chars, cand, seed))
    finally:
        asyncio.set_event_loop(None)
        loop.close()


# ---------- stream 'wire': hand-built byte strings.  The reference side never goes through the library's classes: a message is a
# plain tree {field name: value} (ints, bytes, str, nested trees, lists of trees, lists of ids) holding exactly the items that are
# on the wire, written by t_bytes from the reflected schema; what decode() returns is compared with the tree field by field
def is_seq(tp):
    return typing.get_origin(tp) is abc.Sequence


def is_struct(tp):
    return isinstance(tp, type) and issubclass(tp, T.TLVStruct)


def is_enum(tp):
    return isinstance(tp, type) and issubclass(tp, enum.IntEnum)


def t_value(rng, tp, depth, with_ids, types):
    if is_seq(tp):
        inner = tp.__args__[0]
        if inner is T.u16:
            if not with_ids:
                return None
            return [rng.choice([rng.randrange(65536), rng.randrange(256), 0x1000, 0x2000, 257 * rng.randrange(256)]) for _ in range(rng.randint(1, 6))]
        out = [x for x in (t_tree(rng, inner, depth + 1, with_ids) for _ in range(rng.randint(1, 3))) if x]
        if out and rng.random() < 0.2:
            pos = rng.randrange(0, len(out))
            out[pos:pos] = [{} for _ in range(rng.choice([1, 1, 2]))]  # items with nothing set, in leading / middle position
        return out or None
    if is_struct(tp):
        return t_tree(rng, tp, depth + 1, with_ids) or None
    v = rval(rng, tp, depth, with_ids, types)
    if isinstance(v, int):
        return int(v)
    return v


def t_tree(rng, cls, depth=0, with_ids=False, subset=None):
    """random tree; with `subset` (top level) exactly those fields are present"""
    fl = fields_of(cls)
    types = [int(f.metadata["tlv_type"]) for f, _ in fl]
    tree = {}
    for f, tp in fl:
        if subset is not None:
            if f.name not in subset:
                continue
            v = None
            for _ in range(8):
                v = t_value(rng, tp, depth, True if (is_seq(tp) and tp.__args__[0] is T.u16) else with_ids, types)
                if v is not None:
                    break
        else:
            if rng.random() < (0.25 if depth < 2 else 0.5):
                continue
            v = t_value(rng, tp, depth, with_ids, types)
        if v is not None:
            tree[f.name] = v
    if subset is None and not tree:
        for f, tp in fl:
            v = t_value(rng, tp, depth, with_ids, types)
            if v is not None:
                tree[f.name] = v
                break
    return tree


def t_val_bytes(v, tp, order, narrow):
    if is_seq(tp):
        inner = tp.__args__[0]
        if inner is T.u16:
            return b"".join(int(x).to_bytes(2, "little") for x in v)
        return b"\x00\x00".join(t_bytes(inner, x, order, narrow) for x in v)
    if is_struct(tp):
        return t_bytes(tp, v, order, narrow)
    if tp in SIZES:
        k = SIZES[tp]
        if narrow and k == 16:
            # the short form of a type, as accessories on Thread write it: the fewest of 1, 2, 4, 8 bytes that hold the value
            k = next((w for w in (1, 2, 4, 8) if v < 256 ** w), 16)
        return int(v).to_bytes(k, "little")
    if tp is T.bu16:
        return int(v).to_bytes(2, "big")
    if is_enum(tp):
        return bytes([int(v)])
    if tp is str:
        return v.encode("utf-8")
    return bytes(v)


def t_bytes(cls, tree, order=None, narrow=False):
    """the wire form of a tree: declaration order (canonical) or, with `order` (a Random), the items of every message in an
    order of the writer's choosing (the fragments of one value stay together)"""
    fl = [(f, tp) for f, tp in fields_of(cls) if f.name in tree]
    if order is not None:
        order.shuffle(fl)
    return b"".join(ref_frag(int(f.metadata["tlv_type"]), t_val_bytes(tree[f.name], tp, order, narrow)) for f, tp in fl)


def t_show_val(v, tp):
    if v is None:
        return "_"
    if is_seq(tp):
        inner = tp.__args__[0]
        if inner is T.u16:
            return "( " + " ".join(str(int(x)) for x in v) + " )"
        return "[ " + " ".join(t_show(inner, x) for x in v) + " ]"
    if is_struct(tp):
        return t_show(tp, v)
    if isinstance(v, int):
        return f"i{int(v)}"
    if isinstance(v, str):
        return "x" + hx(v.encode("utf-8"))
    return "x" + hx(v)


def t_show(cls, tree):
    return "{ " + " ".join(t_show_val(tree.get(f.name), tp) for f, tp in fields_of(cls)) + " }"


def t_obj(cls, tree):
    """the library object holding the tree's values; everything else explicitly absent"""
    kw = {}
    for f, tp in fields_of(cls):
        if f.name not in tree:
            continue
        v = tree[f.name]
        if is_seq(tp):
            inner = tp.__args__[0]
            kw[f.name] = [T.u16(x) for x in v] if inner is T.u16 else [t_obj(inner, x) for x in v]
        elif is_struct(tp):
            kw[f.name] = t_obj(tp, v)
        elif tp in SIZES or tp is T.bu16 or is_enum(tp):
            kw[f.name] = tp(v)
        else:
            kw[f.name] = v
    return mk(cls, kw)


def t_has_ids(cls, tree):
    for f, tp in fields_of(cls):
        if f.name not in tree:
            continue
        if is_seq(tp):
            inner = tp.__args__[0]
            if inner is T.u16 or any(t_has_ids(inner, x) for x in tree[f.name]):
                return True
        elif is_struct(tp) and t_has_ids(tp, tree[f.name]):
            return True
    return False


def t_strip(cls, tree, drop_ids, dups):
    """the tree without what the two recorded findings are about: id lists reduced to one id without a zero byte, the earlier
    field of a duplicated item type left out"""
    drop = earlier_dup_names(cls) if dups else set()
    out = {}
    for f, tp in fields_of(cls):
        if f.name not in tree or f.name in drop:
            continue
        v = tree[f.name]
        if is_seq(tp):
            inner = tp.__args__[0]
            v = ([1] if drop_ids else v) if inner is T.u16 else [t_strip(inner, x, drop_ids, dups) for x in v]
        elif is_struct(tp):
            v = t_strip(tp, v, drop_ids, dups)
        out[f.name] = v
    return out


def t_shorten(cls, tree):
    """in place: 128-bit values in their short form where they have one (Apple-defined types), else cut to 16 bits"""
    n = 0
    for f, tp in fields_of(cls):
        if f.name not in tree:
            continue
        v = tree[f.name]
        if is_seq(tp):
            if tp.__args__[0] is not T.u16:
                n += sum(t_shorten(tp.__args__[0], x) for x in v)
        elif is_struct(tp):
            n += t_shorten(tp, v)
        elif SIZES.get(tp) == 16:
            tree[f.name] = (v >> 96) if (v & LOW96 == HAP_BASE and v >> 96) else (v if v < (1 << 64) else v & 0xFFFF)
            n += 1
    return n


def t_json(cls, tree):
    out = {}
    for f, tp in fields_of(cls):
        if f.name not in tree:
            continue
        v = tree[f.name]
        if is_seq(tp):
            inner = tp.__args__[0]
            out[f.name] = [int(x) for x in v] if inner is T.u16 else [t_json(inner, x) for x in v]
        elif is_struct(tp):
            out[f.name] = t_json(tp, v)
        elif isinstance(v, int):
            out[f.name] = str(int(v))
        elif isinstance(v, str):
            out[f.name] = hx(v.encode("utf-8"))
        else:
            out[f.name] = hx(v)
    return out


def t_unjson(cls, tj):
    out = {}
    for f, tp in fields_of(cls):
        if f.name not in tj:
            continue
        v = tj[f.name]
        if is_seq(tp):
            inner = tp.__args__[0]
            out[f.name] = [int(x) for x in v] if inner is T.u16 else [t_unjson(inner, x) for x in v]
        elif is_struct(tp):
            out[f.name] = t_unjson(tp, v)
        elif tp in SIZES or tp is T.bu16 or is_enum(tp):
            out[f.name] = int(v)
        elif tp is str:
            out[f.name] = unhex(v).decode("utf-8")
        else:
            out[f.name] = unhex(v)
    return out


def brief(v):
    r = repr(v)
    return r if len(r) <= 70 else r[:67] + "..."


def t_diff(obj, cls, tree, path=""):
    """differences between what decode() returned and the items that were on the wire: (kind, path, text)"""
    if not isinstance(obj, cls):
        return [("value", path or ".", f"{path or 'message'} is a {type(obj).__name__} instead of a {cls.__name__}")]
    out = []
    schema = {f.name for f, _ in fields_of(cls)}
    for f in dataclasses.fields(cls):
        if f.init and f.name not in schema and getattr(obj, f.name, None) is not None:
            out.append(("absent", f"{path}.{f.name}", f"{path}.{f.name} = {brief(getattr(obj, f.name))} although no such item can be on the wire"))
    for f, tp in fields_of(cls):
        p = f"{path}.{f.name}"
        got = getattr(obj, f.name, None)
        if f.name not in tree:
            if got is not None:
                out.append(("absent", p, f"{p} = {brief(got)} although the message holds no item of type {int(f.metadata['tlv_type'])} (absent must decode as None)"))
            continue
        want = tree[f.name]
        if got is None:
            out.append(("lost", p, f"{p} = None although the message holds item {int(f.metadata['tlv_type'])} = {t_show_val(want, tp)[:70]}"))
            continue
        if is_seq(tp):
            inner = tp.__args__[0]
            if inner is T.u16:
                ok = isinstance(got, (list, tuple)) and all(isinstance(x, int) for x in got) and [int(x) for x in got] == list(want)
                if not ok:
                    out.append(("ids", p, f"{p} = {brief(got)} instead of the ids {want}"))
            elif not isinstance(got, (list, tuple)) or len(got) != len(want):
                out.append(("value", p, f"{p} holds {len(got) if isinstance(got, (list, tuple)) else type(got).__name__} items instead of {len(want)}"))
            else:
                for i, (g, w) in enumerate(zip(got, want)):
                    out += t_diff(g, inner, w, f"{p}[{i}]")
        elif is_struct(tp):
            out += t_diff(got, tp, want, p)
        elif tp in SIZES or tp is T.bu16 or is_enum(tp):
            if not (isinstance(got, int) and not isinstance(got, bool) and int(got) == want):
                out.append(("value", p, f"{p} = {brief(got)} ({hex(got) if isinstance(got, int) else type(got).__name__}) instead of the encoded {want} ({hex(want)})"))
        elif tp is str:
            if not (isinstance(got, str) and got == want):
                out.append(("value", p, f"{p} = {brief(got)} instead of the encoded text {brief(want)}"))
        else:
            if not (isinstance(got, (bytes, bytearray)) and bytes(got) == want):
                out.append(("value", p, f"{p} = {brief(got)} instead of the encoded bytes {brief(want)}"))
    return out


WIRE_KINDS = {"absent": "absent-item-decoded-as-value", "lost": "present-item-decoded-as-absent", "value": "item-value-differs", "ids": "item-value-differs"}


def wire_decode_diff(cls, tree, data):
    """(exception name or None, differences)"""
    try:
        obj = cls.decode(data)
    except Exception as e:  # noqa: BLE001
        return type(e).__name__, []
    try:
        return None, t_diff(obj, cls, tree)
    except Exception as e:  # noqa: BLE001
        return None, [("value", ".", f"the decoded message cannot be inspected: {type(e).__name__}({str(e)[:60]})")]


def wire_problems(cls, name, tree, data, variant):
    """oracles of the wire stream for one hand-built message; [(signature, text)]"""
    short = name.split(".")[-1]
    out = []
    dups = bool(dup_types_of(cls))
    ids = t_has_ids(cls, tree)
    how = {"canonical": "items in declaration order", "permuted": "items in an order of the writer's choosing", "narrow": "128-bit types in their short form"}.get(variant, variant)

    def known(check):
        """signature suffix when the failure is explained by a recorded finding alone, else None"""
        if ids:
            t2 = t_strip(cls, tree, True, dups)
            if check(t2):
                return "seqU16"
        if dups:
            t2 = t_strip(cls, tree, False, True)
            if t2 != tree and check(t2):
                return "duplicate-type-" + "-".join(map(str, dup_types_of(cls)))
        return None
    exc, diffs = wire_decode_diff(cls, tree, data)
    if exc or diffs:
        def dec_ok(t2):
            return wire_decode_diff(cls, t2, t_bytes(cls, t2, None, variant == "narrow")) == (None, [])
        k = known(dec_ok)
        if k == "seqU16":
            out.append((f"peer/wire/{short}/seqU16", f"{name}: id list decoded with the TLV splitter ({exc or diffs[0][2]})"))
        elif k:
            out.append((f"wire/{short}/{k}", f"{name}: {exc or diffs[0][2]}"))
        elif exc:
            out.append((f"wire/{short}/raised-{exc}", f"{name}: decoding a conformant peer's message ({how}; items present: {', '.join(tree) or 'none'}) raised {exc}; bytes {hx(data)[:120]}"))
        else:
            seen = set()
            for kind, _, text in diffs:
                if kind in seen:
                    continue
                seen.add(kind)
                out.append((f"wire/{short}/{WIRE_KINDS[kind]}", f"{name}: decoding {hx(data)[:80]}{'...' if len(data) > 40 else ''} ({how}): {text}"))
    if variant != "canonical" or ids:
        return out
    # the other direction: the library's own object for the same tree (every other field explicitly None)
    try:
        obj = t_obj(cls, tree)
    except Exception as e:  # noqa: BLE001
        return out + [(f"wire/{short}/construct-raised-{type(e).__name__}", f"{name}: building the message with fields {', '.join(tree) or 'none'} set and all others None raised {type(e).__name__}({str(e)[:80]})")]
    try:
        enc = obj.encode()
    except Exception as e:  # noqa: BLE001
        return out + [(f"wire/{short}/encode-raised-{type(e).__name__}", f"{name}: encode() of a message with fields {', '.join(tree) or 'none'} set raised {type(e).__name__}({str(e)[:80]})")]
    if bytes(enc) != data:
        out.append((f"wire/{short}/not-canonical", f"{name}: encode() of the message with fields {', '.join(tree) or 'none'} set gives {hx(enc)[:100]} instead of the canonical {hx(data)[:100]}"))
    try:
        back = cls.decode(bytes(enc))
        equal = (back == obj)
    except Exception as e:  # noqa: BLE001
        back, equal = None, None
        if not exc:
            out.append((f"wire/{short}/raised-{type(e).__name__}", f"{name}: decode(encode(m)) raised {type(e).__name__} for m with fields {', '.join(tree) or 'none'} set"))
    if equal is False and not any("/item-value-differs" in s_ or "/absent-item" in s_ or "/present-item" in s_ or "/duplicate-type" in s_ for s_, _ in out):
        def rt_ok(t2):
            try:
                o2 = t_obj(cls, t2)
                return cls.decode(o2.encode()) == o2
            except Exception:  # noqa: BLE001
                return False
        k = known(rt_ok)
        out.append((f"wire/{short}/" + (k or "roundtrip-unequal"), f"{name}: decode(encode(m)) != m for m with fields {', '.join(tree) or 'none'} set: {brief(back)}"))
    return out


def dup_types_of(cls):
    ts = [int(f.metadata["tlv_type"]) for f, _ in fields_of(cls)]
    return sorted({t for t in ts if ts.count(t) > 1})


def wire_subsets(rng, names, extra):
    import itertools
    n = len(names)
    if n <= 5:
        return [set(c) for k in range(n + 1) for c in itertools.combinations(names, k)]
    out = [set(), set(names)] + [{x} for x in names] + [set(names) - {x} for x in names]
    for _ in range(extra):
        p = rng.choice([0.15, 0.5, 0.85])
        out.append({x for x in names if rng.random() < p})
    return out


def wire_case(name, cls, tree, data, variant):
    return {"stream": "wire", "cls": name, "variant": variant, "data": hx(data), "tree": t_json(cls, tree), "want": ("ok " + t_show(cls, tree))[:3000]}


def wire_stream(ctx, classes, dcases, douts, dlines):
    rng = ctx.rng
    reported = Counter()

    def one(name, cls, tree, variant, kind, corr=True):
        order = None
        if variant == "permuted":
            import random
            order = random.Random(rng.getrandbits(32))
        if variant == "narrow" and not t_shorten(cls, tree):
            variant = "canonical"
        data = t_bytes(cls, tree, order, variant == "narrow")
        ctx.evaluations += 1
        ctx.dist[f"wire:{kind}"] += 1
        ctx.dist[f"wire:order:{variant}"] += 1
        ctx.dist["wire:items-present:" + ("none" if not tree else "all" if len(tree) == len(fields_of(cls)) else "some")] += 1
        ctx.nontrivial.add(("wire", name, variant, tuple(f.name in tree for f, _ in fields_of(cls))))
        for sig, text in wire_problems(cls, name, tree, data, variant):
            if reported[sig] >= 3:
                continue
            reported[sig] += 1
            ctx.violation(sig, text, wire_case(name, cls, tree, data, variant))
        if corr and len(data) < 30000:
            dcases.append({"stream": "dec", "cls": name, "data": hx(data)})
            douts.append(impl_decode(cls, data))
            dlines.append(f"t8.dec {name} {hx(data)}")
        return data
    apple, other = uuid_pool()
    for name, cls, _ in classes:
        fl = fields_of(cls)
        names = [f.name for f, _ in fl]
        # one item alone, over the structured values of its type; for 128-bit fields every type the library's tables name
        for f, tp in fl:
            if is_seq(tp) or is_struct(tp):
                continue
            types = [int(g.metadata["tlv_type"]) for g, _ in fl]
            if SIZES.get(tp) == 16:
                for u in apple + other:
                    one(name, cls, {f.name: u}, "canonical", "single-item:table-uuid", corr=rng.random() < 0.25)
                    if u & LOW96 == HAP_BASE and rng.random() < 0.3:
                        one(name, cls, {f.name: u}, "narrow", "single-item:table-uuid", corr=False)
            for _ in range(ctx.budget(6, 120)):
                v = t_value(rng, tp, 0, False, types)
                if v is not None:
                    one(name, cls, {f.name: v}, "canonical", "single-item:value-sweep", corr=rng.random() < 0.5)
        # every subset of items present (all of them for small messages; none / one / all but one / all and random ones otherwise)
        for sub in wire_subsets(rng, names, ctx.budget(12, 300)):
            tree = t_tree(rng, cls, 0, False, subset=sub)
            one(name, cls, tree, "canonical", "subset")
            if len(tree) >= 2 and rng.random() < 0.5:
                one(name, cls, tree, "permuted", "subset")
        # random messages in the three writing styles
        for _ in range(ctx.budget(24, 600)):
            tree = t_tree(rng, cls, 0, with_ids=rng.random() < 0.25)
            if not tree:
                continue
            one(name, cls, tree, rng.choice(["canonical", "permuted", "permuted", "narrow"]), "random")
        # observation for the correspondence only: an item of length zero (a peer's empty value) next to the others
        for f, tp in fl:
            tree = t_tree(rng, cls, 0, False, subset={x for x in names if x != f.name and rng.random() < 0.5})
            data = t_bytes(cls, tree) + bytes([int(f.metadata["tlv_type"]), 0])
            ctx.dist["wire:zero-length-item(correspondence only)"] += 1
            dcases.append({"stream": "dec", "cls": name, "data": hx(data)})
            douts.append(impl_decode(cls, data))
            dlines.append(f"t8.dec {name} {hx(data)}")


# ---------- stream 'db': what the library receives from accessories - CoAP accessory databases (1..3 accessories x services x
# characteristics) and BLE characteristic signatures, written by the reference writer from plain trees and observed through
# decode() and the public views the pairings consume (to_dict(), Accessories.from_list(to_dict()))
DB_CLS = "aiohomekit.controller.coap.structs.Pdu09Database"
SIG_CLS = "aiohomekit.controller.ble.structs.Characteristic"
# HAP-BLE "HAP Characteristic Properties Descriptor" bits -> HAP permission names
PERM_BITS = {0x0010: "pr", 0x0020: "pw", 0x0080: "ev", 0x0004: "aa", 0x0008: "tw", 0x0040: "hd"}
# GATT presentation format codes HAP uses -> byte width of a value (None: not numeric)
PF_FORMATS = {0x01: None, 0x04: 1, 0x06: 2, 0x08: 4, 0x0A: 8, 0x10: 4, 0x14: 4, 0x19: None, 0x1B: None}
PF_UNITS = [0x2700, 0x272F, 0x2763, 0x27AD, 0x2731, 0x2703]


def type_norm(v):
    """a type as the 128-bit number it names: short ids are shorthand for the Apple-defined UUID with that id"""
    return v if v >> 32 else (v << 96) | HAP_BASE


def type_text(v):
    h = f"{type_norm(v):032X}"
    return f"{h[:8]}-{h[8:12]}-{h[12:16]}-{h[16:20]}-{h[20:]}"


def db_type(rng):
    apple, other = uuid_pool()
    r = rng.random()
    if r < 0.45:
        return rng.choice(apple)  # full form
    if r < 0.8:
        return rng.choice(apple) >> 96  # short form
    return rng.choice(other)


def db_char_tree(rng, iid, names):
    fmt = rng.choice(sorted(PF_FORMATS))
    tree = {"type": db_type(rng), "properties": rng.choice([0x0010, 0x0030, 0x00B0, 0x0090, 0x0020, 0x03FF, rng.randrange(1, 1024)]),
            "presentation_format": bytes([fmt, 0]) + rng.choice(PF_UNITS).to_bytes(2, "little") + b"\x01\x00\x00"}
    if iid is not None:
        tree["instance_id"] = iid
    w = PF_FORMATS[fmt]
    if w and fmt != 0x14 and rng.random() < 0.5:
        lo, hi = sorted([rng.randrange(256 ** w // 2), rng.randrange(256 ** w // 2)])
        tree["valid_range"] = lo.to_bytes(w, "little") + hi.to_bytes(w, "little")
        if rng.random() < 0.5:
            tree["step_value"] = rng.randrange(1, 100).to_bytes(w, "little")
    for opt in ("user_descriptor", "user_description"):
        if opt in names and rng.random() < 0.3:
            tree[opt] = "".join(rng.choice("abc XYZ09é") for _ in range(rng.choice([1, 8, 40, 300]))).encode()
    if "service_instance_id" in names:
        tree["service_instance_id"] = rng.randrange(1, 65536).to_bytes(2, "little")
    if "service_type" in names:
        tree["service_type"] = rng.choice(uuid_pool()[0]).to_bytes(16, "little")
    return {k: v for k, v in tree.items() if k in names}


def db_tree(rng, char_names):
    iids = iter(rng.sample(range(1, 65536), 64))
    accs = []
    for aid in rng.sample(range(1, 65536), rng.randint(1, 3)):
        svcs = []
        for _ in range(rng.randint(1, 3)):
            svc = {"type": db_type(rng), "instance_id": next(iids),
                   "_characteristics": [{"characteristic": db_char_tree(rng, next(iids), char_names)} for _ in range(rng.randint(1, 3))]}
            if rng.random() < 0.5:
                svc["properties"] = rng.choice([1, 2, 3, 0])
            svcs.append({"service": svc})
        accs.append({"accessory": {"instance_id": aid, "_services": svcs}})
    return {"_accessories": accs}


def perms_of(bits):
    return sorted(n for b, n in PERM_BITS.items() if bits & b)


def view_type(x):
    return int(str(x).replace("-", ""), 16)


def db_view_problems(cls, name, tree, data):
    """the decoded database through the views the CoAP pairing consumes; [(signature, text)]"""
    try:
        db = cls.decode(data)
    except Exception:  # noqa: BLE001
        return []  # reported by the wire oracles
    want = [(a["accessory"]["instance_id"], [(s["service"]["instance_id"], s["service"]["type"], [(c["characteristic"]["instance_id"], c["characteristic"]["type"], c["characteristic"]["properties"])
                                                                                                for c in s["service"]["_characteristics"]]) for s in a["accessory"]["_services"]]) for a in tree["_accessories"]]
    try:
        view = db.to_dict()
    except Exception as e:  # noqa: BLE001
        return [(f"db/to_dict-raised-{type(e).__name__}", f"{name}: to_dict() of a conformant accessory's database raised {type(e).__name__}({str(e)[:80]}); bytes {hx(data)[:120]}")]
    out = []
    try:
        got = [(a["aid"], [(s["iid"], type_norm(view_type(s["type"])), [(c["iid"], type_norm(view_type(c["type"])), sorted(c["perms"])) for c in s["characteristics"]]) for s in a["services"]]) for a in view]
        exp = [(aid, [(siid, type_norm(st), [(ciid, type_norm(ct), perms_of(p)) for ciid, ct, p in chars]) for siid, st, chars in svcs]) for aid, svcs in want]
        if got != exp:
            out.append(("db/to_dict-differs", f"{name}: to_dict() of the decoded database gives (aid, (iid, type, (iid, type, perms))) = {str(got)[:200]} instead of the encoded {str(exp)[:200]}"))
    except Exception as e:  # noqa: BLE001
        out.append(("db/to_dict-differs", f"{name}: to_dict() of the decoded database lacks the encoded ids / types ({type(e).__name__}: {str(e)[:60]}): {str(view)[:200]}"))
    if out:
        return out
    try:
        from aiohomekit.model import Accessories
        accs = Accessories.from_list(view)
        got = [(a.aid, [(s.iid, str(s.type).upper(), [(c.iid, str(c.type).upper(), sorted(c.perms)) for c in s.characteristics]) for s in a.services]) for a in accs]
        exp = [(aid, [(siid, type_text(st), [(ciid, type_text(ct), perms_of(p)) for ciid, ct, p in chars]) for siid, st, chars in svcs]) for aid, svcs in want]
        if got != exp:
            out.append(("db/model-differs", f"{name}: the accessory model built from the decoded database holds {str(got)[:200]} instead of the encoded {str(exp)[:200]}"))
    except Exception as e:  # noqa: BLE001
        out.append((f"db/model-raised-{type(e).__name__}", f"{name}: Accessories.from_list(to_dict()) of a conformant accessory's database raised {type(e).__name__}({str(e)[:80]}); bytes {hx(data)[:120]}"))
    return out


def sig_view_problems(cls, name, tree, data):
    try:
        sig = cls.decode(data)
    except Exception:  # noqa: BLE001
        return []
    try:
        view = sig.to_dict()
    except Exception as e:  # noqa: BLE001
        return [(f"db/signature-to_dict-raised-{type(e).__name__}", f"{name}: to_dict() of a conformant characteristic signature raised {type(e).__name__}({str(e)[:80]}); bytes {hx(data)[:120]}")]
    try:
        got = (type_norm(view_type(view["type"])), sorted(view["perms"]))
    except Exception as e:  # noqa: BLE001
        got = f"{type(e).__name__}: {str(view)[:120]}"
    exp = (type_norm(tree["type"]), perms_of(tree["properties"]))
    if got != exp:
        return [("db/signature-to_dict-differs", f"{name}: to_dict() of the decoded signature {hx(data)[:80]} gives (type, perms) = {str(got)[:160]} instead of the encoded {exp}")]
    return []


def db_problems(cls, name, tree, data, variant):
    pr = wire_problems(cls, name, tree, data, variant)
    if not pr:
        pr = (db_view_problems if name == DB_CLS else sig_view_problems)(cls, name, tree, data)
    return pr


def db_stream(ctx, classes, dcases, douts, dlines):
    import random
    rng = ctx.rng
    by = {name: cls for name, cls, _ in classes}
    reported = Counter()
    plans = []
    if DB_CLS in by:
        try:
            char_cls = cls_of("aiohomekit.controller.coap.structs.Pdu09Characteristic")
            names = {f.name for f, _ in fields_of(char_cls)}
            plans.append((DB_CLS, ctx.budget(60, 1500), lambda: db_tree(rng, names), "database"))
        except Exception:  # noqa: BLE001
            pass
    if SIG_CLS in by:
        names = {f.name for f, _ in fields_of(by[SIG_CLS])}
        plans.append((SIG_CLS, ctx.budget(150, 3000), lambda: db_char_tree(rng, None, names), "signature"))
    if len(plans) < 2:
        ctx.notes.append("stream db: the CoAP database / BLE signature classes were not both found under their names; the part that was not found is skipped")
    for name, n, gen, kind in plans:
        cls = by[name]
        for _ in range(n):
            try:
                tree = gen()
                # BLE signatures carry the full 128-bit type; Thread accessories write types in either form
                variant = rng.choice(["canonical", "permuted"] if kind == "signature" else ["canonical", "permuted", "narrow", "narrow"])
                if variant == "narrow":
                    t_shorten(cls, tree)
                data = t_bytes(cls, tree, random.Random(rng.getrandbits(32)) if variant == "permuted" else None, variant == "narrow")
            except (KeyError, TypeError, AttributeError) as e:
                ctx.notes.append(f"stream db: the {kind} classes no longer have the fields the reference writer fills ({type(e).__name__}: {e}); skipped")
                break
            ctx.evaluations += 1
            ctx.dist[f"db:{kind}"] += 1
            ctx.dist[f"db:order:{variant}"] += 1
            ctx.nontrivial.add(("db", kind, variant, len(data) > 255, data.count(b"\x00\x00") > 3))
            for sig, text in db_problems(cls, name, tree, data, variant):
                if reported[sig] >= 3:
                    continue
                reported[sig] += 1
                c = wire_case(name, cls, tree, data, variant)
                c["stream"] = "db"
                ctx.violation(sig, text, c)
            dcases.append({"stream": "dec", "cls": name, "data": hx(data)})
            douts.append(impl_decode(cls, data))
            dlines.append(f"t8.dec {name} {hx(data)}")


def run(ctx: Ctx, driver: Driver):
    rng = ctx.rng
    schemas = load_schemas()
    classes = [(name, cls_of(name), fields) for name, fields in schemas]
    ctx.notes.append(f"{len(classes)} TLVStruct classes found by reflection")
    for c in load_corpus(ID):
        replay(ctx, driver, c)
    per = ctx.budget(60, 1500)
    # ---- stream enc: library objects -> encode -> (canonical? round trip?) ; model encode
    cases, outs, lines = [], [], []
    dcases, douts, dlines = [], [], []
    for name, cls, fields in classes:
        dups = dup_types(fields)
        seq16 = any(has_sequ16(ft) for _, _, ft in fields)
        for _ in range(per):
            inst = rinst(rng, cls)
            if inst is None:
                continue
            ctx.evaluations += 1
            out = impl_encode(inst)
            val = show_struct(inst)
            case = {"stream": "enc", "cls": name, "value": val if len(val) < 4000 else val[:4000]}
            ctx.nontrivial.add(("enc", name, mask(inst)))
            if out.startswith("exc"):
                ctx.violation(f"enc/{name.split('.')[-1]}/{out.split()[1]}", f"{name}.encode() raised {out.split()[1]}", case)
            elif out == "err struct":
                # every generated integer fits its declared width, so the packer has no reason to refuse it
                ctx.violation(f"enc/{name.split('.')[-1]}/refused-in-range", f"{name}.encode() refused a value whose integers all fit their declared widths (struct.error): no encoding, no round trip", case)
            elif out.startswith("ok"):
                enc = bytes.fromhex(out[3:]) if out[3:] != "-" else b""
                if enc != ref_struct(inst):
                    ctx.violation(f"enc/{name.split('.')[-1]}/not-canonical", f"{name}: encoding is not the canonical TLV8 form (declaration order, 255-byte fragments, 00 00 between list items)", case)
                back = impl_decode(cls, enc)
                if back == "ok " + val and rng.random() < 0.5:
                    # decoding is a function of the bytes: changing what an earlier decode returned must not change a later one
                    try:
                        first = cls.decode(enc)
                        scramble(first, rng)
                        again = impl_decode(cls, enc)
                        if again != "ok " + val:
                            ctx.violation(f"roundtrip/{name.split('.')[-1]}/decode-not-pure", f"{name}: decoding the same bytes again after the first decoded object was modified gives a different value (decoded objects are shared)", case)
                    except Exception as e:  # noqa: BLE001
                        ctx.violation(f"roundtrip/{name.split('.')[-1]}/decode-not-pure", f"{name}: second decode raised {type(e).__name__}", case)
                if back != "ok " + val:
                    # duplicate TLV types make the earlier field come back under the later name
                    sig = f"roundtrip/{name.split('.')[-1]}" + ("/duplicate-type-" + "-".join(map(str, dups)) if dups and explained(cls, inst, lambda x: x.encode(), False, dups) else "")
                    ctx.violation(sig, f"{name}: decode(encode(v)) != v: {back[:120]} vs {val[:120]}", case)
                dcases.append({"stream": "dec", "cls": name, "data": hx(enc)})
                douts.append(back)
                dlines.append(f"t8.dec {name} {hx(enc)}")
            if len(val) < 60000:
                cases.append(case)
                outs.append(out)
                lines.append(f"t8.enc {name} {val}")
            ctx.dist["enc:" + out.split()[0]] += 1
    ctx.sample(cases[3])
    compare_with_model(ctx, "enc", cases, outs, lines, driver)
    # ---- stream peer: messages from a conformant accessory (reference writer), incl. packed id lists
    for name, cls, fields in classes:
        seq16 = any(has_sequ16(ft) for _, _, ft in fields)
        dups = dup_types(fields)
        for _ in range(per if seq16 else per // 3):
            inst = rinst(rng, cls, with_ids=True)
            if inst is None:
                continue
            data = ref_struct(inst)
            want = "ok " + show_struct(inst)
            out = impl_decode(cls, data)
            ctx.evaluations += 1
            case = {"stream": "peer", "cls": name, "data": hx(data), "want": want[:3000]}
            ctx.nontrivial.add(("peer", name, mask(inst)))
            if out != want:
                if out.startswith("exc"):
                    sig = f"peer/{name.split('.')[-1]}/{out.split()[1]}"
                elif seq16 and explained(cls, inst, ref_struct, True, dups):
                    sig = f"peer/{name.split('.')[-1]}/seqU16"
                elif dups and explained(cls, inst, ref_struct, False, dups):
                    sig = f"peer/{name.split('.')[-1]}/duplicate-type-" + "-".join(map(str, dups))
                else:
                    sig = f"peer/{name.split('.')[-1]}"
                ctx.violation(sig, f"{name}: decoding a conformant accessory's message gives {out[:100]} instead of the encoded values {want[:100]}", case)
            dcases.append({"stream": "dec", "cls": name, "data": hx(data)})
            douts.append(out)
            dlines.append(f"t8.dec {name} {hx(data)}")
            ctx.dist["peer:" + out.split()[0]] += 1
            # ---- mutated copies: correspondence only
            if data and rng.random() < 0.5:
                b = bytearray(data)
                i = rng.randrange(len(b))
                m = rng.randrange(3)
                if m == 0:
                    b[i] = rng.randrange(256)
                elif m == 1:
                    b = b[:i]
                else:
                    b[i] ^= 1 << rng.randrange(8)
                out2 = impl_decode(cls, bytes(b))
                dcases.append({"stream": "dec", "cls": name, "data": hx(b)})
                douts.append(out2)
                dlines.append(f"t8.dec {name} {hx(b)}")
                ctx.dist["mut:" + " ".join(out2.split()[:2] if out2.startswith("err") else out2.split()[:1])] += 1
                ctx.evaluations += 1
    ctx.sample({k: (v if len(str(v)) < 400 else str(v)[:400] + "...") for k, v in dcases[-1].items()})
    # ---- stream wire: hand-built byte strings with every subset of items present, in three writing styles
    wire_stream(ctx, classes, dcases, douts, dlines)
    # ---- stream db: reference-encoded accessory databases / characteristic signatures through decode() and the consumers' views
    db_stream(ctx, classes, dcases, douts, dlines)
    compare_with_model(ctx, "dec", dcases, douts, dlines, driver, canon=lambda s: ("err" if s.startswith("err") else s))
    # ---- streams model / ip: the same messages as values of struct-valued characteristics, through the accessory model
    try:
        model_streams(ctx)
    finally:
        for k, n in sorted(GEN_KINDS.items()):
            ctx.dist["values:" + k] += n
        GEN_KINDS.clear()


def replay(ctx, driver, c):
    if c.get("stream") in ("model", "ip"):
        chars = struct_chars()
        if c["stream"] == "model":
            pr = run_model_history(chars, c["steps"], c.get("seed", 0))
        else:
            import asyncio

            from harness import simnet
            loop = simnet.VLoop()
            asyncio.set_event_loop(loop)
            try:
                pr = run_ip_history(loop, chars, c["steps"], c.get("seed", 0))
            finally:
                asyncio.set_event_loop(None)
                loop.close()
        return "; ".join(t for _, t in pr[:3])[:600] or None
    cls = cls_of(c["cls"])
    nm = len(ctx.mismatches)
    if c["stream"] in ("wire", "db"):
        data = unhex(c["data"])
        pr = (wire_problems if c["stream"] == "wire" else db_problems)(cls, c["cls"], t_unjson(cls, c["tree"]), data, c.get("variant", "canonical"))
        compare_with_model(ctx, "dec", [c], [impl_decode(cls, data)], [f"t8.dec {c['cls']} {hx(data)}"], driver, canon=lambda s: ("err" if s.startswith("err") else s))
        if pr:
            return "; ".join(t for _, t in pr[:3])[:600]
    elif c["stream"] in ("peer", "dec"):
        data = bytes.fromhex(c["data"]) if c["data"] != "-" else b""
        out = impl_decode(cls, data)
        compare_with_model(ctx, "dec", [c], [out], [f"t8.dec {c['cls']} {hx(data)}"], driver, canon=lambda s: ("err" if s.startswith("err") else s))
        if "want" in c and out != c["want"]:
            return f"decoding gives {out[:200]} instead of {c['want'][:200]}"
    else:
        # value syntax -> model only; the implementation side is reproduced from the decode of the model's bytes
        outs = driver.run([f"t8.enc {c['cls']} {c['value']}"])
        if outs and outs[0].startswith("ok"):
            data = bytes.fromhex(outs[0][3:]) if outs[0][3:] != "-" else b""
            back = impl_decode(cls, data)
            if back != "ok " + c["value"]:
                return f"decode(encode(v)) = {back[:200]} != v = {c['value'][:200]}"
    if len(ctx.mismatches) > nm:
        return "model/implementation mismatch: " + str(ctx.mismatches[-1])[:300]
    return None
