"""C01: the BLE session lifecycle model (`HapVerif.BleSession`, theorems C01_ble_*) against the real BlePairing.

Histories over the model's alphabet - a public operation, close() with a disconnect that succeeds or raises, a link loss
reported by the stack, who answers on the next link (the genuine accessory or an impostor without the long-term key) - are run
through the real `BlePairing` on the fake radio of harness/c01.py (`ble_scenario`: only `establish_connection` is replaced)
and through the model (`bs.run ...`).  Compared per link, from the books of whoever answered on it: did a pair-verify run on
it, did a request sealed under THIS link's keys arrive, and how many requests arrived under other keys."""
from __future__ import annotations

import itertools

from harness.common import Ctx, Driver, compare_with_model

OPS = ["get", "geton", "put", "lp"]
EXCS = ["BleakError", "EOFError", "BrokenPipeError", "TimeoutError", "AttributeError"]
STYLES = ["own-key", "refuse", "replay", "bad-resume"]


def concretise(toks, rng):
    steps = []
    for t in toks:
        if t == "op":
            steps.append(["op", rng.choice(OPS)])
        elif t == "cok":
            steps.append(["close", "clean"])
        elif t == "crs":
            steps.append(["close", "raise:" + rng.choice(EXCS)])
        elif t == "lost":
            steps.append(["lost", "cb"])
        elif t == "p:i":
            steps.append(["peer", "impostor", rng.choice(STYLES)])
        elif t == "p:g":
            steps.append(["peer", "genuine"])
            if rng.random() < 0.3:
                steps.append(rng.choice([["reboot"], ["resume", False], ["resume", True]]))
    return {"stream": "ble-session", "model": "ble-lifecycle", "tokens": list(toks), "seed": rng.randrange(1 << 30), "mtu": rng.choice([64, 158, 512]),
            "latency": rng.choice([0.0, 0.0, 0.01]), "steps": steps}


def histories(ctx, rng):
    alpha = ["op", "cok", "crs", "lost", "p:i", "p:g"]
    out = []
    depth = ctx.budget(4, 5)
    for d in range(1, depth + 1):
        for seq in itertools.product(alpha, repeat=d):
            if "op" not in seq or seq[-1] != "op":
                continue
            if any(a[0] == "p" and b[0] == "p" for a, b in zip(seq, seq[1:])):
                continue
            out.append(seq)
    if not ctx.thorough():
        out = [s for i, s in enumerate(out) if len(s) <= 3 or i % 6 == ctx.seed % 6]
    for _ in range(ctx.budget(60, 2500)):
        n = rng.randrange(4, 14)
        seq = [rng.choice(["op", "op", "op", "cok", "crs", "lost", "p:i", "p:g"]) for _ in range(n)] + ["op"]
        out.append(tuple(seq))
    return [concretise(s, rng) for s in out]


def observe(stats):
    links = []
    stale = 0
    for i, (who, verifies, framed, unauth, plain) in enumerate(stats["per_link"]):
        links.append(f"{i}:{1 if verifies else 0}:{1 if framed else 0}")
        stale += unauth + plain
    return links, stale


def run_one(case):
    from harness.c01 import run_link_history
    problems, stats = run_link_history(case)
    links, stale = observe(stats)
    return " ".join(links + [f"stale={stale}"]), problems, stats


def canon(s):
    return " ".join(t for t in s.split(" ") if not t.startswith("keys="))


def run_blemodel(ctx: Ctx, driver: Driver):
    rng = ctx.rng
    cases, outs, lines = [], [], []
    for case in histories(ctx, rng):
        try:
            out, problems, stats = run_one(case)
        except Exception as e:  # noqa: BLE001
            ctx.violation("ble-lifecycle/scenario-raised", f"{type(e).__name__}: {e} on {' '.join(case['tokens'])}", case)
            continue
        ctx.evaluations += 1
        ctx.nontrivial.add(("ble-lifecycle",) + tuple(case["tokens"]))
        ctx.dist["ble-lifecycle"] += 1
        ctx.dist[f"ble-lifecycle:links={min(stats['links'], 5)}"] += 1
        if "p:i" in case["tokens"]:
            ctx.dist["ble-lifecycle:with-impostor"] += 1
        for sig, what in problems[:2]:
            ctx.violation(sig, what + f" [history: {case['steps']}]", case)
        cases.append(case)
        outs.append(out)
        lines.append("bs.run " + " ".join(case["tokens"]))
    compare_with_model(ctx, "ble-lifecycle", cases, outs, lines, driver, canon=canon)


def replay_blemodel(ctx: Ctx, driver: Driver, case):
    out, problems, _ = run_one(case)
    compare_with_model(ctx, "ble-lifecycle", [case], [out], ["bs.run " + " ".join(case["tokens"])], driver, canon=canon)
    return [f"{s}: {w}" for s, w in problems]
