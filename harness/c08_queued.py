"""C08: requests that are still waiting for their turn when the session is lost.

The property: "if ... the connection drops, that connection is abandoned ... and every outstanding request fails promptly with a
disconnection error".  A request queued on the request slot behind the one on the wire is outstanding, too.  On the unchanged
tree such a request, when the reconnect had already opened the next TCP connection by the time it got the slot, was written - IN
THE CLEAR - on that connection before / between its pair-verify messages, and whatever answered was returned to the caller
(repaired in /repo, see known_findings.json).

Histories: the session-level ones of harness/rcsim.py (overlapping public requests of a real `IpPairing`, an accessory that keeps
or releases its answers, every way a session ends, every outcome of the next attempts) on the simulated network.  Oracle, from the
accessory's side of the wire only: on no TCP connection does anything but a pair-verify request arrive outside the encrypted
session of THAT connection."""
from __future__ import annotations

from unittest import mock

from harness import acc as accmod
from harness import rcsim
from harness.common import Ctx

DIRECTED = [
    ([1], "e:1:- q:h r:10:g:-+r:11:l:-+r:12:w:- p:c a:2 a:98304 q:a"),
    ([1], "e:1:- q:h r:10:g:-+r:11:w:- p:c a:2 a:98304 q:a"),
    ([1], "e:1:- q:h r:10:w:-+r:11:g:-+r:12:g:- p:c:r a:2 a:98304 q:a"),
    ([1, 2], "s q:h r:10:l:-+r:11:w:-+r:12:w:- p:c a:2 a:98304 q:a"),
    ([1], "e:1:- q:h r:10:g:-+r:11:w:-+.+.+p:c a:2 a:98304 q:a"),
]


def run_history(hosts, events, seed):
    """-> (in-the-clear application requests the accessory received: [(connection, first line)], the Sim)"""
    clear = []
    orig = accmod.Accessory.on_write

    def on_write(self, t, data):
        s = self.sessions[t]
        if not s.secure:
            first = bytes(data).split(b"\r\n", 1)[0]
            if b"/pair-verify" not in first:
                clear.append((s.idx, first.decode("latin-1")))
        return orig(self, t, data)
    with mock.patch.object(accmod.Accessory, "on_write", on_write):
        sim = rcsim.run_scenario(hosts, events, seed=seed)
    return clear, sim


def judge(ctx, case, clear, sim):
    if clear:
        c, line = clear[0]
        outcomes = " ".join(x for l in sim.lines for x in l.split("|")[0].split() if x.startswith("W"))
        ctx.violation("secure/queued-request-sent-in-the-clear",
                      f"connection {c}: the accessory received `{line}` OUTSIDE the encrypted session ({len(clear)} such request(s): {[l for _c, l in clear][:4]}); "
                      f"callers ended {outcomes} [hosts {case['hosts']}, history: {' '.join(case['events'])}]", case)


def run_queued(ctx: Ctx):
    rng = ctx.rng
    hists = [(h, e.split(), "directed") for h, e in DIRECTED]
    hists += rcsim.gen_request_histories(rng, n_random=ctx.budget(60, 1500), grid_sample=ctx.budget(90, None))
    for hosts, events, kind in hists:
        case = {"stream": "queued-requests", "hosts": hosts, "events": events, "seed": rng.randrange(1 << 30)}
        try:
            clear, sim = run_history(hosts, events, case["seed"])
        except Exception as e:  # noqa: BLE001
            ctx.notes.append(f"queued-requests: scenario raised {type(e).__name__}: {e} on {' '.join(events)}")
            continue
        ctx.evaluations += 1
        ctx.nontrivial.add(("queued", tuple(hosts)) + tuple(events))
        ctx.dist["queued-requests:" + kind] += 1
        if sim.stats.get("secure_sessions_lost"):
            ctx.dist["queued-requests:session-lost"] += 1
        judge(ctx, case, clear, sim)


def replay_queued(ctx: Ctx, case):
    n = len(ctx.violations)
    clear, sim = run_history(case["hosts"], case["events"], case["seed"])
    judge(ctx, case, clear, sim)
    return [v["signature"] + ": " + v["what"] for v in ctx.violations[n:]]
