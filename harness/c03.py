"""C03 - pair-setup returns pairing data only after a fully authenticated exchange."""
from __future__ import annotations

from unittest import mock

from cryptography.hazmat.primitives.asymmetric import ed25519
from cryptography.hazmat.primitives.ciphers.aead import ChaCha20Poly1305

from harness import cryptoval, refacc
from harness.c01 import L, items_str, toks
from harness.common import Ctx, Driver, compare_with_model, hx

import aiohomekit.crypto.srp as srpmod
import aiohomekit.protocol as P

ID = "C03"
RULE = ("honest pairings over random codes/identifiers/keys/salts; adversarial: wrong-code accessory, bit flips of the M4 proof, M4 with error/foreign state/no proof, M6 encrypted or signed "
        "with another key, signature over another identifier/key, removed signature/identifier/key, bit and byte corruptions of M6, truncated M6, wrong-length key, M6 replayed from another "
        "exchange; M2 with missing fields. non-trivial = distinct (mutation class, outcome class)")
TRUSTED = ["reference SRP server and accessory (harness/refacc.py)", "Lean Real crypto (validated per run)"]
ASSUMPTIONS = ["SRP values themselves are C02's subject: the model takes K and the expected server proof from the real SrpClient of the same exchange",
               "ephemerals pinned by patching os.urandom (srp) and Ed25519PrivateKey.generate (protocol)",
               "unforgeability / AEAD integrity assumed; proved: the logic (return implies checks, signature binds id and key) and agreement with the HAP 5.6 accessory"]
EXPLANATION = "Lean theorems C03_* over the model of perform_pair_setup_part1/2 with abstract crypto; byte-exact differential tie on M5 and the returned record; adversarial streams judged by an independent accessory"

CLS = {"InvalidError", "AuthenticationError", "BackoffError", "MaxPeersError", "MaxTriesError", "UnavailableError", "BusyError", "IllegalData", "InvalidSignatureError", "ValueError",
       "TlvParseException", "UnicodeDecodeError"}


def run(ctx: Ctx, driver: Driver):
    rng = ctx.rng
    rb = lambda n: bytes(rng.randrange(256) for _ in range(n))  # noqa: E731
    cryptoval.validate(ctx, driver, 3)
    cases, outs, lines = [], [], []
    m5cases, m5outs, m5lines = [], [], []
    # ---- part 1 (M2)
    c1, o1, l1 = [], [], []
    for items in ([(6, b"\x02"), (3, b"\x05" * 384), (2, b"\x07" * 16)], [(3, b"\x05" * 384), (2, b"\x07" * 16)], [(6, b"\x02"), (3, b"\x05" * 384)], [(6, b"\x02"), (2, b"\x07" * 16)],
                  [(6, b"\x02"), (7, b"\x06")], [(6, b"\x03"), (3, b"\x05"), (2, b"\x07")], [(7, b"\x02"), (3, b"\x05"), (2, b"\x07")], [(2, b""), (3, b""), (6, b"\x02")]):
        g = P.perform_pair_setup_part1(True)
        g.send(None)
        try:
            g.send(L(items))
            out = "yielded"
        except StopIteration as s:
            salt, pk = s.value
            out = f"ok {hx(salt)} {hx(pk)}"
        except Exception as e:  # noqa: BLE001
            out = "err " + type(e).__name__
        ctx.evaluations += 1
        # oracle (HAP 5.6.2): M2 carries no Error, a Salt and a PublicKey, and no other step number - anything else ends the
        # attempt (a reply without a State item is tolerated by the library on purpose; C04 documents that)
        d = dict(items)
        complete = d.get(6, b"\x02") == b"\x02" and 7 not in d and 2 in d and 3 in d
        if out.startswith("ok") and not complete:
            ctx.violation("setup/m2-accepted", f"M2 reply {[(k, len(v)) for k, v in items]} (type, length) lacks a required item or carries an error, yet part 1 went on with salt {out.split(' ')[1][:16]}...", {"stream": "m2", "items": [[k, hx(v)] for k, v in items]})
        if out.startswith("ok") and complete and (bytes.fromhex(out.split(" ")[1]) if out.split(" ")[1] != "-" else b"") != d[2]:
            ctx.violation("setup/m2-salt", "part 1 returned a salt other than the one the accessory sent", {"stream": "m2", "items": [[k, hx(v)] for k, v in items]})
        c1.append({"stream": "m2", "items": [[k, hx(v)] for k, v in items]})
        o1.append(out)
        l1.append("ps.m2 " + toks(items))
        ctx.nontrivial.add(("m2", out.split(" ")[0], len(items)))
    compare_with_model(ctx, "m2", c1, o1, l1, driver)

    view = {}

    def exchange(kind):
        pin = rng.choice(["031-45-154", "111-22-333"])
        ios_id = rng.choice(["ctl-uuid", "7d0ca5d1-1d9c-4d29-b2a0-6c8e4f1e0001"])
        salt = rng.choice([rb(16), bytes(16)])
        b = int.from_bytes(rb(32), "big")
        a_bytes = rb(16)
        if kind == "honest-K0":
            # an honest session whose SRP session key K = H(S) starts with a zero byte (1 in 256): every place that takes a
            # detour through an integer loses that byte
            from harness.c02 import mk_client as _mk
            A_b0 = bytes(_mk(pin, a_bytes, salt, refacc.PAD(refacc.SrpServer(pin, salt, b).B)).get_public_key_bytes())
            for _ in range(3000):
                cand = refacc.SrpServer(pin, salt, b)
                cand.on_A(A_b0)
                if cand.K[0] == 0:
                    break
                b = int.from_bytes(rb(32), "big")
            ctx.dist["K-leading-zero-found"] += int(cand.K[0] == 0)
        ltsk_seed = rb(32)
        acc = refacc.Identity(rb, acc_id=rng.choice([b"12:34:56:00:01:0A", b"AA:BB:CC:DD:EE:FF", b"3c:5a:b4:00:1f:e2", b"aB:cd:EF:01:23:45"]))
        srv = refacc.SrpServer(pin if kind != "wrong-code-accessory" else "999-99-999", salt, b)
        with mock.patch.object(srpmod.os, "urandom", lambda n: a_bytes), \
                mock.patch.object(P.ed25519.Ed25519PrivateKey, "generate", staticmethod(lambda: ed25519.Ed25519PrivateKey.from_private_bytes(ltsk_seed))):
            g = P.perform_pair_setup_part2(pin, ios_id, bytearray(salt), bytearray(refacc.PAD(srv.B)))
            m3 = dict((k, bytes(v)) for k, v in g.send(None)[0])
            srv.on_A(m3[3])
            # what the model is given of the SRP client (C02 covers these values): a twin client with the same secret
            from harness.c02 import mk_client
            twin = mk_client(pin, a_bytes, salt, refacc.PAD(srv.B))
            view["K"] = bytes(twin.get_session_key_bytes())
            view["M2"] = twin.digest(twin.A_b, twin.get_proof_bytes(), twin.get_session_key_bytes())
            m4 = [(6, b"\x04"), (4, srv.M2)]
            legit4 = kind != "wrong-code-accessory"
            if kind == "m4-bitflip":
                p = bytearray(srv.M2)
                p[rng.randrange(64)] ^= 1 << rng.randrange(8)
                m4 = [(6, b"\x04"), (4, bytes(p))]
                legit4 = False
            elif kind == "m4-error":
                m4 = rng.choice([[(6, b"\x04"), (7, b"\x02")], [(7, b"\x05")], [(6, b"\x04"), (4, srv.M2), (7, b"\x03")]])
                legit4 = False
            elif kind == "m4-state":
                m4 = [(6, bytes([rng.choice([1, 2, 3, 5, 6])])), (4, srv.M2)]
                legit4 = False
            elif kind == "m4-no-proof":
                m4 = [(6, b"\x04")]
                legit4 = False
            elif kind == "m4-zero-prepended":
                m4 = [(6, b"\x04"), (4, b"\0" + srv.M2)]
            elif kind == "m4-proof-suffix":
                m4 = [(6, b"\x04"), (4, srv.M2[-rng.choice([63, 32, 8, 1]):])]
                legit4 = False
            elif kind == "m4-proof-prefix":
                m4 = [(6, b"\x04"), (4, srv.M2[:rng.choice([63, 32, 8, 1])])]
                legit4 = False
            # the client's own view of K and of the expected proof, for the model (computed from the reference server: equal by C02 when the code is right)
            try:
                req5 = g.send(L(m4))
            except StopIteration:
                return "early-return", None
            except Exception as e:  # noqa: BLE001
                out = "err4 " + type(e).__name__
                return finish(kind, out, legit4 and False, None, pin, ios_id, salt, srv, m4, [], ltsk_seed, acc, None)
            m5 = [(k, bytes(v)) for k, v in req5[0]]
        K = srv.K  # == client K when the proof verified
        ekey = refacc.hk(K, b"Pair-Setup-Encrypt-Salt", b"Pair-Setup-Encrypt-Info")
        # accessory checks M5
        m5_ok = False
        try:
            sub = refacc.untlv(ChaCha20Poly1305(ekey).decrypt(b"\0\0\0\0PS-Msg05", dict(m5)[5], b""))
            cx = refacc.hk(K, b"Pair-Setup-Controller-Sign-Salt", b"Pair-Setup-Controller-Sign-Info")
            ed25519.Ed25519PublicKey.from_public_bytes(sub[3]).verify(sub[10], cx + sub[1] + sub[3])
            m5_ok = sub[1] == ios_id.encode() and dict(m5)[6] == b"\x05"
        except Exception:  # noqa: BLE001
            m5_ok = False
        ctx.evaluations += 1
        if not m5_ok:
            ctx.violation("setup/m5-rejected", "a conformant accessory rejects the controller's M5", {"stream": "setup", "kind": kind})
        m5cases.append({"stream": "m5", "K": hx(K)})
        m5outs.append(items_str(m5))
        m5lines.append(f"ps.m5 {hx(K)} {hx(ios_id.encode())} {hx(ltsk_seed)}")
        # M6
        ax = refacc.hk(K, b"Pair-Setup-Accessory-Sign-Salt", b"Pair-Setup-Accessory-Sign-Info")
        parts = dict(id=acc.acc_id, pk=acc.acc_ltpk, sigkey=acc.acc_ltsk, ekey=ekey, signed=None, drop=None)
        legit6 = True
        if kind == "m6-other-signkey":
            parts["sigkey"] = ed25519.Ed25519PrivateKey.from_private_bytes(rb(32))
            legit6 = False
        elif kind == "m6-other-enckey":
            parts["ekey"] = rb(32)
            legit6 = False
        elif kind == "m6-sig-other-id":
            parts["signed"] = ax + b"99:99:99:99:99:99" + acc.acc_ltpk
            legit6 = False
        elif kind == "m6-sig-other-key":
            parts["signed"] = ax + acc.acc_id + rb(32)
            legit6 = False
        elif kind in ("m6-drop-sig", "m6-drop-id", "m6-drop-key"):
            parts["drop"] = {"m6-drop-sig": 10, "m6-drop-id": 1, "m6-drop-key": 3}[kind]
            legit6 = False
        elif kind == "m6-short-key":
            parts["pk"] = acc.acc_ltpk[:31]
            legit6 = False
        elif kind == "m6-other-K":
            ax2 = refacc.hk(rb(64), b"Pair-Setup-Accessory-Sign-Salt", b"Pair-Setup-Accessory-Sign-Info")
            parts["signed"] = ax2 + acc.acc_id + acc.acc_ltpk
            legit6 = False
        sig = parts["sigkey"].sign(parts["signed"] or (ax + parts["id"] + parts["pk"]))
        inner = [(1, parts["id"]), (3, parts["pk"]), (10, sig)]
        if parts["drop"]:
            inner = [t for t in inner if t[0] != parts["drop"]]
        enc = ChaCha20Poly1305(parts["ekey"]).encrypt(b"\0\0\0\0PS-Msg06", refacc.tlv(inner), b"")
        m6 = [(6, b"\x06"), (5, enc)]
        if kind == "m6-bitflip":
            e = bytearray(enc)
            e[rng.randrange(len(e))] ^= 1 << rng.randrange(8)
            m6 = [(6, b"\x06"), (5, bytes(e))]
            legit6 = False
        elif kind == "m6-trunc":
            m6 = [(6, b"\x06"), (5, enc[:-1])]
            legit6 = False
        elif kind == "m6-error":
            m6 = rng.choice([[(6, b"\x06"), (7, b"\x02"), (5, enc)], [(7, b"\x04"), (5, enc)]])
            legit6 = False
        elif kind == "m6-state":
            m6 = [(6, b"\x04"), (5, enc)]
            legit6 = False
        elif kind == "m6-no-enc":
            m6 = [(6, b"\x06")]
            legit6 = False
        try:
            g.send(L(m6))
            out = "yielded"
        except StopIteration as s:
            r = s.value
            out = f"ok {hx(r['AccessoryPairingID'].encode())} {r['AccessoryLTPK']} {hx(r['iOSPairingId'].encode())} {r['iOSDeviceLTSK']} {r['iOSDeviceLTPK']}"
        except Exception as e:  # noqa: BLE001
            out = "err6 " + type(e).__name__
        return finish(kind, out, legit4 and legit6, r if out.startswith("ok") else None, pin, ios_id, salt, srv, m4, m6, ltsk_seed, acc, K)

    def finish(kind, out, legit, rec, pin, ios_id, salt, srv, m4, m6, ltsk_seed, acc, K):
        case = {"stream": "setup", "kind": kind, "m4": [[k, hx(v)] for k, v in m4], "m6": [[k, hx(v)] for k, v in m6]}
        cls = out.split(" ")[0] + (":" + out.split(" ")[1] if out.startswith("err") else "")
        ctx.nontrivial.add((kind, cls))
        ctx.dist[f"{kind}:{cls}"] += 1
        if out.startswith("err") and out.split(" ")[1] not in CLS:
            ctx.violation(f"setup/{kind}/{out.split(' ')[1]}", f"{kind}: unexpected exception class {out.split(' ')[1]}", case)
        if legit:
            if rec is None:
                ctx.violation(f"setup/{kind}/rejected-genuine", f"{kind}: genuine pairing failed with {out[:60]}", case)
            else:
                sk = ed25519.Ed25519PrivateKey.from_private_bytes(bytes.fromhex(rec["iOSDeviceLTSK"]))
                okrec = (rec["AccessoryPairingID"].encode() == acc.acc_id and rec["AccessoryLTPK"] == acc.acc_ltpk.hex() and rec["iOSPairingId"] == ios_id
                         and sk.public_key().public_bytes(**refacc.RAW).hex() == rec["iOSDeviceLTPK"])
                if not okrec:
                    ctx.violation(f"setup/{kind}/record", f"{kind}: returned record is not self-consistent / not the authenticated identity", case)
        elif rec is not None:
            ctx.violation(f"setup/{kind}/returned", f"{kind}: pairing data was returned although the exchange was not authentic", case)
        # model: K and expected proof from the reference server (the real client's when the code is right)
        cases.append(case)
        outs.append(out)
        lines.append(f"ps.part2 {hx(view['K'])} {hx(view['M2'])} {hx(ios_id.encode())} {hx(ltsk_seed)} {toks(m4)} | {toks(m6)}")
        return out, rec

    kinds = ["honest"] * 4 + ["wrong-code-accessory", "m4-bitflip", "m4-error", "m4-state", "m4-no-proof", "m4-zero-prepended", "m4-proof-suffix", "m4-proof-prefix", "m6-other-signkey", "m6-other-enckey", "m6-sig-other-id",
                              "m6-sig-other-key", "m6-drop-sig", "m6-drop-id", "m6-drop-key", "m6-short-key", "m6-other-K", "m6-bitflip", "m6-trunc", "m6-error", "m6-state", "m6-no-enc"]
    for i in range(ctx.budget(72, 2400)):
        exchange(kinds[i % len(kinds)])
    for _ in range(ctx.budget(1, 12)):
        exchange("honest-K0")
    ctx.sample({k: (v if len(str(v)) < 300 else str(v)[:300] + "...") for k, v in cases[0].items()})
    # wrong-code accessory: the model is given the reference server's K/M2 which the real client does not share - the outcome (AuthenticationError at M4) must still agree
    discovery_level(ctx, rng, rb)
    compare_with_model(ctx, "setup", cases, outs, lines, driver, canon=canon_wrongcode)
    compare_with_model(ctx, "m5", m5cases, m5outs, m5lines, driver)


class SetupAccessory:
    """a conformant accessory for the whole pair-setup exchange (M1..M6), written from HAP 5.6 with harness.refacc"""

    def __init__(self, pin, ident, rb):
        self.pin, self.id, self.rb = pin, ident, rb
        self.accepted = None  # (controller id, controller long-term public key) accepted in M5

    def handle(self, items):
        d = {int(k): bytes(v) for k, v in items}
        st = d.get(6)
        if st == b"\x01":
            self.salt = self.rb(16)
            self.srv = refacc.SrpServer(self.pin, self.salt, int.from_bytes(self.rb(32), "big"))
            return [(6, b"\x02"), (3, refacc.PAD(self.srv.B)), (2, self.salt)]
        if st == b"\x03":
            self.srv.on_A(d[3])
            if d.get(4) != self.srv.M1:
                return [(6, b"\x04"), (7, b"\x02")]
            return [(6, b"\x04"), (4, self.srv.M2)]
        if st == b"\x05":
            K = self.srv.K
            ekey = refacc.hk(K, b"Pair-Setup-Encrypt-Salt", b"Pair-Setup-Encrypt-Info")
            try:
                sub = refacc.untlv(ChaCha20Poly1305(ekey).decrypt(b"\0\0\0\0PS-Msg05", d[5], b""))
                cx = refacc.hk(K, b"Pair-Setup-Controller-Sign-Salt", b"Pair-Setup-Controller-Sign-Info")
                ed25519.Ed25519PublicKey.from_public_bytes(sub[3]).verify(sub[10], cx + sub[1] + sub[3])
            except Exception:  # noqa: BLE001
                return [(6, b"\x06"), (7, b"\x02")]
            self.accepted = (sub[1].decode(), sub[3])
            ax = refacc.hk(K, b"Pair-Setup-Accessory-Sign-Salt", b"Pair-Setup-Accessory-Sign-Info")
            sig = self.id.acc_ltsk.sign(ax + self.id.acc_id + self.id.acc_ltpk)
            enc = ChaCha20Poly1305(ekey).encrypt(b"\0\0\0\0PS-Msg06", refacc.tlv([(1, self.id.acc_id), (3, self.id.acc_ltpk), (10, sig)]), b"")
            return [(6, b"\x06"), (5, enc)]
        return [(6, b"\x02"), (7, b"\x01")]


def discovery_level(ctx, rng, rb):
    """the transports' own pairing entry points: IpDiscovery.async_start_pairing / finish_pairing against a conformant
    accessory, twice under the same alias (the accessory was reset in between: same identifier, new long-term key).
    What is returned - and what the controller keeps under the alias - must be exactly the identity authenticated in
    THIS exchange and the controller key THIS accessory accepted."""
    import asyncio
    from unittest.mock import MagicMock

    from aiohomekit.characteristic_cache import CharacteristicCacheMemory
    from aiohomekit.controller.ip.discovery import IpDiscovery

    from harness import rcsim

    async def pair_once(controller, alias, accessory, hosts):
        class Conn:
            is_connected = True

            async def ensure_connection(self):
                return None

            async def post_tlv(self, target, body, expected=None):
                return L(accessory.handle(body))

            async def close(self):
                return None
        d = IpDiscovery.__new__(IpDiscovery)
        d.controller = controller
        d.description = rcsim.description(hosts)
        d.connection = Conn()
        finish = await d.async_start_pairing(alias)
        return await finish(accessory.pin)

    loop = asyncio.new_event_loop()
    try:
        for trial in range(ctx.budget(2, 12)):
            controller = MagicMock()
            controller._char_cache = CharacteristicCacheMemory()
            controller.pairings = {}
            acc_id = rng.choice([b"12:34:56:00:01:0A", b"3c:5a:b4:00:1f:e2"])
            alias = "kitchen"
            history = []
            for round_ in range(rng.choice([2, 3])):
                ident = refacc.Identity(rb, acc_id=acc_id)  # a reset accessory keeps its identifier and gets a new key pair
                accessory = SetupAccessory(rng.choice(["031-45-154", "111-22-333"]), ident, rb)
                ctx.evaluations += 1
                case = {"stream": "discovery", "transport": "ip", "round": round_, "alias": alias}
                try:
                    obj = loop.run_until_complete(pair_once(controller, alias, accessory, [1 + round_]))
                except Exception as e:  # noqa: BLE001
                    ctx.violation("setup/discovery/rejected-genuine", f"IpDiscovery pairing round {round_ + 1} under alias '{alias}' failed with {type(e).__name__}: {e}", case)
                    break
                rec = obj.pairing_data
                kept = controller.pairings.get(alias)
                problems = []
                if rec.get("AccessoryLTPK") != ident.acc_ltpk.hex() or rec.get("AccessoryPairingID") != acc_id.decode():
                    problems.append("the accessory identity returned is not the one authenticated in this exchange")
                if accessory.accepted is None or rec.get("iOSPairingId") != accessory.accepted[0] or rec.get("iOSDeviceLTPK") != accessory.accepted[1].hex():
                    problems.append("the controller identity returned is not the one this accessory accepted")
                else:
                    sk = ed25519.Ed25519PrivateKey.from_private_bytes(bytes.fromhex(rec["iOSDeviceLTSK"]))
                    if sk.public_key().public_bytes(**refacc.RAW) != accessory.accepted[1]:
                        problems.append("the controller's private key does not match the public key the accessory accepted")
                if kept is None or kept.pairing_data is not rec and dict(kept.pairing_data) != dict(rec):
                    problems.append("the pairing kept under the alias differs from the one returned")
                if rec.get("AccessoryIP") != rcsim.host(1 + round_):
                    problems.append(f"the address recorded is {rec.get('AccessoryIP')}, pairing ran against {rcsim.host(1 + round_)}")
                history.append(round_)
                ctx.nontrivial.add(("discovery", "ip", round_))
                ctx.dist["discovery:ip"] += 1
                if problems:
                    ctx.violation("setup/discovery/record", f"IpDiscovery pairing #{round_ + 1} under alias '{alias}' (accessory reset before it: same identifier, new long-term key): " + "; ".join(problems), case)
                    break
    finally:
        loop.close()


def canon_wrongcode(s):
    return s


def replay(ctx, driver, c):
    return None
