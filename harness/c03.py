"""C03 - pair-setup returns pairing data only after a fully authenticated exchange."""
from __future__ import annotations

from unittest import mock

from cryptography.hazmat.primitives.asymmetric import ed25519
from cryptography.hazmat.primitives.ciphers.aead import ChaCha20Poly1305

from harness import cryptoval, refacc
from harness.c01 import L, items_str, toks
from harness.common import Ctx, Driver, compare_with_model, hx

import aiohomekit.crypto.srp as srpmod
import aiohomekit.protocol as P

ID = "C03"
RULE = ("honest pairings over random codes/identifiers/keys/salts; adversarial: wrong-code accessory, bit flips of the M4 proof, M4 with error/foreign state/no proof, M6 encrypted or signed "
        "with another key, signature over another identifier/key, removed signature/identifier/key, bit and byte corruptions of M6, truncated M6, wrong-length key, M6 replayed from another "
        "exchange; M2 with missing fields; unpinned histories of several pair-setups in one process (honest, wrong-code, one altered reply, byte-for-byte replays of an earlier exchange's "
        "M2/M4/M6; two exchanges interleaved) with every single-bit flip, sampled byte values and length changes of the State item of M2/M4/M6, bit/byte/length corruptions and removal of every "
        "other field (outer and inside M6) and added Error items - through the generators with replies handed over as lists and as IP/CoAP decode them (expected filter), IpDiscovery over "
        "HTTP, CoAPDiscovery and the BLE GATT state-machine driver; replies corrupted as ENCODED BYTES on the way (M2, M4, M6 and the sub-TLV the accessory seals into M6): every single-bit flip of "
        "every type byte, single-bit flips of every length byte, type bytes replaced by the neighbouring item's / the step's other / fragment / separator types, length bytes off by one / 0 / 255, "
        "value bytes, one byte inserted or deleted at every boundary, neighbouring encoded items swapped, both item orders - every bit of every byte of M2 in every run (part 1 is replayed on one "
        "genuine M2, whole pairings for what it lets through) and of M4/M6/sub-TLV in the thorough tier - decoded with the expected filter, decoded whole as BLE does, and through IpDiscovery, "
        "CoAPDiscovery and the GATT driver; judged by the harness's own TLV8 reading of the bytes that travelled (wire_verdict); pair-setup over LINKS THAT FAIL (stream links): histories of "
        "async_start_pairing / finish_pairing calls (right, another, a malformed code; finish_pairing called again after a failure; a new start) on one BleDiscovery (found by a real BleController from an "
        "advertisement, only bleak's connect replaced by a GATT link), IpDiscovery (in-memory TCP) and CoAPDiscovery (aiocoap context replaced) in which the link is lost before / after each of M1..M6, at the "
        "n-th GATT fragment write / read, at a connection attempt or while idle, once or several times, so that the library's own retries and reconnects run (virtual time) against an accessory that opens a NEW "
        "SRP session (new salt, new B) for every M1, forgets it with the link, and in chosen sessions is a wrong-code accessory or alters one reply - judged by the accessory's own verdict on every M3 / M5 it "
        "receives in its CURRENT session and by what it accepted during the call that returned; the required items of the reply with an ENCRYPTED PAYLOAD (M6: Identifier, PublicKey, Signature) split between the payload and "
        "the PLAINTEXT reply (stream payload_level): every non-empty subset taken out of the payload and supplied as plaintext items next to EncryptedData (same value, another identity's value, a signature by another key), "
        "a whole other identity in plaintext with an empty payload, complete payloads shadowed by plaintext items of the inner types (same / different values), another identity inside with the accessory's own in plaintext, "
        "items taken out and not supplied, plaintext items before / between / after State and EncryptedData - through the generators with replies as lists, decoded whole (BLE) and with the expected filter, the GATT driver, "
        "IpDiscovery, CoAPDiscovery and the failing-link histories of BleDiscovery / IpDiscovery / CoAPDiscovery; judged by what the accessory sealed: pairing succeeds only if all required items are INSIDE the payload that "
        "decrypts under the exchange key with the signature there valid over the identifier and key there, and returns exactly that identifier and key. non-trivial = distinct (mutation class, outcome class)")
TRUSTED = ["reference SRP server and accessory (harness/refacc.py)", "Lean Real crypto (validated per run)"]
ASSUMPTIONS = ["SRP values themselves are C02's subject: the model takes K and the expected server proof from the real SrpClient of the same exchange",
               "ephemerals pinned by patching os.urandom (srp) and Ed25519PrivateKey.generate (protocol) in the differential streams only; the history streams leave the library's random source alone and "
               "observe freshness at the accessory (the public value A of M3 never repeats within a history)",
               "unforgeability / AEAD integrity assumed; proved: the logic (return implies checks, signature binds id and key) and agreement with the HAP 5.6 accessory"]
EXPLANATION = "Lean theorems C03_* over the model of perform_pair_setup_part1/2 with abstract crypto; byte-exact differential tie on M5 and the returned record; adversarial streams judged by an independent accessory"

CLS = {"InvalidError", "AuthenticationError", "BackoffError", "MaxPeersError", "MaxTriesError", "UnavailableError", "BusyError", "IllegalData", "InvalidSignatureError", "ValueError",
       "TlvParseException", "UnicodeDecodeError"}


def run(ctx: Ctx, driver: Driver):
    rng = ctx.rng
    rb = lambda n: bytes(rng.randrange(256) for _ in range(n))  # noqa: E731
    cryptoval.validate(ctx, driver, 3)
    cases, outs, lines = [], [], []
    m5cases, m5outs, m5lines = [], [], []
    # ---- part 1 (M2)
    c1, o1, l1 = [], [], []
    for items in ([(6, b"\x02"), (3, b"\x05" * 384), (2, b"\x07" * 16)], [(3, b"\x05" * 384), (2, b"\x07" * 16)], [(6, b"\x02"), (3, b"\x05" * 384)], [(6, b"\x02"), (2, b"\x07" * 16)],
                  [(6, b"\x02"), (7, b"\x06")], [(6, b"\x03"), (3, b"\x05"), (2, b"\x07")], [(7, b"\x02"), (3, b"\x05"), (2, b"\x07")], [(2, b""), (3, b""), (6, b"\x02")]):
        g = P.perform_pair_setup_part1(True)
        g.send(None)
        try:
            g.send(L(items))
            out = "yielded"
        except StopIteration as s:
            salt, pk = s.value
            out = f"ok {hx(salt)} {hx(pk)}"
        except Exception as e:  # noqa: BLE001
            out = "err " + type(e).__name__
        ctx.evaluations += 1
        # oracle (HAP 5.6.2): M2 carries no Error, a Salt and a PublicKey, and no other step number - anything else ends the
        # attempt (a reply without a State item is tolerated by the library on purpose; C04 documents that)
        d = dict(items)
        complete = d.get(6, b"\x02") == b"\x02" and 7 not in d and 2 in d and 3 in d
        if out.startswith("ok") and not complete:
            ctx.violation("setup/m2-accepted", f"M2 reply {[(k, len(v)) for k, v in items]} (type, length) lacks a required item or carries an error, yet part 1 went on with salt {out.split(' ')[1][:16]}...", {"stream": "m2", "items": [[k, hx(v)] for k, v in items]})
        if out.startswith("ok") and complete and (bytes.fromhex(out.split(" ")[1]) if out.split(" ")[1] != "-" else b"") != d[2]:
            ctx.violation("setup/m2-salt", "part 1 returned a salt other than the one the accessory sent", {"stream": "m2", "items": [[k, hx(v)] for k, v in items]})
        c1.append({"stream": "m2", "items": [[k, hx(v)] for k, v in items]})
        o1.append(out)
        l1.append("ps.m2 " + toks(items))
        ctx.nontrivial.add(("m2", out.split(" ")[0], len(items)))
    compare_with_model(ctx, "m2", c1, o1, l1, driver)

    view = {}

    def exchange(kind):
        pin = rng.choice(["031-45-154", "111-22-333"])
        ios_id = rng.choice(["ctl-uuid", "7d0ca5d1-1d9c-4d29-b2a0-6c8e4f1e0001"])
        salt = rng.choice([rb(16), bytes(16)])
        b = int.from_bytes(rb(32), "big")
        a_bytes = rb(16)
        if kind == "honest-K0":
            # an honest session whose SRP session key K = H(S) starts with a zero byte (1 in 256): every place that takes a
            # detour through an integer loses that byte
            from harness.c02 import mk_client as _mk
            A_b0 = bytes(_mk(pin, a_bytes, salt, refacc.PAD(refacc.SrpServer(pin, salt, b).B)).get_public_key_bytes())
            for _ in range(3000):
                cand = refacc.SrpServer(pin, salt, b)
                cand.on_A(A_b0)
                if cand.K[0] == 0:
                    break
                b = int.from_bytes(rb(32), "big")
            ctx.dist["K-leading-zero-found"] += int(cand.K[0] == 0)
        ltsk_seed = rb(32)
        acc = refacc.Identity(rb, acc_id=rng.choice([b"12:34:56:00:01:0A", b"AA:BB:CC:DD:EE:FF", b"3c:5a:b4:00:1f:e2", b"aB:cd:EF:01:23:45"]))
        srv = refacc.SrpServer(pin if kind != "wrong-code-accessory" else "999-99-999", salt, b)
        with mock.patch.object(srpmod.os, "urandom", lambda n: a_bytes), \
                mock.patch.object(P.ed25519.Ed25519PrivateKey, "generate", staticmethod(lambda: ed25519.Ed25519PrivateKey.from_private_bytes(ltsk_seed))):
            g = P.perform_pair_setup_part2(pin, ios_id, bytearray(salt), bytearray(refacc.PAD(srv.B)))
            m3 = dict((k, bytes(v)) for k, v in g.send(None)[0])
            srv.on_A(m3[3])
            # what the model is given of the SRP client (C02 covers these values): a twin client with the same secret
            from harness.c02 import mk_client
            twin = mk_client(pin, a_bytes, salt, refacc.PAD(srv.B))
            view["K"] = bytes(twin.get_session_key_bytes())
            view["M2"] = twin.digest(twin.A_b, twin.get_proof_bytes(), twin.get_session_key_bytes())
            m4 = [(6, b"\x04"), (4, srv.M2)]
            legit4 = kind != "wrong-code-accessory"
            if kind == "m4-bitflip":
                p = bytearray(srv.M2)
                p[rng.randrange(64)] ^= 1 << rng.randrange(8)
                m4 = [(6, b"\x04"), (4, bytes(p))]
                legit4 = False
            elif kind == "m4-error":
                m4 = rng.choice([[(6, b"\x04"), (7, b"\x02")], [(7, b"\x05")], [(6, b"\x04"), (4, srv.M2), (7, b"\x03")]])
                legit4 = False
            elif kind == "m4-state":
                m4 = [(6, bytes([rng.choice([1, 2, 3, 5, 6])])), (4, srv.M2)]
                legit4 = False
            elif kind == "m4-no-proof":
                m4 = [(6, b"\x04")]
                legit4 = False
            elif kind == "m4-zero-prepended":
                m4 = [(6, b"\x04"), (4, b"\0" + srv.M2)]
            elif kind == "m4-proof-suffix":
                m4 = [(6, b"\x04"), (4, srv.M2[-rng.choice([63, 32, 8, 1]):])]
                legit4 = False
            elif kind == "m4-proof-prefix":
                m4 = [(6, b"\x04"), (4, srv.M2[:rng.choice([63, 32, 8, 1])])]
                legit4 = False
            # the client's own view of K and of the expected proof, for the model (computed from the reference server: equal by C02 when the code is right)
            try:
                req5 = g.send(L(m4))
            except StopIteration:
                return "early-return", None
            except Exception as e:  # noqa: BLE001
                out = "err4 " + type(e).__name__
                return finish(kind, out, legit4 and False, None, pin, ios_id, salt, srv, m4, [], ltsk_seed, acc, None)
            m5 = [(k, bytes(v)) for k, v in req5[0]]
        K = srv.K  # == client K when the proof verified
        ekey = refacc.hk(K, b"Pair-Setup-Encrypt-Salt", b"Pair-Setup-Encrypt-Info")
        # accessory checks M5
        m5_ok = False
        try:
            sub = refacc.untlv(ChaCha20Poly1305(ekey).decrypt(b"\0\0\0\0PS-Msg05", dict(m5)[5], b""))
            cx = refacc.hk(K, b"Pair-Setup-Controller-Sign-Salt", b"Pair-Setup-Controller-Sign-Info")
            ed25519.Ed25519PublicKey.from_public_bytes(sub[3]).verify(sub[10], cx + sub[1] + sub[3])
            m5_ok = sub[1] == ios_id.encode() and dict(m5)[6] == b"\x05"
        except Exception:  # noqa: BLE001
            m5_ok = False
        ctx.evaluations += 1
        if not m5_ok:
            ctx.violation("setup/m5-rejected", "a conformant accessory rejects the controller's M5", {"stream": "setup", "kind": kind})
        m5cases.append({"stream": "m5", "K": hx(K)})
        m5outs.append(items_str(m5))
        m5lines.append(f"ps.m5 {hx(K)} {hx(ios_id.encode())} {hx(ltsk_seed)}")
        # M6
        ax = refacc.hk(K, b"Pair-Setup-Accessory-Sign-Salt", b"Pair-Setup-Accessory-Sign-Info")
        parts = dict(id=acc.acc_id, pk=acc.acc_ltpk, sigkey=acc.acc_ltsk, ekey=ekey, signed=None, drop=None)
        legit6 = True
        if kind == "m6-other-signkey":
            parts["sigkey"] = ed25519.Ed25519PrivateKey.from_private_bytes(rb(32))
            legit6 = False
        elif kind == "m6-other-enckey":
            parts["ekey"] = rb(32)
            legit6 = False
        elif kind == "m6-sig-other-id":
            parts["signed"] = ax + b"99:99:99:99:99:99" + acc.acc_ltpk
            legit6 = False
        elif kind == "m6-sig-other-key":
            parts["signed"] = ax + acc.acc_id + rb(32)
            legit6 = False
        elif kind in ("m6-drop-sig", "m6-drop-id", "m6-drop-key"):
            parts["drop"] = {"m6-drop-sig": 10, "m6-drop-id": 1, "m6-drop-key": 3}[kind]
            legit6 = False
        elif kind == "m6-short-key":
            parts["pk"] = acc.acc_ltpk[:31]
            legit6 = False
        elif kind == "m6-other-K":
            ax2 = refacc.hk(rb(64), b"Pair-Setup-Accessory-Sign-Salt", b"Pair-Setup-Accessory-Sign-Info")
            parts["signed"] = ax2 + acc.acc_id + acc.acc_ltpk
            legit6 = False
        sig = parts["sigkey"].sign(parts["signed"] or (ax + parts["id"] + parts["pk"]))
        inner = [(1, parts["id"]), (3, parts["pk"]), (10, sig)]
        if parts["drop"]:
            inner = [t for t in inner if t[0] != parts["drop"]]
        enc = ChaCha20Poly1305(parts["ekey"]).encrypt(b"\0\0\0\0PS-Msg06", refacc.tlv(inner), b"")
        m6 = [(6, b"\x06"), (5, enc)]
        if kind == "m6-bitflip":
            e = bytearray(enc)
            e[rng.randrange(len(e))] ^= 1 << rng.randrange(8)
            m6 = [(6, b"\x06"), (5, bytes(e))]
            legit6 = False
        elif kind == "m6-trunc":
            m6 = [(6, b"\x06"), (5, enc[:-1])]
            legit6 = False
        elif kind == "m6-error":
            m6 = rng.choice([[(6, b"\x06"), (7, b"\x02"), (5, enc)], [(7, b"\x04"), (5, enc)]])
            legit6 = False
        elif kind == "m6-state":
            m6 = [(6, b"\x04"), (5, enc)]
            legit6 = False
        elif kind == "m6-no-enc":
            m6 = [(6, b"\x06")]
            legit6 = False
        try:
            g.send(L(m6))
            out = "yielded"
        except StopIteration as s:
            r = s.value
            out = f"ok {hx(r['AccessoryPairingID'].encode())} {r['AccessoryLTPK']} {hx(r['iOSPairingId'].encode())} {r['iOSDeviceLTSK']} {r['iOSDeviceLTPK']}"
        except Exception as e:  # noqa: BLE001
            out = "err6 " + type(e).__name__
        return finish(kind, out, legit4 and legit6, r if out.startswith("ok") else None, pin, ios_id, salt, srv, m4, m6, ltsk_seed, acc, K)

    def finish(kind, out, legit, rec, pin, ios_id, salt, srv, m4, m6, ltsk_seed, acc, K):
        case = {"stream": "setup", "kind": kind, "m4": [[k, hx(v)] for k, v in m4], "m6": [[k, hx(v)] for k, v in m6]}
        cls = out.split(" ")[0] + (":" + out.split(" ")[1] if out.startswith("err") else "")
        ctx.nontrivial.add((kind, cls))
        ctx.dist[f"{kind}:{cls}"] += 1
        if out.startswith("err") and out.split(" ")[1] not in CLS:
            ctx.violation(f"setup/{kind}/{out.split(' ')[1]}", f"{kind}: unexpected exception class {out.split(' ')[1]}", case)
        if legit:
            if rec is None:
                ctx.violation(f"setup/{kind}/rejected-genuine", f"{kind}: genuine pairing failed with {out[:60]}", case)
            else:
                sk = ed25519.Ed25519PrivateKey.from_private_bytes(bytes.fromhex(rec["iOSDeviceLTSK"]))
                okrec = (rec["AccessoryPairingID"].encode() == acc.acc_id and rec["AccessoryLTPK"] == acc.acc_ltpk.hex() and rec["iOSPairingId"] == ios_id
                         and sk.public_key().public_bytes(**refacc.RAW).hex() == rec["iOSDeviceLTPK"])
                if not okrec:
                    ctx.violation(f"setup/{kind}/record", f"{kind}: returned record is not self-consistent / not the authenticated identity", case)
        elif rec is not None:
            ctx.violation(f"setup/{kind}/returned", f"{kind}: pairing data was returned although the exchange was not authentic", case)
        # model: K and expected proof from the reference server (the real client's when the code is right)
        cases.append(case)
        outs.append(out)
        lines.append(f"ps.part2 {hx(view['K'])} {hx(view['M2'])} {hx(ios_id.encode())} {hx(ltsk_seed)} {toks(m4)} | {toks(m6)}")
        return out, rec

    kinds = ["honest"] * 4 + ["wrong-code-accessory", "m4-bitflip", "m4-error", "m4-state", "m4-no-proof", "m4-zero-prepended", "m4-proof-suffix", "m4-proof-prefix", "m6-other-signkey", "m6-other-enckey", "m6-sig-other-id",
                              "m6-sig-other-key", "m6-drop-sig", "m6-drop-id", "m6-drop-key", "m6-short-key", "m6-other-K", "m6-bitflip", "m6-trunc", "m6-error", "m6-state", "m6-no-enc"]
    for i in range(ctx.budget(72, 2400)):
        exchange(kinds[i % len(kinds)])
    for _ in range(ctx.budget(1, 12)):
        exchange("honest-K0")
    ctx.sample({k: (v if len(str(v)) < 300 else str(v)[:300] + "...") for k, v in cases[0].items()})
    # wrong-code accessory: the model is given the reference server's K/M2 which the real client does not share - the outcome (AuthenticationError at M4) must still agree
    discovery_level(ctx, rng, rb)
    history_level(ctx, rng, rb)
    link_level(ctx, rng, rb)
    compare_with_model(ctx, "setup", cases, outs, lines, driver, canon=canon_wrongcode)
    compare_with_model(ctx, "m5", m5cases, m5outs, m5lines, driver)


class SetupAccessory:
    """a conformant accessory for the whole pair-setup exchange (M1..M6), written from HAP 5.6 with harness.refacc"""

    def __init__(self, pin, ident, rb):
        self.pin, self.id, self.rb = pin, ident, rb
        self.accepted = None  # (controller id, controller long-term public key) accepted in M5

    def handle(self, items):
        d = {int(k): bytes(v) for k, v in items}
        st = d.get(6)
        if st == b"\x01":
            self.salt = self.rb(16)
            self.srv = refacc.SrpServer(self.pin, self.salt, int.from_bytes(self.rb(32), "big"))
            return [(6, b"\x02"), (3, refacc.PAD(self.srv.B)), (2, self.salt)]
        if st == b"\x03":
            self.srv.on_A(d[3])
            if d.get(4) != self.srv.M1:
                return [(6, b"\x04"), (7, b"\x02")]
            return [(6, b"\x04"), (4, self.srv.M2)]
        if st == b"\x05":
            K = self.srv.K
            ekey = refacc.hk(K, b"Pair-Setup-Encrypt-Salt", b"Pair-Setup-Encrypt-Info")
            try:
                sub = refacc.untlv(ChaCha20Poly1305(ekey).decrypt(b"\0\0\0\0PS-Msg05", d[5], b""))
                cx = refacc.hk(K, b"Pair-Setup-Controller-Sign-Salt", b"Pair-Setup-Controller-Sign-Info")
                ed25519.Ed25519PublicKey.from_public_bytes(sub[3]).verify(sub[10], cx + sub[1] + sub[3])
            except Exception:  # noqa: BLE001
                return [(6, b"\x06"), (7, b"\x02")]
            self.accepted = (sub[1].decode(), sub[3])
            ax = refacc.hk(K, b"Pair-Setup-Accessory-Sign-Salt", b"Pair-Setup-Accessory-Sign-Info")
            sig = self.id.acc_ltsk.sign(ax + self.id.acc_id + self.id.acc_ltpk)
            enc = ChaCha20Poly1305(ekey).encrypt(b"\0\0\0\0PS-Msg06", refacc.tlv([(1, self.id.acc_id), (3, self.id.acc_ltpk), (10, sig)]), b"")
            return [(6, b"\x06"), (5, enc)]
        return [(6, b"\x02"), (7, b"\x01")]


def discovery_level(ctx, rng, rb):
    """the transports' own pairing entry points: IpDiscovery.async_start_pairing / finish_pairing against a conformant
    accessory, twice under the same alias (the accessory was reset in between: same identifier, new long-term key).
    What is returned - and what the controller keeps under the alias - must be exactly the identity authenticated in
    THIS exchange and the controller key THIS accessory accepted."""
    import asyncio
    from unittest.mock import MagicMock

    from aiohomekit.characteristic_cache import CharacteristicCacheMemory
    from aiohomekit.controller.ip.discovery import IpDiscovery

    from harness import rcsim

    async def pair_once(controller, alias, accessory, hosts):
        class Conn:
            is_connected = True

            async def ensure_connection(self):
                return None

            async def post_tlv(self, target, body, expected=None):
                return L(accessory.handle(body))

            async def close(self):
                return None
        d = IpDiscovery.__new__(IpDiscovery)
        d.controller = controller
        d.description = rcsim.description(hosts)
        d.connection = Conn()
        finish = await d.async_start_pairing(alias)
        return await finish(accessory.pin)

    loop = asyncio.new_event_loop()
    try:
        for trial in range(ctx.budget(2, 12)):
            controller = MagicMock()
            controller._char_cache = CharacteristicCacheMemory()
            controller.pairings = {}
            acc_id = rng.choice([b"12:34:56:00:01:0A", b"3c:5a:b4:00:1f:e2"])
            alias = "kitchen"
            history = []
            for round_ in range(rng.choice([2, 3])):
                ident = refacc.Identity(rb, acc_id=acc_id)  # a reset accessory keeps its identifier and gets a new key pair
                accessory = SetupAccessory(rng.choice(["031-45-154", "111-22-333"]), ident, rb)
                ctx.evaluations += 1
                case = {"stream": "discovery", "transport": "ip", "round": round_, "alias": alias}
                try:
                    obj = loop.run_until_complete(pair_once(controller, alias, accessory, [1 + round_]))
                except Exception as e:  # noqa: BLE001
                    ctx.violation("setup/discovery/rejected-genuine", f"IpDiscovery pairing round {round_ + 1} under alias '{alias}' failed with {type(e).__name__}: {e}", case)
                    break
                rec = obj.pairing_data
                kept = controller.pairings.get(alias)
                problems = []
                if rec.get("AccessoryLTPK") != ident.acc_ltpk.hex() or rec.get("AccessoryPairingID") != acc_id.decode():
                    problems.append("the accessory identity returned is not the one authenticated in this exchange")
                if accessory.accepted is None or rec.get("iOSPairingId") != accessory.accepted[0] or rec.get("iOSDeviceLTPK") != accessory.accepted[1].hex():
                    problems.append("the controller identity returned is not the one this accessory accepted")
                else:
                    sk = ed25519.Ed25519PrivateKey.from_private_bytes(bytes.fromhex(rec["iOSDeviceLTSK"]))
                    if sk.public_key().public_bytes(**refacc.RAW) != accessory.accepted[1]:
                        problems.append("the controller's private key does not match the public key the accessory accepted")
                if kept is None or kept.pairing_data is not rec and dict(kept.pairing_data) != dict(rec):
                    problems.append("the pairing kept under the alias differs from the one returned")
                if rec.get("AccessoryIP") != rcsim.host(1 + round_):
                    problems.append(f"the address recorded is {rec.get('AccessoryIP')}, pairing ran against {rcsim.host(1 + round_)}")
                history.append(round_)
                ctx.nontrivial.add(("discovery", "ip", round_))
                ctx.dist["discovery:ip"] += 1
                if problems:
                    ctx.violation("setup/discovery/record", f"IpDiscovery pairing #{round_ + 1} under alias '{alias}' (accessory reset before it: same identifier, new long-term key): " + "; ".join(problems), case)
                    break
    finally:
        loop.close()


def canon_wrongcode(s):
    return s


# ------------------------------------------------------------------------------------------------------------------
# Histories of pair-setups in ONE process, nothing pinned: every step is one pairing attempt of the real library
# against a peer written here - a conformant accessory, an accessory programmed with another code, a conformant
# accessory ONE of whose replies is altered in one field, or an impostor that only plays back what an accessory
# answered in an earlier step.  Entry points: the generators as a transport drives them (replies handed over as
# decoded lists - the BLE way - or re-encoded and decoded with the expected-type filter the generator yielded, as
# post_tlv / CoAP do), IpDiscovery over HTTP on the in-memory network, CoAPDiscovery with aiocoap's context replaced,
# and the BLE GATT driver drive_pairing_state_machine on a scripted pairing characteristic.
# Oracles (property text + the peers' own bookkeeping only): a conformant accessory is paired and the record is the
# identity it presented / the controller key it accepted; every other step fails with an error and returns nothing;
# the controller's SRP public value A is new in every exchange of a history (it is what binds M4/M6 to the exchange).

FIELD = {1: "id", 2: "salt", 3: "pubkey", 4: "proof", 5: "encdata", 6: "state", 7: "error", 10: "sig"}
ENTRIES = ["gen-list", "gen-wire", "ip", "coap", "ble-gatt"]
PINS = ["031-45-154", "111-22-333", "482-19-307"]
ACC_IDS = ["12:34:56:00:01:0A", "3c:5a:b4:00:1f:e2", "aB:cd:EF:01:23:45"]
_VERIFIER = {}


def _srp_server(pin, salt, b):
    """refacc.SrpServer whose verifier g^x is computed once per (code, salt) - an accessory stores salt and verifier"""
    base = _VERIFIER.get((pin, salt))
    if base is None:
        base = _VERIFIER[(pin, salt)] = refacc.SrpServer(pin, salt, 1)
    srv = refacc.SrpServer.__new__(refacc.SrpServer)
    srv.salt, srv.I, srv.pin, srv.x, srv.v, srv.b = base.salt, base.I, base.pin, base.x, base.v, b
    srv.B = (refacc.K_MULT * srv.v + pow(refacc.G, b, refacc.N3072)) % refacc.N3072
    return srv


def alter(v, op):
    """one alteration of a field value; the result always differs from v unless v is empty and the op needs a byte"""
    v = bytes(v)
    if op[0] == "flip":
        if not v:
            return v
        k = op[1] % (8 * len(v))
        b = bytearray(v)
        b[k // 8] ^= 1 << (k % 8)
        return bytes(b)
    if op[0] == "set":
        if not v:
            return v
        i = op[1] % len(v)
        b = bytearray(v)
        b[i] = op[2] if op[2] != v[i] else op[2] ^ 0x01
        return bytes(b)
    if op[0] == "trunc":
        return v[:-1]
    if op[0] == "append":
        return v + bytes([op[1]])
    if op[0] == "empty":
        return b""
    raise ValueError(op)


# ---- corruption of the ENCODED reply (type bytes, length bytes, values, fragment boundaries) -----------------------
# op: ["xor", position, mask] | ["set", position, byte] | ["ins", position, byte] | ["del", position] |
#     ["swap", k] (the k-th and the (k+1)-th encoded item - fragment - change places)

WIRE_REQUIRED = {(2, "outer"): (3, 2), (4, "outer"): (4,), (6, "outer"): (5,), (6, "inner"): (1, 3, 10)}
WIRE_EXPECTED = {(2, "outer"): (6, 7, 3, 2), (4, "outer"): (6, 7, 4, 5), (6, "outer"): (6, 7, 5), (6, "inner"): (1, 3, 10)}
WIRE_NUMERIC = {(2, 2), (4, 4)}  # (message, type): salt and proof enter the exchange as numbers - leading zero bytes carry nothing


def wire_frags(b):
    """the encoded items of a well-formed TLV8 string: (offset of the type byte, type, length)"""
    out, i = [], 0
    while i + 2 <= len(b):
        out.append((i, b[i], b[i + 1]))
        i += 2 + b[i + 1]
    return out


def wire_apply(b, op):
    b = bytearray(b)
    if op[0] == "swap":
        fr = wire_frags(bytes(b))
        if len(fr) < 2:
            return bytes(b)
        (o1, _, l1), (o2, _, l2) = fr[op[1] % (len(fr) - 1)], fr[op[1] % (len(fr) - 1) + 1]
        return bytes(b[:o1] + b[o2:o2 + 2 + l2] + b[o1:o1 + 2 + l1] + b[o2 + 2 + l2:])
    if op[0] == "ins":
        b.insert(op[1] % (len(b) + 1), op[2] & 255)
        return bytes(b)
    if not b:
        return b""
    pos = op[1] % len(b)
    if op[0] == "xor":
        b[pos] ^= (op[2] & 255) or 1
    elif op[0] == "set":
        b[pos] = (op[2] & 255) if (op[2] & 255) != b[pos] else b[pos] ^ 1
    elif op[0] == "del":
        del b[pos]
    else:
        raise ValueError(op)
    return bytes(b)


def wire_class(genuine, op):
    """what the corruption hits in the genuine encoding"""
    if op[0] == "swap":
        return "items"
    pos = op[1] % (len(genuine) + (1 if op[0] == "ins" else 0))
    for off, _, ln in wire_frags(genuine):
        if pos == off:
            return "type"
        if pos == off + 1:
            return "len"
        if pos < off + 2 + ln:
            return "value"
    return "end"


def read_tlv8(b):
    """the harness's own TLV8 reader (HAP 14.1): the complete items in order, neighbouring items of one type being fragments
    of one value; an item whose announced length runs past the end is not an item (second result: bytes were left over)"""
    out, i = [], 0
    while i + 2 <= len(b) and i + 2 + b[i + 1] <= len(b):
        t, v = b[i], bytes(b[i + 2:i + 2 + b[i + 1]])
        i += 2 + b[i + 1]
        if out and out[-1][0] == t:
            out[-1] = (t, out[-1][1] + v)
        else:
            out.append((t, v))
    return out, i < len(b)


def wire_verdict(msg, where, genuine, sent):
    """what the property lets the controller do with the bytes `sent` in place of `genuine`, from this reader alone:
    'genuine'   - the same items (their order carries nothing): a conformant reply, pairing must succeed;
    'void'      - every item the step needs is there with exactly the value the accessory produced, there is no Error item
                  and no State item saying something else: the alteration hit nothing the exchange uses (a State item may be
                  absent - the library tolerates accessories that leave it out -, items of other types are ignored, and which of
                  two SEPARATED items of one type counts is not defined, so either may): accepting or failing are both fine;
    'must-fail' - anything else: an item the step needs is missing or does not carry the accessory's value."""
    want, _ = read_tlv8(genuine)
    got, leftover = read_tlv8(sent)
    if not leftover and sorted(got) == sorted(want):
        return "genuine"
    want = dict(want)
    have = {}
    for t, v in got:
        have.setdefault(t, []).append(v)
    if where == "outer":
        if 7 in have:
            return "must-fail"
        if 6 in have and want[6] not in have[6]:
            return "must-fail"
    for t in WIRE_REQUIRED[(msg, where)]:
        if (msg, t) in WIRE_NUMERIC and where == "outer":
            ok = any(len(v) > 0 and v.lstrip(b"\0") == want[t].lstrip(b"\0") for v in have.get(t, []))
        else:
            ok = want[t] in have.get(t, [])
        if not ok:
            return "must-fail"
    return "void"


def wire_template(msg, where, id_len=17, reverse=False):
    """an encoding laid out like the accessory's reply (all lengths in pair-setup are fixed)"""
    if where == "inner":
        items = [(1, id_len), (3, 32), (10, 64)]
    else:
        items = {2: [(6, 1), (3, 384), (2, 16)], 4: [(6, 1), (4, 64)], 6: [(6, 1), (5, id_len + 32 + 64 + 6 + 16)]}[msg]
        if reverse:
            items = items[::-1]
    return refacc.tlv([(t, b"\x01" * n) for t, n in items])


def wire_ops(tmpl, expected, rng, every_byte, nsub, nval, nindel, nlenflip=8):
    """single-byte corruptions of an encoding laid out like `tmpl`.  Always: every single-bit flip of every type byte, every
    type byte replaced by the type of a neighbouring item, every swap of neighbouring encoded items.  Sampled (all of them
    when the counts are large): single-bit flips of every length byte (nlenflip of the 8 each), flips and substitutions of
    value bytes (every bit of every byte when every_byte), type bytes replaced by the other types the step knows / fragment
    and separator types / anything, length bytes replaced by 0, one less, one more, 255, anything; one byte inserted at /
    deleted from every boundary of the encoding."""
    frs = wire_frags(tmpl)
    bits = lambda x: bin(x).count("1")  # noqa: E731
    structural = sorted([off for off, _, _ in frs] + [off + 1 for off, _, _ in frs])
    values = [p for p in range(len(tmpl)) if p not in set(structural)]
    if every_byte:
        ops = [["xor", p, 1 << k] for p in range(len(tmpl)) for k in range(8)]
    else:
        ops = [["xor", off, 1 << k] for off, _, _ in frs for k in range(8)]
        ops += [["xor", off + 1, 1 << k] for off, _, _ in frs for k in sorted(rng.sample(range(8), min(nlenflip, 8)))]
    if not every_byte:
        ops += [["xor", p, 1 << rng.randrange(8)] for p in rng.sample(values, min(nval, len(values)))]
    ops += [["set", p, rng.randrange(256)] for p in rng.sample(values, min(nval, len(values)))]
    known = sorted(set(t for _, t, _ in frs) | set(expected) | {0, 0x0C, 0x0D, 0xFF})
    for i, (off, t, ln) in enumerate(frs):
        neigh = sorted({frs[j][1] for j in (i - 1, i + 1) if 0 <= j < len(frs)} - {t})
        other = [x for x in known if x != t and x not in neigh] + [x for x in [rng.randrange(256) for _ in range(2)] if x != t]
        ops += [["set", off, x] for x in neigh + rng.sample(other, min(nsub, len(other))) if bits(x ^ t) != 1]
        lens = [x for x in dict.fromkeys([0, ln - 1, ln + 1, 255, rng.randrange(256)]) if 0 <= x <= 255 and x != ln and bits(x ^ ln) != 1]
        ops += [["set", off + 1, x] for x in rng.sample(lens, min(nsub, len(lens)))]
    spots = structural + [off + 2 for off, _, _ in frs] + [len(tmpl)]
    ins = []
    for p in dict.fromkeys(spots):
        near = {t for off, t, ln in frs if off <= p <= off + 2 + ln}
        ins += [["ins", p, x] for x in sorted(near | {0, rng.randrange(256)})]
    dels = [["del", p] for p in dict.fromkeys(structural + [off + 2 for off, _, _ in frs] + [off + 1 + ln for off, _, ln in frs])]
    ops += rng.sample(ins, min(nindel, len(ins))) + rng.sample(dels, min(nindel, len(dels)))
    ops += [["swap", k] for k in range(len(frs) - 1)]
    return ops


# ---- which items travel INSIDE the encrypted payload of a reply and which in plaintext next to EncryptedData ----------
# The only reply of pair-setup with an encrypted payload is M6 (required inside: Identifier, PublicKey, Signature); the
# machinery is written over (message, required types) so that it reads the same for any such message.

PAYLOAD_REQUIRED = {6: (1, 3, 10)}
PAYLOAD_SOURCES = ("own", "other", "forged")
OTHER_ACC_ID = b"99:88:77:66:55:44"


def payload_values(ax, own, rb):
    """the values an item of the payload can be given: 'own' - the accessory's identifier, long-term key and its signature over
    them; 'other' - identifier, key and (valid) signature of ANOTHER identity under the same exchange; 'forged' - the other
    identity's identifier / key, and for the signature: the accessory's own identifier and key signed by the OTHER key"""
    o = refacc.Identity(rb, acc_id=OTHER_ACC_ID)
    return {"own": dict(own),
            "other": {1: o.acc_id, 3: o.acc_ltpk, 10: o.acc_ltsk.sign(ax + o.acc_id + o.acc_ltpk)},
            "forged": {1: o.acc_id, 3: o.acc_ltpk, 10: o.acc_ltsk.sign(ax + own[1] + own[3])}}


def payload_shape(msg, spec):
    """what the split does to the required items, from the specification alone"""
    required = PAYLOAD_REQUIRED[msg]
    inside = {int(t) for t, _ in spec.get("inside", [])}
    outside = {int(t) for t, _ in spec.get("outside", [])}
    missing = [t for t in required if t not in inside]
    if missing:
        return "moved" if all(t in outside for t in missing) else "removed"
    if outside:
        return "shadowed"
    return "whole" if all(src == "own" for _, src in spec.get("inside", [])) else "other-identity"


def payload_mutations(rng, msg, every):
    """splits of the required items of reply `msg` between the encrypted payload and the plaintext reply.  Always: every
    non-empty subset of the required items taken OUT of the payload and supplied in plaintext next to EncryptedData (with the
    same value; quick tier: one source per subset in rotation, thorough: same value / another identity's / signed by another
    key each), the whole of another identity supplied in plaintext with an empty payload, a complete genuine payload with
    plaintext items of the inner types next to it (same values; another identity's values), another identity complete inside
    with the accessory's own values in plaintext, items taken out and not supplied, a payload whose signature is by another
    key with the genuine signature in plaintext; the plaintext items before State, between State and EncryptedData, after."""
    required = PAYLOAD_REQUIRED[msg]
    subsets = [[t for k, t in enumerate(required) if mask >> k & 1] for mask in range(1, 1 << len(required))]
    out = []

    def add(inside, outside):
        out.append({"msg": msg, "payload": {"inside": [list(x) for x in inside], "outside": [list(x) for x in outside], "pos": rng.randrange(3)}})

    for k, sub in enumerate(subsets):
        keep = [(t, "own") for t in required if t not in sub]
        add(keep, [(t, "own") for t in sub])
        for src in (PAYLOAD_SOURCES[1:] if every else [PAYLOAD_SOURCES[1 + k % 2]]):
            add(keep, [(t, src) for t in sub])
    add([], [(t, "other") for t in required])
    add([(t, "own") for t in required], [(t, "own") for t in rng.choice(subsets)])
    add([(t, "own") for t in required], [(t, "other") for t in (subsets if every else [rng.choice(subsets)])[-1]])
    add([(t, "other") for t in required], [(t, "own") for t in required])
    add([(t, "other") for t in required], [])
    sub = rng.choice(subsets[:-1])
    add([(t, "own") for t in required if t not in sub], [(t, "own") for t in required if t not in sub])
    add([(1, "own"), (3, "own"), (10, "forged")], [(10, "own")])
    add([(1, "other"), (3, "own"), (10, "own")], [(1, "own")])
    add([(1, "own"), (3, "other"), (10, "own")], [(3, "own")])
    if every:
        for sub in subsets:
            for _ in range(3):
                add([(t, rng.choice(PAYLOAD_SOURCES)) for t in required if t not in sub or rng.random() < 0.2], [(t, rng.choice(PAYLOAD_SOURCES)) for t in required if t in sub or rng.random() < 0.3])
    return out


class Peer:
    """a conformant pair-setup accessory (HAP 5.6, harness.refacc) that keeps a transcript; optionally ONE field of ONE of
    its replies is altered: mutation = {"msg": 2|4|6, "where": "outer"|"inner", "field": tlv type, "op": [...]} alters the value
    of one item; mutation = {"msg": 2|4|6, "where": "outer"|"inner", "wire": [...]} corrupts the ENCODED reply (wire_apply) as it
    travels - only the entry points that ask for bytes (handle_wire) see it; for "inner" the sub-TLV of M6 is corrupted before
    it is sealed; mutation = {"msg": 6, "payload": {"inside": [[type, source]...], "outside": [[type, source]...], "pos": 0|1|2}}
    chooses which items the accessory seals into the encrypted payload of the reply and which items travel in PLAINTEXT next to
    EncryptedData (payload_values: the accessory's own value, another identity's, a signature by another key)"""

    def __init__(self, pin, ident, rb, salt, mutation=None, reverse=False):
        self.pin, self.id, self.rb, self.salt, self.mutation, self.reverse = pin, ident, rb, salt, mutation, reverse
        self.requests, self.replies = [], []
        self.accepted = None  # (controller id, controller long-term public key) accepted in M5
        self.applied = False
        self.srv = None
        self.proved = False
        self.last_msg = None
        self.wire = None  # {"msg", "where", "genuine": bytes the accessory produced, "sent": bytes that travelled}
        self.payload = None  # {"inside": items sealed, "outside": plaintext items added, "verdict", "id", "pk"} (payload mutation)

    def expected_identity(self):
        """(identifier, long-term key) a pairing with this accessory may return: the ones carried inside the payload it sealed"""
        if self.payload is not None and self.payload["verdict"] != "must-fail":
            return self.payload["id"], self.payload["pk"]
        return self.id.acc_id, self.id.acc_ltpk

    def _split(self, msg, ax, own, required=(1, 3, 10)):
        """the items sealed into the encrypted payload of reply `msg` and the plaintext items that travel next to EncryptedData;
        the verdict follows from the payload alone: the property wants every required item INSIDE what decrypts under the
        exchange key and the signature found there valid, by the key found there, over the identifier and key found there"""
        m = self.mutation
        if not m or "payload" not in m or self.applied or m["msg"] != msg:
            return [(t, own[t]) for t in required], [], 1
        spec = m["payload"]
        vals = payload_values(ax, own, self.rb)
        inside, seen = [], set()
        for t, src in spec.get("inside", []):
            if int(t) not in seen:  # one item of a type inside: which of two would count is not defined
                seen.add(int(t))
                inside.append((int(t), vals[src][int(t)]))
        outside = [(int(t), vals[src][int(t)]) for t, src in spec.get("outside", [])]
        inner = dict(inside)
        ok = all(t in inner for t in required)
        if ok:
            try:
                ed25519.Ed25519PublicKey.from_public_bytes(inner[3]).verify(inner[10], ax + inner[1] + inner[3])
            except Exception:  # noqa: BLE001
                ok = False
        verdict = "must-fail" if not ok else ("void" if outside else "genuine")
        self.applied = True
        self.payload = {"inside": inside, "outside": outside, "verdict": verdict, "id": inner.get(1), "pk": inner.get(3), "missing": [t for t in required if t not in inner]}
        return inside, outside, int(spec.get("pos", 2))

    def _mutate(self, msg, where, items):
        m = self.mutation
        if not m or "wire" in m or "payload" in m or self.applied or m["msg"] != msg or m.get("where", "outer") != where:
            return items
        f, op = int(m["field"]), m["op"]
        if op[0] == "add":
            self.applied = True
            extra = (f, bytes.fromhex(op[1]))
            return [extra] + items if op[2] else items + [extra]
        out = []
        for t, v in items:
            if t == f and not self.applied:
                if op[0] == "remove":
                    self.applied = True
                    continue
                v2 = alter(v, op)
                self.applied = v2 != v
                out.append((t, v2))
            else:
                out.append((t, v))
        return out

    def _corrupt(self, msg, where, encoded):
        m = self.mutation
        if not m or "wire" not in m or self.applied or m["msg"] != msg or m.get("where", "outer") != where:
            return encoded
        sent = wire_apply(encoded, m["wire"])
        self.applied = sent != encoded
        self.wire = {"msg": msg, "where": where, "genuine": encoded, "sent": sent}
        return sent

    def handle_wire(self, items):
        """the reply as bytes on the wire"""
        reply = self.handle(items)
        return self._corrupt(self.last_msg, "outer", refacc.tlv(reply))

    def handle(self, items):
        req = [(int(k), bytes(v)) for k, v in items]
        self.requests.append(req)
        d = dict(req)
        st = d.get(6)
        msg = None
        reply = [(6, b"\x02"), (7, b"\x01")]
        if st == b"\x01":
            self.srv = _srp_server(self.pin, self.salt, int.from_bytes(self.rb(16), "big") | 1)
            self.proved = False
            reply, msg = [(6, b"\x02"), (3, refacc.PAD(self.srv.B)), (2, self.salt)], 2
        elif st == b"\x03" and self.srv is not None and 3 in d:
            self.srv.on_A(d[3])
            if d.get(4) != self.srv.M1:
                reply = [(6, b"\x04"), (7, b"\x02")]
            else:
                self.proved = True
                reply, msg = [(6, b"\x04"), (4, self.srv.M2)], 4
        elif st == b"\x05" and self.proved and 5 in d:
            K = self.srv.K
            ekey = refacc.hk(K, b"Pair-Setup-Encrypt-Salt", b"Pair-Setup-Encrypt-Info")
            try:
                sub = refacc.untlv(ChaCha20Poly1305(ekey).decrypt(b"\0\0\0\0PS-Msg05", d[5], b""))
                cx = refacc.hk(K, b"Pair-Setup-Controller-Sign-Salt", b"Pair-Setup-Controller-Sign-Info")
                ed25519.Ed25519PublicKey.from_public_bytes(sub[3]).verify(sub[10], cx + sub[1] + sub[3])
                ok = True
            except Exception:  # noqa: BLE001
                ok = False
            if not ok:
                reply = [(6, b"\x06"), (7, b"\x02")]
            else:
                self.accepted = (sub[1].decode("utf-8", "replace"), sub[3])
                ax = refacc.hk(K, b"Pair-Setup-Accessory-Sign-Salt", b"Pair-Setup-Accessory-Sign-Info")
                sig = self.id.acc_ltsk.sign(ax + self.id.acc_id + self.id.acc_ltpk)
                sealed, plain, pos = self._split(6, ax, {1: self.id.acc_id, 3: self.id.acc_ltpk, 10: sig})
                inner = self._mutate(6, "inner", sealed)
                enc = ChaCha20Poly1305(ekey).encrypt(b"\0\0\0\0PS-Msg06", self._corrupt(6, "inner", refacc.tlv(inner)), b"")
                reply, msg = [(6, b"\x06"), (5, enc)], 6
                reply = reply[:pos] + plain + reply[pos:]
        self.last_msg = msg
        if msg is not None:
            if self.reverse:
                reply = reply[::-1]
            reply = self._mutate(msg, "outer", reply)
        self.replies.append(reply)
        return reply


class Replayer:
    """knows neither the setup code nor any key: answers the k-th request with the k-th reply recorded in an earlier exchange"""

    accepted = None
    applied = True

    def __init__(self, recorded):
        self.recorded = [[(int(k), bytes(v)) for k, v in r] for r in recorded]
        self.requests, self.replies = [], []

    def handle(self, items):
        self.requests.append([(int(k), bytes(v)) for k, v in items])
        k = len(self.requests) - 1
        reply = self.recorded[k] if k < len(self.recorded) else [(6, bytes([min(2 * k + 2, 255)])), (7, b"\x01")]
        self.replies.append(reply)
        return reply


def _reply_bytes(peer, items):
    """the peer's reply as it travels: bytes (corrupted on the way when the peer is told so)"""
    h = getattr(peer, "handle_wire", None)
    return h(items) if h is not None else refacc.tlv(peer.handle(items))


def _drive(sm, peer, wire):
    """what every transport does with a pairing generator"""
    from aiohomekit.protocol.tlv import TLV
    request, expected = sm.send(None)
    corrupting = "wire" in (getattr(peer, "mutation", None) or {})
    while True:
        if wire == "raw":
            # ble.client._pairing_char_write: the whole value decoded without a filter and handed over as a dict
            reply = dict(TLV.decode_bytes(_reply_bytes(peer, request)))
        elif wire and corrupting:
            # HomeKitConnection.post_tlv / CoAP do_pair_setup*: the bytes that arrived, decoded with the list the generator yielded
            reply = TLV.decode_bytes(_reply_bytes(peer, request), expected=expected)
        elif wire:
            # the same, with the library's own encoder standing in for the accessory's
            reply = TLV.decode_bytes(TLV.encode_list(L(peer.handle(request))), expected=expected)
        else:
            reply = L(peer.handle(request))
        try:
            request, expected = sm.send(reply)
        except StopIteration as s:
            return s.value


class _Env:
    def __init__(self):
        from harness import simnet
        import asyncio
        self.loop = simnet.VLoop()
        asyncio.set_event_loop(self.loop)

    def close(self):
        import asyncio
        try:
            self.loop.close()
        finally:
            asyncio.set_event_loop(None)


def _controller():
    from unittest.mock import MagicMock
    from aiohomekit.characteristic_cache import CharacteristicCacheMemory
    controller = MagicMock()
    controller._char_cache = CharacteristicCacheMemory()
    controller.pairings = {}
    return controller


async def _ip_attempt(env, peer, pin, controller, alias):
    """IpDiscovery.async_start_pairing / finish_pairing with its own HomeKitConnection; the peer is an HTTP server on the in-memory network"""
    import re
    from harness import rcsim, simnet
    from aiohomekit.controller.ip.discovery import IpDiscovery
    loop = env.loop
    net = simnet.Net(loop)
    bufs = {}

    def handler(t, data):
        buf = bufs.get(t, b"") + data
        while b"\r\n\r\n" in buf:
            head, rest = buf.split(b"\r\n\r\n", 1)
            m = re.search(rb"(?i)content-length:\s*(\d+)", head)
            n = int(m.group(1)) if m else 0
            if len(rest) < n:
                break
            body, buf = rest[:n], rest[n:]
            reply = _reply_bytes(peer, list(refacc.untlv(body).items()))
            loop.call_soon(t.feed, b"HTTP/1.1 200 OK\r\nContent-Type: application/pairing+tlv8\r\nContent-Length: %d\r\n\r\n" % len(reply) + reply)
        bufs[t] = buf
    net.handler = handler
    with net.patched():
        d = IpDiscovery(controller, rcsim.description([1]))
        try:
            finish = await d.async_start_pairing(alias)
            obj = await finish(pin)
            return dict(obj.pairing_data)
        finally:
            try:
                await d.close()
            except Exception:  # noqa: BLE001
                pass


async def _coap_attempt(env, peer, pin, controller, alias):
    """CoAPDiscovery.async_start_pairing / finish_pairing (do_pair_setup, do_pair_setup_finish); aiocoap's client context is the network"""
    from harness import rcsim
    import aiohomekit.controller.coap.connection as coapc
    from aiohomekit.controller.coap.discovery import CoAPDiscovery
    loop = env.loop

    class Resp:
        def __init__(self, payload):
            self.payload = payload

    class Req:
        def __init__(self, msg):
            f = loop.create_future()
            try:
                f.set_result(Resp(_reply_bytes(peer, list(refacc.untlv(bytes(msg.payload)).items()))))
            except Exception as e:  # noqa: BLE001
                f.set_exception(e)
            self.response = f

    class Client:
        def request(self, msg):
            return Req(msg)

        async def shutdown(self):
            return None

    class FakeContext:
        @staticmethod
        async def create_client_context():
            return Client()
    import dataclasses
    # CoAP accessories are Thread devices: the connection addresses them as [IPv6 literal]:port
    description = dataclasses.replace(rcsim.description([1]), address="fd00::1:2", addresses=["fd00::1:2"], port=5683, type="_hap._udp.local.")
    with mock.patch.object(coapc, "Context", FakeContext):
        d = CoAPDiscovery(controller, description)
        finish = await d.async_start_pairing(alias)
        obj = await finish(pin)
        return dict(obj.pairing_data)


class _Gatt:
    """the radio: one HAP-BLE pairing characteristic served by `peer`.  Requests arrive as PDU fragments of the MTU, the
    response is read back in fragments; replies longer than `chunk` travel as FragmentData.../FragmentLast, each
    acknowledged by the controller, as BLE accessories deliver M2"""
    address = "AA:BB:CC:DD:EE:FF"

    class _Handle:
        properties = ["read", "write"]

    def __init__(self, peer, fs, chunk):
        self.peer, self.fs, self.chunk = peer, fs, chunk
        self.buf, self.need, self.tid = b"", 0, 0
        self.reads, self.pending = [], []

    async def get_characteristic(self, *a):
        return self._Handle()

    async def get_characteristic_iid(self, char):
        return 0x22

    def determine_fragment_size(self, overhead, handle):
        return self.fs - overhead

    async def write_gatt_char(self, handle, data, response):
        import struct
        data = bytes(data)
        if data[0] & 0x80:
            self.buf += data[2:]
        else:
            self.tid = data[2]
            self.need = struct.unpack("<H", data[5:7])[0] if len(data) >= 7 else 0
            self.buf = data[7:]
        if len(self.buf) >= self.need:
            self._respond(struct)

    def _respond(self, struct):
        value = refacc.untlv(self.buf).get(1, b"")
        if value == b"\x0c\x00" and self.pending:
            payload = self.pending.pop(0)
        else:
            reply = _reply_bytes(self.peer, list(refacc.untlv(value).items()))
            if self.chunk and len(reply) > self.chunk:
                parts = [reply[i:i + self.chunk] for i in range(0, len(reply), self.chunk)]
                self.pending = [refacc.tlv([(0x0C, c)]) for c in parts[:-1]] + [refacc.tlv([(0x0D, parts[-1])])]
                payload = self.pending.pop(0)
            else:
                payload = reply
        body = refacc.tlv([(1, payload)])
        pdu = bytes([0x02, self.tid, 0]) + struct.pack("<H", len(body)) + body
        self.reads = [pdu[:self.fs]] + [bytes([0x82, self.tid]) + pdu[i:i + self.fs - 2] for i in range(self.fs, len(pdu), self.fs - 2)]

    async def read_gatt_char(self, handle):
        return self.reads.pop(0)


async def _ble_attempt(env, peer, pin, fs, chunk):
    """the BLE way: drive_pairing_state_machine on the pair-setup characteristic, part 1 then part 2, as BleDiscovery does"""
    import uuid
    import aiohomekit.controller.ble.client as bleclient
    from aiohomekit.model.characteristics import CharacteristicsTypes
    gatt = _Gatt(peer, fs, chunk)
    salt, pub = await bleclient.drive_pairing_state_machine(gatt, CharacteristicsTypes.PAIR_SETUP, P.perform_pair_setup_part1(with_auth=False))
    return await bleclient.drive_pairing_state_machine(gatt, CharacteristicsTypes.PAIR_SETUP, P.perform_pair_setup_part2(pin, str(uuid.uuid4()), salt, pub))


def mutation_kind(m):
    if "payload" in m:
        return f"m{m['msg']}-payload-{payload_shape(m['msg'], m['payload'])}"
    if "wire" in m:
        return f"m{m['msg']}{'i' if m.get('where') == 'inner' else ''}-wire-{m['wire'][0]}"
    return f"m{m['msg']}{'i' if m.get('where') == 'inner' else ''}-{FIELD.get(int(m['field']), m['field'])}-{m['op'][0]}"


def run_history(ctx, env, hist, rb):
    """run one history; returns the problems found as (signature, what, index of the step)"""
    import asyncio
    entry, pin, acc_id = hist["entry"], hist["pin"], hist["acc_id"].encode()
    salt = bytes.fromhex(hist["salt"])
    controller = _controller()
    problems, recorded, seen_A = [], {}, []
    for i, st in enumerate(hist["steps"]):
        kind = st["peer"]
        ident = refacc.Identity(rb, acc_id=acc_id)  # a reset accessory keeps its identifier and gets a new key pair
        if kind == "replay":
            peer = Replayer(recorded.get(st["of"], []))
        elif kind == "wrong-code":
            peer = Peer(next(p for p in PINS if p != pin), ident, rb, salt, reverse=st.get("reverse", False))
        elif kind == "mutate":
            peer = Peer(pin, ident, rb, salt, mutation=st["mutation"], reverse=st.get("reverse", False))
            kind = mutation_kind(st["mutation"])
        else:
            peer = Peer(pin, ident, rb, salt, reverse=st.get("reverse", False))
        ios_id = st.get("ios_id", "ctl-uuid")
        rec, exc = None, None
        try:
            if entry in ("gen-list", "gen-wire", "gen-raw"):
                how = {"gen-list": False, "gen-wire": True, "gen-raw": "raw"}[entry]
                s_, pk_ = _drive(P.perform_pair_setup_part1(st.get("with_auth", True)), peer, how)
                rec = _drive(P.perform_pair_setup_part2(pin, ios_id, s_, pk_), peer, how)
            elif entry == "ip":
                rec = env.loop.run_until_complete(_ip_attempt(env, peer, pin, controller, "hall"))
            elif entry == "coap":
                rec = env.loop.run_until_complete(_coap_attempt(env, peer, pin, controller, "hall"))
            else:
                rec = env.loop.run_until_complete(_ble_attempt(env, peer, pin, st.get("fs", 512), st.get("chunk", 0)))
        except (Exception, asyncio.CancelledError) as e:  # noqa: BLE001
            exc = e
        ctx.evaluations += 1
        recorded[i] = peer.replies
        cls = "ok" if exc is None else "err:" + type(exc).__name__
        # a reply corrupted on the wire: what it hit, and what this harness's own reading of the bytes that travelled allows
        verdict, wire = None, getattr(peer, "wire", None)
        if wire is not None and peer.applied:
            verdict = wire_verdict(wire["msg"], wire["where"], wire["genuine"], wire["sent"])
            kind += "-" + wire_class(wire["genuine"], st["mutation"]["wire"])
            ctx.dist[f"wire:{entry}:m{wire['msg']}{'i' if wire['where'] == 'inner' else ''}:{verdict}:{'ok' if exc is None else 'err'}"] += 1
        # a reply whose required items were split between the encrypted payload and the plaintext reply: the verdict follows from
        # what the accessory sealed (Peer._split); the identity a pairing may return is the one inside the payload
        pay = getattr(peer, "payload", None)
        exp_id, exp_pk = acc_id, ident.acc_ltpk
        if pay is not None:
            verdict = pay["verdict"]
            exp_id, exp_pk = peer.expected_identity()
            ctx.dist[f"payload:{entry}:{kind}:{verdict}:{'ok' if exc is None else 'err'}"] += 1
        ctx.nontrivial.add(("history", entry, kind, cls))
        ctx.dist[f"history:{entry}:{kind}:{cls}"] += 1
        where = f"step {i + 1} of {len(hist['steps'])} ({kind}, {entry}, code {pin})"
        # freshness, seen from the accessory's side: the public value A of M3
        for req in peer.requests:
            d = dict(req)
            if d.get(6) == b"\x03" and 3 in d:
                if d[3] in seen_A:
                    problems.append(("setup/ephemeral-reused", f"{where}: the controller sent the SRP public value A={hx(d[3][:8])}... of exchange {seen_A.index(d[3]) + 1} of this process again - "
                                     "its freshness is the only thing that binds the accessory's M4 proof and M6 to the current exchange", i))
                seen_A.append(d[3])
        honest = kind == "honest" or (st["peer"] == "mutate" and not peer.applied) or verdict == "genuine"
        if honest or verdict == "void":
            if exc is not None or not isinstance(rec, dict):
                if honest:
                    problems.append((f"setup/{kind}/{entry}/rejected-genuine", f"{where}: pairing a conformant accessory failed with {type(exc).__name__}: {str(exc)[:80]}", i))
            else:
                bad = []
                if rec.get("AccessoryPairingID") != exp_id.decode() or rec.get("AccessoryLTPK") != exp_pk.hex():
                    bad.append("the accessory identity returned is not the one authenticated in this exchange" if pay is None else
                               f"the accessory identity returned ({rec.get('AccessoryPairingID')}, key {str(rec.get('AccessoryLTPK'))[:16]}...) is not the one carried inside the payload that decrypts under "
                               f"the exchange key and covered by the signature found there ({exp_id.decode()}, key {exp_pk.hex()[:16]}...); in plaintext next to EncryptedData travelled "
                               f"{[(FIELD.get(t, t), v.hex()[:16] + '...') for t, v in pay['outside']]}")
                if peer.accepted is None or rec.get("iOSPairingId") != peer.accepted[0] or rec.get("iOSDeviceLTPK") != peer.accepted[1].hex():
                    bad.append("the controller identity returned is not the one this accessory accepted")
                else:
                    try:
                        sk = ed25519.Ed25519PrivateKey.from_private_bytes(bytes.fromhex(rec["iOSDeviceLTSK"]))
                        if sk.public_key().public_bytes(**refacc.RAW) != peer.accepted[1]:
                            bad.append("the controller's private key does not match the public key the accessory accepted")
                    except Exception:  # noqa: BLE001
                        bad.append("the controller's private key is unusable")
                if bad:
                    problems.append((f"setup/{kind}/{entry}/record", f"{where}: " + "; ".join(bad), i))
        else:
            if exc is None:
                what = {"replay": f"the peer only played back the replies of exchange {st.get('of', 0) + 1} and never proved knowledge of the setup code in this exchange",
                        "wrong-code": "the accessory was programmed with another setup code"}.get(kind, f"reply M{st.get('mutation', {}).get('msg')} was altered ({st.get('mutation')})")
                if verdict is not None and pay is None:
                    g, x = wire["genuine"], wire["sent"]
                    lo = max(0, next((k for k in range(min(len(g), len(x))) if g[k] != x[k]), min(len(g), len(x))) - 3)
                    what = (f"{'the sub-TLV sealed into M6' if wire['where'] == 'inner' else 'reply M%d' % wire['msg']} was altered in transit ({st['mutation']['wire']}): the accessory produced "
                            f"...{g[lo:lo + 10].hex()}... (offset {lo}, {len(g)} bytes), what travelled was ...{x[lo:lo + 10].hex()}... ({len(x)} bytes), which reads as items "
                            f"{[(t, len(v)) for t, v in read_tlv8(x)[0]]} (type, length) instead of {[(t, len(v)) for t, v in read_tlv8(g)[0]]} - "
                            f"{', '.join(FIELD.get(t, str(t)) for t in WIRE_REQUIRED[(wire['msg'], wire['where'])])} must arrive with the accessory's value")
                if pay is not None:
                    names = lambda items: [(FIELD.get(t, str(t)), len(v)) for t, v in items]  # noqa: E731
                    what = (f"the payload of M6 that decrypts under the exchange key carried only the items {names(pay['inside'])} (type, length) - "
                            + (f"required {[FIELD.get(t, str(t)) for t in pay['missing']]} missing from it" if pay["missing"] else "the signature inside it does not verify, by the key inside it, over the identifier and key inside it")
                            + f" - while {names(pay['outside'])} travelled as PLAINTEXT items next to EncryptedData ({st['mutation']['payload']}); returned AccessoryPairingID={rec.get('AccessoryPairingID') if isinstance(rec, dict) else None!r}")
                problems.append((f"setup/{kind}/{entry}/returned", f"{where}: pairing data was returned ({str(rec)[:60]}...) although {what}", i))
            elif type(exc).__name__ not in CLS and verdict is None:
                problems.append((f"setup/{kind}/{entry}/{type(exc).__name__}", f"{where}: unexpected exception class {type(exc).__name__}: {str(exc)[:80]}", i))
        if problems:
            break  # the history up to this step is the failing input
    return problems


def state_ops(genuine, rng, nbytes, nlen):
    """alterations of a one-byte State value: every single-bit flip, a sample of other byte values, length changes"""
    ops = [["flip", k] for k in range(8)]
    pool = [0x00, 0xFF, genuine | 0x80] + [x for x in range(1, 8) if x != genuine] + [rng.randrange(256) for _ in range(4)]
    pool = [x for x in dict.fromkeys(pool) if x != genuine and bin(x ^ genuine).count("1") != 1]
    if nbytes >= 255:
        pool = [x for x in range(256) if x != genuine and bin(x ^ genuine).count("1") != 1]
    ops += [["set", 0, x] for x in rng.sample(pool, min(nbytes, len(pool)))]
    ops += rng.sample([["empty"], ["append", 0], ["append", genuine]], min(nlen, 3))
    return ops


def field_mutation(rng):
    """one alteration of one field of one reply (State excluded: state_ops)"""
    msg, where, field = rng.choice([(2, "outer", 2), (2, "outer", 3), (4, "outer", 4), (6, "outer", 5), (6, "inner", 1), (6, "inner", 3), (6, "inner", 10)])
    op = rng.choice([["flip", rng.randrange(1 << 16)], ["flip", rng.randrange(8)], ["set", rng.randrange(1 << 12), rng.randrange(256)], ["trunc"], ["append", rng.randrange(256)], ["empty"], ["remove"]])
    return {"msg": msg, "where": where, "field": field, "op": op}


def history_level(ctx, rng, rb):
    env = _Env()
    salts = {p: [rb(16), rb(16)] for p in PINS}

    def hist(entry, steps):
        pin = rng.choice(PINS)
        for st in steps:
            st.setdefault("reverse", rng.random() < 0.3)
            if entry.startswith("gen"):
                st.setdefault("ios_id", rng.choice(["ctl-uuid", "7d0ca5d1-1d9c-4d29-b2a0-6c8e4f1e0001"]))
                st.setdefault("with_auth", rng.random() < 0.5)
            if entry == "ble-gatt":
                st.setdefault("fs", rng.choice([64, 185, 512]))
                st.setdefault("chunk", rng.choice([0, 0, 120, 255]))
        return {"stream": "history", "entry": entry, "pin": pin, "acc_id": rng.choice(ACC_IDS), "salt": hx(rng.choice(salts[pin])), "steps": steps}

    def go(h):
        for sig, what, i in run_history(ctx, env, h, rb):
            ctx.violation(sig, what, dict(h, steps=h["steps"][:i + 1]))

    try:
        # (a) the State item of M2, M4 and M6: every single-bit flip, sampled byte values, length changes - handed over as a
        #     list and as the IP/CoAP transports decode it
        for msg in (2, 4, 6):
            for op in state_ops(msg, rng, ctx.budget(3, 255), ctx.budget(1, 3)):
                for entry in ("gen-list", "gen-wire"):
                    go(hist(entry, [{"peer": "mutate", "mutation": {"msg": msg, "where": "outer", "field": 6, "op": op}}]))
        #     ... and through the transports' own code
        for entry in ("ip", "coap", "ble-gatt"):
            for msg in (2, 4, 6):
                for op in rng.sample(state_ops(msg, rng, 3, 3), ctx.budget(1, 8)):
                    go(hist(entry, [{"peer": "mutate", "mutation": {"msg": msg, "where": "outer", "field": 6, "op": op}}]))
        # (b) every other field, outer and inside M6; an Error item added to an otherwise genuine reply
        for _ in range(ctx.budget(10, 600)):
            go(hist(rng.choice(ENTRIES), [{"peer": "mutate", "mutation": field_mutation(rng)}]))
        for msg in (2, 4, 6):
            for entry in ["gen-wire"] + [rng.choice(ENTRIES) for _ in range(ctx.budget(1, 20))]:
                go(hist(entry, [{"peer": "mutate", "mutation": {"msg": msg, "where": "outer", "field": 7, "op": ["add", hx(bytes([rng.randrange(1, 8)])), rng.random() < 0.5]}}]))
        # (c) several pair-setups in one process: an impostor plays back an earlier exchange byte for byte
        plan = list(ENTRIES) + [rng.choice(ENTRIES) for _ in range(ctx.budget(1, 60))]
        for entry in plan:
            steps = [{"peer": "honest"}]
            for _ in range(rng.choice([1, 1, 2, 3])):
                r = rng.random()
                if r < 0.5:
                    steps.append({"peer": "replay", "of": rng.choice([j for j, s_ in enumerate(steps) if s_["peer"] == "honest"])})
                elif r < 0.7:
                    steps.append({"peer": "honest"})
                elif r < 0.85:
                    steps.append({"peer": "wrong-code"})
                else:
                    steps.append({"peer": "replay", "of": rng.randrange(len(steps))})
            if not any(s_["peer"] == "replay" and steps[s_["of"]]["peer"] == "honest" for s_ in steps):
                steps.append({"peer": "replay", "of": 0})
            if rng.random() < 0.5:
                steps.append({"peer": "honest"})
            go(hist(entry, steps))
        # (e) replies corrupted as BYTES on their way (type bytes, length bytes, values, one byte more or less, items swapped)
        wire_level(ctx, rng, rb, hist, go)
        # (g) the required items of the encrypted reply split between the payload and the plaintext reply
        payload_level(ctx, rng, hist, go)
        # (d) two pair-setups alive at the same time
        for _ in range(ctx.budget(1, 30)):
            case = {"stream": "interleave", "wire": rng.random() < 0.5, "pins": [rng.choice(PINS), rng.choice(PINS)], "salt": hx(rb(16)),
                    "schedule": [rng.randrange(2) for _ in range(16)]}
            for sig, what in run_interleaved(ctx, case, rb):
                ctx.violation(sig, what, case)
    finally:
        env.close()


def wire_level(ctx, rng, rb, hist, go):
    """every reply of a conformant accessory travels as TLV8 bytes; ONE byte of ONE reply is damaged on the way (or one byte
    is added / lost, or two neighbouring encoded items change places) and the bytes are handed to the library the way its
    transports do: decoded with the expected-type filter (post_tlv, CoAP), decoded whole into a dict (BLE), and through
    IpDiscovery / CoAPDiscovery / the GATT driver themselves.  For M6 the sub-TLV is damaged too before the accessory
    seals it (an accessory - or whoever knows the setup code - that sends a malformed sub-TLV).  Oracle: wire_verdict."""
    from aiohomekit.protocol.tlv import TLV
    every = ctx.budget(False, True)
    nsub, nval, nindel, nlenflip = ctx.budget(1, 99), ctx.budget(1, 32), ctx.budget(2, 99), ctx.budget(4, 8)

    def step(msg, where, op, reverse):
        return [{"peer": "mutate", "mutation": {"msg": msg, "where": where, "wire": op}, "reverse": reverse}]

    # M2: part 1 holds no secret and draws nothing at random, so ONE genuine M2 serves every corruption of every byte:
    # decode + perform_pair_setup_part1 is run on each; whole pairings are then run for every corruption after which part 1
    # went on with the accessory's salt and key although the reply must fail, and for a sample of the others
    for reverse in (False, True):
        ops = wire_ops(wire_template(2, "outer", reverse=reverse), WIRE_EXPECTED[(2, "outer")], rng, True, 99, ctx.budget(24, 409), 99)
        h = hist("gen-wire", [{"peer": "honest", "reverse": reverse}])
        peer = Peer(h["pin"], refacc.Identity(rb, acc_id=h["acc_id"].encode()), rb, bytes.fromhex(h["salt"]), reverse=reverse)
        request, expected = P.perform_pair_setup_part1(True).send(None)
        items = peer.handle(request)
        genuine, sent_by_accessory = refacc.tlv(items), (dict(items)[2], dict(items)[3])
        suspects, others, framing = [], [], []  # framing: the corruptions of type / length bytes and boundaries among `others`
        for op in ops:
            sent = wire_apply(genuine, op)
            verdict = wire_verdict(2, "outer", genuine, sent)
            for entry in ("gen-wire", "gen-raw"):
                sm = P.perform_pair_setup_part1(True)
                sm.send(None)
                try:
                    sm.send(TLV.decode_bytes(sent, expected=expected) if entry == "gen-wire" else dict(TLV.decode_bytes(sent)))
                    out = "yielded"
                except StopIteration as stop:
                    try:
                        out = "same" if (bytes(stop.value[0]), bytes(stop.value[1])) == sent_by_accessory else "other"
                    except Exception:  # noqa: BLE001
                        out = "other"
                except Exception:  # noqa: BLE001
                    out = "err"
                ctx.evaluations += 1
                ctx.dist[f"wire-part1:{entry}:{verdict}:{out}"] += 1
                ctx.nontrivial.add(("wire-part1", entry, op[0], wire_class(genuine, op), verdict, out))
                (suspects if out == "same" and verdict == "must-fail" else others).append((entry, op))
                if not (out == "same" and verdict == "must-fail") and wire_class(genuine, op) != "value":
                    framing.append((entry, op))
        for entry, op in suspects[:ctx.budget(3, 40)] + rng.sample(others, min(ctx.budget(1, 60), len(others))) + rng.sample(framing, min(ctx.budget(1, 60), len(framing))):
            go(hist(entry, step(2, "outer", op, reverse)))
        for entry in ("ip", "coap", "ble-gatt") if every or not reverse else ():
            for _, op in (suspects[:1] + rng.sample(framing, min(ctx.budget(1, 8), len(framing))) + rng.sample(others, min(ctx.budget(0, 4), len(others))))[:ctx.budget(1, 12)]:
                go(hist(entry, step(2, "outer", op, reverse)))
    # M4, M6 and the sub-TLV inside M6: each corruption costs a whole exchange up to that reply
    for msg, where in ((4, "outer"), (6, "outer"), (6, "inner")):
        ops = wire_ops(wire_template(msg, where), WIRE_EXPECTED[(msg, where)], rng, every, nsub, nval, nindel, nlenflip)
        for op in ops:
            go(hist("gen-wire", step(msg, where, op, False)))
        # ... the other ways a reply reaches the state machine
        for entry, n in (("gen-raw", ctx.budget(2, 200)), ("ip", ctx.budget(1, 40)), ("coap", ctx.budget(1, 40)), ("ble-gatt", ctx.budget(1, 40))):
            for op in rng.sample(ops, min(n, len(ops))):
                go(hist(entry, step(msg, where, op, False)))
        # ... and accessories that send the items of a reply in the other order
        if where == "outer":
            rops = wire_ops(wire_template(msg, where, reverse=True), WIRE_EXPECTED[(msg, where)], rng, False, nsub, nval, nindel)
            for op in rng.sample(rops, min(ctx.budget(2, len(rops)), len(rops))):
                go(hist(rng.choice(["gen-wire", "gen-raw"]), step(msg, where, op, True)))
    tolerated = sum(n for k, n in ctx.dist.items() if (k.startswith("wire:") and k.endswith(":void:ok")) or (k.startswith("wire-part1:") and k.endswith(":void:same")))
    refused = sum(n for k, n in ctx.dist.items() if k.startswith(("wire:", "wire-part1:")) and k.endswith(":must-fail:err"))
    carried = sum(n for k, n in ctx.dist.items() if k.startswith("wire-part1:") and k.endswith((":must-fail:other", ":must-fail:yielded")))
    ctx.notes.append(f"wire-level corruption: {refused} corrupted replies in which an item the step uses did not arrive intact were refused with an error, after {carried} corrupted M2 part 1 went on "
                     f"with a salt / key other than the accessory's (whole pairings sampled: they fail at M4); {tolerated} corrupted replies were "
                     "ACCEPTED in which every item the step uses arrived intact by the harness's reading (the State item made unreadable - handle_state_step tolerates a reply without State -, a stray "
                     "byte after the last item that the expected-type filter skips, a second separated item of a type whose later occurrence is the genuine one): not asserted either way")


UNFILTERED = ("gen-list", "gen-raw", "ble-gatt")  # entry points that hand the whole decoded reply to the state machine
FILTERED = ("gen-wire", "ip", "coap")             # ... that decode with the expected-type list the generator yielded


def payload_level(ctx, rng, hist, go):
    """a reply with an encrypted payload (M6) whose required items the accessory - or whoever holds the exchange key, or sits
    on the link and adds plaintext items - distributes between the payload and the plaintext TLV around EncryptedData
    (payload_mutations), through every way a reply reaches the state machine.  Oracle (Peer._split, run_history): pairing
    succeeds only when Identifier, PublicKey and Signature are INSIDE the payload and the signature there is valid over the
    identifier and key there; what is returned is that identifier and key, whatever travels in plaintext."""
    every = ctx.budget(False, True)
    for msg in PAYLOAD_REQUIRED:
        for k, m in enumerate(payload_mutations(rng, msg, every)):
            shape = payload_shape(msg, m["payload"])
            own_moved = shape == "moved" and all(src == "own" for _, src in m["payload"]["outside"])
            entries = list(UNFILTERED) if every or own_moved else [UNFILTERED[k % len(UNFILTERED)]]
            if every:
                entries += list(FILTERED)
            elif k % 6 == 0:
                entries.append(FILTERED[(k // 6) % len(FILTERED)])
            for entry in entries:
                go(hist(entry, [{"peer": "mutate", "mutation": m}]))
    seen = sorted({k.split(":")[2] + ":" + k.split(":")[3] + ":" + k.split(":")[4] for k in ctx.dist if k.startswith("payload:") and k.split(":")[3] == "void"})
    if seen:
        ctx.notes.append("payload splits: replies whose encrypted payload was complete and valid while plaintext items of the inner types travelled next to EncryptedData were met with "
                         + ", ".join(seen) + " (accepting them with the identity inside the payload or refusing them are both allowed; asserted: the identity returned is the payload's)")


def run_interleaved(ctx, case, rb):
    """two pairings with two different conformant accessories advance in the order given by the schedule; each must end
    with the identity of its own accessory"""
    from aiohomekit.protocol.tlv import TLV
    wire = case["wire"]

    def session(peer, pin, ios_id):
        rec = None
        for sm_of in (lambda: P.perform_pair_setup_part1(True), lambda: P.perform_pair_setup_part2(pin, ios_id, *rec)):
            sm = sm_of()
            request, expected = sm.send(None)
            while True:
                yield
                reply = peer.handle(request)
                reply = TLV.decode_bytes(TLV.encode_list(L(reply)), expected=expected) if wire else L(reply)
                yield
                try:
                    request, expected = sm.send(reply)
                except StopIteration as s:
                    rec = s.value
                    break
        return rec

    salt = bytes.fromhex(case["salt"])
    idents = [refacc.Identity(rb, acc_id=a.encode()) for a in ACC_IDS[:2]]
    peers = [Peer(case["pins"][k], idents[k], rb, salt) for k in range(2)]
    runs = [session(peers[k], case["pins"][k], f"ctl-{k}") for k in range(2)]
    result = [None, None]
    order = list(case["schedule"])
    problems = []
    while any(r is not None for r in runs):
        k = order.pop(0) if order else next(j for j, r in enumerate(runs) if r is not None)
        if runs[k] is None:
            continue
        try:
            next(runs[k])
        except StopIteration as s:
            result[k], runs[k] = s.value, None
        except Exception as e:  # noqa: BLE001
            result[k], runs[k] = e, None
    As = []
    for k in range(2):
        ctx.evaluations += 1
        rec = result[k]
        ok = isinstance(rec, dict)
        ctx.dist[f"interleave:{'ok' if ok else 'err:' + type(rec).__name__}"] += 1
        ctx.nontrivial.add(("interleave", wire, ok))
        if not ok:
            problems.append(("setup/interleave/rejected-genuine", f"pairing {k + 1} of two interleaved pair-setups (schedule {case['schedule']}) failed with {type(rec).__name__}: {str(rec)[:80]}"))
            continue
        p = peers[k]
        if (rec.get("AccessoryPairingID") != idents[k].acc_id.decode() or rec.get("AccessoryLTPK") != idents[k].acc_ltpk.hex() or p.accepted is None
                or rec.get("iOSPairingId") != p.accepted[0] or rec.get("iOSDeviceLTPK") != p.accepted[1].hex()
                or ed25519.Ed25519PrivateKey.from_private_bytes(bytes.fromhex(rec["iOSDeviceLTSK"])).public_key().public_bytes(**refacc.RAW) != p.accepted[1]):
            problems.append(("setup/interleave/record", f"pairing {k + 1} of two interleaved pair-setups (schedule {case['schedule']}) returned a record that is not the identity its own accessory presented / accepted"))
        As += [dict(r)[3] for r in p.requests if dict(r).get(6) == b"\x03" and 3 in dict(r)]
    if len(set(As)) != len(As):
        problems.append(("setup/ephemeral-reused", "two pair-setups alive at the same time sent the same SRP public value A"))
    return problems


# ------------------------------------------------------------------------------------------------------------------
# (f) pair-setup over LINKS THAT FAIL.  One history = one accessory, one discovery object of the real library
# (BleDiscovery found by a real BleController from an advertisement, IpDiscovery on the in-memory network,
# CoAPDiscovery with aiocoap's client context replaced) and a list of calls the user makes - async_start_pairing,
# the finish_pairing callable it returned (right code, another code, a malformed code; called again after a failure),
# the link dropping while nothing is in flight - together with a list of faults: the link is lost when the n-th request
# Mk is on its way (the accessory never sees it), after the accessory answered Mk (the reply never arrives), at the n-th
# GATT write / read of a PDU fragment, at the n-th connection attempt.  Only the radio / the TCP network / aiocoap's
# context and the clock are replaced: the library's own retries (retry_bluetooth_connection_error around both BLE
# entry points, HomeKitConnection's reconnects) run, in virtual time.
# The accessory is conformant and written here: EVERY M1 opens a new SRP session (new salt, new B), a session does not
# outlive its BLE link / TCP connection nor a refused proof, an accessory that accepted an M5 is paired and refuses M1.
# Per session it may instead be programmed with another code or have one reply altered (field or wire level).
# Oracles - property text and the accessory's own books only:
#   * M3 / M5 that a controller holding the right code sends into a session of the honest accessory verify against the
#     accessory's CURRENT session ("the controller's own exchange message is accepted by a conformant accessory");
#   * a call returns an object only if the accessory accepted an M5 during that call in a session that was not
#     tampered with, and the record is that exchange's (accessory identity, accepted controller key, matching LTSK);
#   * a call with another / a malformed code, or whose last session was with a wrong-code accessory / an altered reply,
#     raises and returns nothing, whichever attempt it is;
#   * when the accessory accepted M5 and M6 travelled undisturbed the call returns; a call during which no fault
#     happened, made with the right code to the honest unpaired accessory, completes - for async_start_pairing, for
#     the first finish_pairing of a start, and on BLE (where finish_pairing restarts pair-setup itself) for every one;
#   * the SRP public value A never repeats within a history.


class LinkLost(Exception):
    def __init__(self, fault, reply=None):
        super().__init__(str(fault))
        self.fault, self.reply = fault, reply


class LinkWorld:
    """the accessory and the fault schedule of one history"""

    def __init__(self, case, rb):
        self.case, self.rb = case, rb
        self.transport = case["transport"]
        self.pin = case["pin"]
        self.ident = refacc.Identity(rb, acc_id=case["acc_id"].encode())
        self.plan = {int(k): v for k, v in (case.get("sessions") or {}).items()}
        self.faults = [dict(f) for f in case.get("faults", [])]
        self.bound = self.transport != "coap"  # a pair-setup session dies with the BLE link / TCP connection
        self.counts = {}
        self.fired = []       # (index into faults, call index)
        self.sessions = []    # {"peer", "how", "call"} per SRP session the accessory opened
        self.cur = None       # the session requests are answered in
        self.paired = None    # the session in which M5 was accepted
        self.paired_call = None
        self.accept_mark = 0  # number of faults that had fired when M5 was accepted
        self.verdicts = []    # (call index, session number, "m3-ok" | "m3-refused" | "m5-ok" | "m5-refused" | "m<k>-no-session")
        self.call = -1
        self.connections = 0

    def tick(self, at, msg=None):
        key = (at, msg)
        self.counts[key] = n = self.counts.get(key, 0) + 1
        for k, f in enumerate(self.faults):
            if f["at"] == at and f.get("msg") == msg and f.get("nth", 1) == n and all(k != j for j, _ in self.fired):
                self.fired.append((k, self.call))
                return f
        return None

    def new_connection(self):
        self.connections += 1
        if self.bound:
            self.cur = None

    def link_down(self):
        if self.bound:
            self.cur = None

    def deliver(self, items):
        """a complete pair-setup request reached the accessory's end of the link; returns the reply bytes"""
        d = {int(k): bytes(v) for k, v in items}
        st = d[6][0] if d.get(6) else 0
        f = self.tick("req", st)
        if f:
            raise LinkLost(f)
        reply = self.answer(items, d, st)
        f = self.tick("rep", st + 1)
        if f:
            raise LinkLost(f, reply)
        return reply

    def answer(self, items, d, st):
        if st == 1:
            if self.paired is not None:
                return refacc.tlv([(6, b"\x02"), (7, b"\x06")])  # kTLVError_Unavailable: already paired
            n = len(self.sessions) + 1
            how = self.plan.get(n, "honest")
            salt = self.rb(16)
            if how == "wrong-code":
                # programmed with a code that is neither the one of this history nor the "other" code a user types by mistake
                peer = Peer([p for p in PINS if p != self.pin][-1], self.ident, self.rb, salt)
            elif isinstance(how, dict):
                peer = Peer(self.pin, self.ident, self.rb, salt, mutation=how["mutation"], reverse=how.get("reverse", False))
            else:
                peer = Peer(self.pin, self.ident, self.rb, salt, reverse=bool(self.case.get("reverse")))
            self.cur = {"peer": peer, "how": how, "call": self.call, "n": n}
            self.sessions.append(self.cur)
            return self._ask(self.cur, items)
        s = self.cur
        if s is None:
            self.verdicts.append((self.call, len(self.sessions), f"m{st}-no-session"))
            return refacc.tlv([(6, bytes([(st + 1) & 255])), (7, b"\x01")])
        peer = s["peer"]
        if st == 3:
            reply = self._ask(s, items)
            ok = 3 in d and peer.srv is not None and d.get(4) == peer.srv.M1
            self.verdicts.append((self.call, s["n"], "m3-ok" if ok else "m3-refused"))
            if not ok:
                peer.proved = False
                self.cur = None  # HAP 5.6.4: the attempt is over
            return reply
        if st == 5:
            before = peer.accepted
            reply = self._ask(s, items)
            ok = peer.proved and peer.accepted is not None and before is None
            self.verdicts.append((self.call, s["n"], "m5-ok" if ok else "m5-refused"))
            if ok:
                self.paired, self.paired_call, self.accept_mark = s, self.call, len(self.fired)
            self.cur = None  # accepted: pair-setup is over, the accessory is paired; refused: the attempt is over
            return reply
        return self._ask(s, items)

    def _ask(self, s, items):
        reply = _reply_bytes(s["peer"], items)
        if s["peer"].applied and "applied_call" not in s:
            s["applied_call"] = self.call
        return reply


def session_kind(s, ci):
    """('honest' | 'void' | 'adversarial', label) of a session as call `ci` met it, from what the accessory actually did in it: an
    altered M2 stays with everything that is built on it; an altered M4 / M6 belongs to the call it was sent in (where a session
    outlives a failed call - CoAP - a later call runs a new, untouched M3..M6 in it)"""
    peer, how = s["peer"], s["how"]
    if how == "wrong-code":
        return "adversarial", "wrong-code"
    if isinstance(how, dict):
        if not peer.applied or (how["mutation"]["msg"] != 2 and s.get("applied_call") != ci):
            return "honest", "honest"
        label = mutation_kind(how["mutation"])
        if peer.payload is not None:
            return {"genuine": "honest", "void": "void"}.get(peer.payload["verdict"], "adversarial"), label
        if peer.wire is not None:
            v = wire_verdict(peer.wire["msg"], peer.wire["where"], peer.wire["genuine"], peer.wire["sent"])
            return {"genuine": "honest", "void": "void"}.get(v, "adversarial"), label
        return "adversarial", label
    return "honest", "honest"


LINK_ERRORS = ("bleak", "eof", "pipe")


def _link_error(f):
    from bleak.exc import BleakError
    how = f.get("err", "bleak")
    if how == "eof":
        return EOFError("D-Bus connection lost")
    if how == "pipe":
        return BrokenPipeError(32, "Broken pipe")
    return BleakError("Not connected" if how == "bleak" else str(how))


class _LinkGatt:
    """the radio: a GATT link to the accessory's pairing service (Pairing Features + Pair Setup characteristics, HAP-BLE
    PDUs in fragments of the MTU, long replies as FragmentData.../FragmentLast) that can be lost at any write or read"""
    address = "AA:BB:CC:DD:EE:FF"

    class _Char:
        properties = ["read", "write"]
        max_write_without_response_size = None

        def __init__(self, uuid, iid):
            self.uuid, self.iid, self.handle = uuid, iid, iid

    def __init__(self, world, loop, callback, fs, chunk, features):
        self.world, self.loop, self.callback = world, loop, callback
        self.fs, self.chunk, self.features = fs, chunk, features
        self.is_connected = True
        self.rx, self.reads, self.pending = {}, {}, []
        self.die_on_read = None

    async def get_characteristic(self, service_uuid, characteristic_uuid, iid=None):
        from aiohomekit.model.characteristics import CharacteristicsTypes
        return self._Char(characteristic_uuid, 0x21 if characteristic_uuid == CharacteristicsTypes.PAIRING_FEATURES else 0x22)

    async def get_characteristic_iid(self, char):
        return char.iid

    def determine_fragment_size(self, overhead, handle):
        return self.fs - overhead

    async def clear_cache(self):
        return True

    async def disconnect(self):
        if self.is_connected:
            self.is_connected = False
            self.world.link_down()
            self.loop.call_soon(self.callback, self)
        return True

    def lose(self):
        """the link is gone (nothing is raised here)"""
        if self.is_connected:
            self.is_connected = False
            self.world.link_down()
            self.loop.call_soon(self.callback, self)

    def _gate(self, kind):
        from bleak.exc import BleakError
        if not self.is_connected:
            raise BleakError("Not connected")
        f = self.world.tick(kind)
        if f:
            self.lose()
            raise _link_error(f)

    async def write_gatt_char(self, handle, data, response=None):
        import struct
        self._gate("write")
        data = bytes(data)
        if data[0] & 0x80:
            p = self.rx.get(handle.iid)
            if p is None:
                return
            p["body"] += data[2:]
        else:
            p = self.rx[handle.iid] = {"opcode": data[1], "tid": data[2], "need": struct.unpack("<H", data[5:7])[0] if len(data) >= 7 else 0, "body": data[7:]}
        if len(p["body"]) < p["need"]:
            return
        del self.rx[handle.iid]
        if p["opcode"] == 0x03:
            payload = bytes([self.features])
        else:
            value = refacc.untlv(p["body"]).get(1, b"")
            if value == b"\x0c\x00" and self.pending:
                payload = self.pending.pop(0)
            else:
                self.pending = []
                try:
                    reply = self.world.deliver(list(refacc.untlv(value).items()))
                except LinkLost as lost:
                    if lost.reply is None:
                        # the link went down while the request was in the air: the write fails
                        self.lose()
                        raise _link_error(lost.fault) from None
                    # the accessory answered, the link goes down before the answer is read
                    self.lose()
                    return
                if self.chunk and len(reply) > self.chunk:
                    parts = [reply[i:i + self.chunk] for i in range(0, len(reply), self.chunk)]
                    self.pending = [refacc.tlv([(0x0C, c)]) for c in parts[:-1]] + [refacc.tlv([(0x0D, parts[-1])])]
                    payload = self.pending.pop(0)
                else:
                    payload = reply
        body = refacc.tlv([(1, payload)])
        pdu = bytes([0x02, p["tid"], 0]) + struct.pack("<H", len(body)) + body
        self.reads[handle.iid] = [pdu[:self.fs]] + [bytes([0x82, p["tid"]]) + pdu[i:i + self.fs - 2] for i in range(self.fs, len(pdu), self.fs - 2)]

    async def read_gatt_char(self, handle):
        self._gate("read")
        q = self.reads.get(handle.iid)
        return q.pop(0) if q else b""


def _adv(acc_id, name="Acc"):
    """a HAP-BLE advertisement of an unpaired accessory (HAP 7.4.2.1), encoded here"""
    import struct
    from bleak.backends.device import BLEDevice
    from bleak.backends.scanner import AdvertisementData
    data = bytes([0x06, 0x31, 0x01]) + bytes.fromhex(acc_id.replace(":", "")) + struct.pack("<HHBB", 5, 1, 1, 2) + b"\x3c\xb9\xeb\x0e"
    device = BLEDevice(address=_LinkGatt.address, name=name, details=None)
    adv = AdvertisementData(local_name=name, manufacturer_data={76: data}, service_data={}, service_uuids=[], rssi=-60, platform_data=((),), tx_power=-127)
    return device, adv


class _BleSide:
    def __init__(self, env, world, case):
        self.env, self.world, self.case = env, world, case
        self.clients = []

    def __enter__(self):
        import aiohomekit.controller.ble.connection as bleconn
        from bleak_retry_connector import BleakConnectionError, BleakNotFoundError
        world, case, loop = self.world, self.case, self.env.loop

        async def connect(client_class, device, name, disconnected_callback=None, max_attempts=None, **kw):
            f = world.tick("connect")
            if f:
                raise (BleakNotFoundError if f.get("err") == "notfound" else BleakConnectionError)(f"{name}: failed to connect")
            world.new_connection()
            c = _LinkGatt(world, loop, disconnected_callback or (lambda c: None), case.get("fs", 512), case.get("chunk", 0), case.get("features", 0))
            self.clients.append(c)
            return c
        self.patch = mock.patch.object(bleconn, "retry_establish_connection", connect)
        self.patch.start()
        return self

    def __exit__(self, *a):
        self.patch.stop()

    async def discover(self):
        from aiohomekit.characteristic_cache import CharacteristicCacheMemory
        from aiohomekit.controller.ble.controller import BleController
        self.controller = BleController(CharacteristicCacheMemory())
        self.controller._device_detected(*_adv(self.case["acc_id"]))
        self.disc = self.controller.discoveries[self.case["acc_id"].lower()]
        return self.disc

    def advertise(self):
        self.controller._device_detected(*_adv(self.case["acc_id"]))

    def drop(self):
        for c in self.clients:
            c.lose()

    async def close(self):
        self.drop()


class _IpSide:
    def __init__(self, env, world, case):
        from harness import simnet
        self.env, self.world, self.case = env, world, case
        self.net = simnet.Net(env.loop)
        self.bufs = {}
        self.net.handler = self.handler
        self.net.on_connect = lambda t: world.new_connection()
        inner = self.net.start_connection

        async def start_connection(addr_infos, **kw):
            if world.tick("connect"):
                raise ConnectionRefusedError(111, "Connection refused")
            return await inner(addr_infos, **kw)
        self.net.start_connection = start_connection

    def __enter__(self):
        self.cm = self.net.patched()
        self.cm.__enter__()
        return self

    def __exit__(self, *a):
        return self.cm.__exit__(*a)

    def _end(self, t, how):
        self.world.link_down()
        (t.peer_close if how == "close" else t.peer_reset)()

    def handler(self, t, data):
        import re
        loop = self.env.loop
        buf = self.bufs.get(t, b"") + data
        while b"\r\n\r\n" in buf:
            head, rest = buf.split(b"\r\n\r\n", 1)
            m = re.search(rb"(?i)content-length:\s*(\d+)", head)
            n = int(m.group(1)) if m else 0
            if len(rest) < n:
                break
            body, buf = rest[:n], rest[n:]
            http = lambda reply: b"HTTP/1.1 200 OK\r\nContent-Type: application/pairing+tlv8\r\nContent-Length: %d\r\n\r\n" % len(reply) + reply  # noqa: E731
            try:
                reply = self.world.deliver(list(refacc.untlv(body).items()))
            except LinkLost as lost:
                how = lost.fault.get("how", "reset")
                if lost.reply is not None and how == "partial":
                    whole = http(lost.reply)
                    loop.call_soon(t.feed, whole[:len(whole) - max(1, len(lost.reply) // 2)])
                    how = "close"
                loop.call_soon(self._end, t, how)
                buf = b""
                break
            loop.call_soon(t.feed, http(reply))
        self.bufs[t] = buf

    async def discover(self):
        from harness import rcsim
        from aiohomekit.controller.ip.discovery import IpDiscovery
        self.controller = _controller()
        self.disc = IpDiscovery(self.controller, rcsim.description([1]))
        return self.disc

    def drop(self):
        for t in list(self.net.open):
            self._end(t, "reset")

    async def close(self):
        try:
            await self.disc.close()
        except Exception:  # noqa: BLE001
            pass


class _CoapSide:
    def __init__(self, env, world, case):
        self.env, self.world, self.case = env, world, case

    def __enter__(self):
        import aiohomekit.controller.coap.connection as coapc
        import aiocoap.error as coaperr
        world, loop = self.world, self.env.loop

        class Resp:
            def __init__(self, payload):
                self.payload = payload

        class Req:
            def __init__(self, msg):
                f = loop.create_future()
                try:
                    f.set_result(Resp(world.deliver(list(refacc.untlv(bytes(msg.payload)).items()))))
                except LinkLost as lost:
                    how = lost.fault.get("how", "timeout")
                    if how == "neterr":
                        f.set_exception(coaperr.NetworkError("network unreachable"))
                    elif how == "rst":
                        f.set_exception(coaperr.ConRetransmitsExceeded("retransmissions exceeded"))
                    # "timeout": no answer ever arrives
                except Exception as e:  # noqa: BLE001
                    f.set_exception(e)
                self.response = f

        class Client:
            def request(self, msg):
                return Req(msg)

            async def shutdown(self):
                return None

        class FakeContext:
            @staticmethod
            async def create_client_context():
                world.new_connection()
                return Client()
        self.patch = mock.patch.object(coapc, "Context", FakeContext)
        self.patch.start()
        return self

    def __exit__(self, *a):
        self.patch.stop()

    async def discover(self):
        import dataclasses
        from harness import rcsim
        from aiohomekit.controller.coap.discovery import CoAPDiscovery
        self.controller = _controller()
        description = dataclasses.replace(rcsim.description([1]), address="fd00::1:2", addresses=["fd00::1:2"], port=5683, type="_hap._udp.local.")
        self.disc = CoAPDiscovery(self.controller, description)
        return self.disc

    def drop(self):
        self.world.cur = None  # the accessory lost power for a moment

    async def close(self):
        return None


LINK_SIDES = {"ble": _BleSide, "ip": _IpSide, "coap": _CoapSide}
MALFORMED_PIN = "0314-5154"


def run_links(ctx, env, case, rb):
    """run one history over failing links; returns (problems [(signature, what, index of the call)], trace)"""
    import asyncio
    world = LinkWorld(case, rb)
    transport = case["transport"]
    other_pin = next(p for p in PINS if p != case["pin"])
    problems, trace = [], []
    seen_A = {}

    async def play():
        with LINK_SIDES[transport](env, world, case) as side:
            disc = await side.discover()
            closure, closure_fresh, tainted = None, False, False
            try:
                for ci, call in enumerate(case["calls"]):
                    world.call = ci
                    if call[0] == "drop":
                        side.drop()
                        tainted, closure_fresh = True, False
                        await asyncio.sleep(0)
                        trace.append(("drop", "-"))
                        continue
                    if call[0] == "adv":
                        # the accessory is heard again (BLE: the scanner hands the controller a new device object / advertisement)
                        if hasattr(side, "advertise"):
                            side.advertise()
                        trace.append(("adv", "-"))
                        continue
                    if call[0] == "start":
                        coro = disc.async_start_pairing("hall")
                    elif closure is None:
                        trace.append((call[0], "skipped"))
                        continue
                    else:
                        used = {"right": case["pin"], "wrong": other_pin, "malformed": MALFORMED_PIN}[call[1]]
                        coro = closure(used)
                    n_fired, n_sess, n_verd, n_req = len(world.fired), len(world.sessions), len(world.verdicts), sum(len(s["peer"].requests) for s in world.sessions)
                    paired_before, cur_before = world.paired is not None, world.cur
                    task = asyncio.ensure_future(coro)
                    done, _ = await asyncio.wait({task}, timeout=3600)
                    res, exc, hung = None, None, False
                    if not done:
                        hung = True
                        task.cancel()
                        try:
                            await task
                        except BaseException:  # noqa: BLE001
                            pass
                    else:
                        try:
                            res = task.result()
                        except BaseException as e:  # noqa: BLE001
                            exc = e
                    ctx.evaluations += 1
                    fired = [world.faults[k] for k, _ in world.fired[n_fired:]]
                    sessions = world.sessions[n_sess:]
                    verdicts = world.verdicts[n_verd:]
                    disturbed = bool(fired) or tainted
                    if call[-1] != "malformed":
                        tainted = False  # (a malformed code is refused before anything is sent: the next call still meets the dropped link)
                    out = "hung" if hung else ("err:" + type(exc).__name__ if exc is not None else ("closure" if call[0] == "start" else "paired"))
                    trace.append((" ".join(call), out))
                    tag = "+".join(sorted(f["at"] + (str(f["msg"]) if f.get("msg") is not None else "") for f in fired)) or "none"
                    ctx.dist[f"links:{transport}:{call[0]}{':' + call[1] if len(call) > 1 else ''}:faults={tag}:{out}"] += 1
                    ctx.nontrivial.add(("links", transport, " ".join(call), tag, out, tuple(v for _, _, v in verdicts)))
                    where = (f"call {ci + 1} ({' '.join(call)}, {transport}, code {case['pin']}; calls so far {[c + ' -> ' + o for c, o in trace]}; "
                             f"link faults during this call {fired or 'none'}; the accessory opened {len(world.sessions)} SRP session(s) on {world.connections} connection(s) so far, "
                             f"its verdicts during this call {[f'session {n}: {v}' for _, n, v in verdicts] or 'none'})")
                    # -- freshness of the controller's public value, at the accessory
                    for s in world.sessions:
                        for req in s["peer"].requests:
                            d = dict(req)
                            if d.get(6) == b"\x03" and 3 in d:
                                first = seen_A.setdefault(d[3], (s["n"], id(req)))
                                if first[1] != id(req):
                                    problems.append(("setup/ephemeral-reused", f"{where}: the SRP public value A={hx(d[3][:8])}... sent into session {first[0]} was sent again into session {s['n']}", ci))
                    # -- what the controller sent into sessions of the honest accessory while holding the right code
                    pin_right = call[0] == "finish" and call[1] == "right"
                    for _, n, v in verdicts:
                        s = world.sessions[n - 1]
                        if pin_right and session_kind(s, ci)[0] == "honest" and v in ("m3-refused", "m5-refused"):
                            m = v[:2]
                            problems.append((f"setup/links/{transport}/{m}-refused",
                                             f"{where}: the setup code given is the accessory's and the accessory is honest, yet the {m.upper()} the controller sent did not verify against the accessory's current SRP "
                                             f"session #{n} (salt {hx(s['peer'].salt[:4])}..., opened by the M1 of call {s['call'] + 1}) - the accessory counted a failed authentication attempt", ci))
                    # -- what the call gave back
                    if call[0] == "start":
                        if exc is None and not hung:
                            closure, closure_fresh = res, not disturbed
                            if not callable(res):
                                problems.append((f"setup/links/{transport}/start-result", f"{where}: async_start_pairing returned {type(res).__name__}, not a callable", ci))
                        else:
                            closure, closure_fresh = None, False
                            if not disturbed and not paired_before and all(session_kind(x, ci)[0] == "honest" for x in sessions):
                                problems.append((f"setup/links/{transport}/rejected-genuine", f"{where}: async_start_pairing against an honest unpaired accessory over an undisturbed link "
                                                 f"{'never returned' if hung else 'failed with ' + type(exc).__name__ + ': ' + str(exc)[:80]}", ci))
                    else:
                        accepted_now = world.paired is not None and world.paired_call == ci
                        s = world.paired if accepted_now else (world.cur if world.cur is not None else (sessions[-1] if sessions else None))
                        skind, slabel = session_kind(s, ci) if s is not None else ("none", "none")
                        if exc is None and not hung:
                            rec = getattr(res, "pairing_data", None)
                            if call[1] != "right":
                                problems.append((f"setup/links/{transport}/{call[1]}-code/returned", f"{where}: a pairing was returned ({str(rec)[:60]}...) although the code given is not the accessory's", ci))
                            elif not accepted_now:
                                problems.append((f"setup/links/{transport}/returned", f"{where}: a pairing was returned ({str(rec)[:60]}...) although the accessory accepted no M5 during this call", ci))
                            elif skind == "adversarial":
                                problems.append((f"setup/links/{transport}/{slabel}/returned", f"{where}: a pairing was returned ({str(rec)[:60]}...) although a reply of the session it came from was altered "
                                                 f"({s['how']})", ci))
                            elif skind == "honest" or (skind == "void" and s["peer"].payload is not None):
                                peer, bad = s["peer"], []
                                exp_id, exp_pk = peer.expected_identity()
                                if not isinstance(rec, dict):
                                    bad.append(f"the object returned carries no pairing data ({type(res).__name__})")
                                else:
                                    if rec.get("AccessoryPairingID") != exp_id.decode() or rec.get("AccessoryLTPK") != exp_pk.hex():
                                        bad.append("the accessory identity returned is not the one authenticated in this exchange")
                                    if rec.get("iOSPairingId") != peer.accepted[0] or rec.get("iOSDeviceLTPK") != peer.accepted[1].hex():
                                        bad.append("the controller identity returned is not the one this accessory accepted")
                                    else:
                                        try:
                                            sk = ed25519.Ed25519PrivateKey.from_private_bytes(bytes.fromhex(rec["iOSDeviceLTSK"]))
                                            if sk.public_key().public_bytes(**refacc.RAW) != peer.accepted[1]:
                                                bad.append("the controller's private key does not match the public key the accessory accepted")
                                        except Exception:  # noqa: BLE001
                                            bad.append("the controller's private key is unusable")
                                    if side.controller.pairings.get("hall") is not res:
                                        bad.append("the pairing kept under the alias is not the one returned")
                                if bad:
                                    problems.append((f"setup/links/{transport}/record", f"{where}: " + "; ".join(bad), ci))
                            closure_fresh = False
                            if not problems:
                                return  # paired: the history is over
                        else:
                            after_accept = accepted_now and len(world.fired) > world.accept_mark
                            if pin_right and accepted_now and skind == "honest" and not after_accept and not hung:
                                problems.append((f"setup/links/{transport}/rejected-genuine", f"{where}: the accessory accepted the controller's M5 and its M6 travelled undisturbed, yet finish_pairing failed with "
                                                 f"{type(exc).__name__}: {str(exc)[:80]}", ci))
                            elif (pin_right and not disturbed and not paired_before and (transport == "ble" or closure_fresh)
                                  and all(session_kind(x, ci)[0] == "honest" for x in sessions + ([cur_before] if cur_before is not None else []))):
                                problems.append((f"setup/links/{transport}/rejected-genuine", f"{where}: the code is right, the accessory honest and unpaired and nothing happened to the link during this call, yet finish_pairing "
                                                 f"{'never returned' if hung else 'failed with ' + type(exc).__name__ + ': ' + str(exc)[:80]}", ci))
                            elif (pin_right and not disturbed and not paired_before and not hung and transport != "ble"
                                  and all(session_kind(x, ci)[0] == "honest" for x in sessions + ([cur_before] if cur_before is not None else []))):
                                ctx.dist[f"links-observed:{transport}:finish_pairing called again after a failed one does not restart pair-setup and fails"] += 1
                            if call[1] != "malformed":
                                closure_fresh = False
                    if problems:
                        return
            finally:
                try:
                    await side.close()
                except Exception:  # noqa: BLE001
                    pass
    env.loop.run_until_complete(play())
    return problems, trace


LINK_POINTS = [("req", 1), ("rep", 2), ("req", 3), ("rep", 4), ("req", 5), ("rep", 6)]
LINK_TAIL = [["finish", "right"], ["start"], ["finish", "right"], ["start"], ["finish", "right"]]


def link_cases(ctx, rng):
    """the histories of stream (f)"""
    def mk(transport, calls, faults, sessions=None):
        c = {"stream": "links", "transport": transport, "pin": rng.choice(PINS), "acc_id": rng.choice(ACC_IDS), "calls": [list(x) for x in calls], "faults": faults}
        if sessions:
            c["sessions"] = sessions
        if transport == "ble":
            c.update(fs=rng.choice([64, 185, 512]), chunk=rng.choice([0, 0, 120, 255]), features=rng.choice([0, 0, 1, 2]))
        if rng.random() < 0.25:
            c["reverse"] = True
        return c

    def fault(transport, at, msg=None, nth=1):
        f = {"at": at, "nth": nth}
        if msg is not None:
            f["msg"] = msg
        if transport == "ble":
            f["err"] = rng.choice(LINK_ERRORS + ("bleak", "bleak", "notfound" if at == "connect" else "bleak"))
        elif transport == "ip" and at in ("req", "rep"):
            f["how"] = rng.choice(["reset", "close"] + (["partial"] if at == "rep" else []))
        elif transport == "coap" and at in ("req", "rep"):
            f["how"] = rng.choice(["timeout", "neterr", "rst"])
        return f

    def state_mutation():
        msg = rng.choice([2, 4, 6])
        return {"mutation": {"msg": msg, "where": "outer", "field": 6, "op": rng.choice(state_ops(msg, rng, 3, 3))}}

    def wire_mutation():
        msg, where = rng.choice([(2, "outer"), (4, "outer"), (6, "outer"), (6, "inner")])
        ops = wire_ops(wire_template(msg, where), WIRE_EXPECTED[(msg, where)], rng, False, 1, 2, 2, 2)
        return {"mutation": {"msg": msg, "where": where, "wire": rng.choice(ops)}}

    def adversary():
        r = rng.random()
        return "wrong-code" if r < 0.35 else ({"mutation": field_mutation(rng)} if r < 0.6 else (state_mutation() if r < 0.8 else wire_mutation()))

    begin = [["start"], ["finish", "right"]]
    out = []
    # every point of the exchange, once, on every transport (quick tier: all of them on BLE, a rotating half elsewhere)
    for transport in ("ble", "ip", "coap"):
        pts = LINK_POINTS if transport == "ble" or ctx.budget(False, True) else rng.sample(LINK_POINTS, 3)
        for at, msg in pts:
            out.append(mk(transport, begin + LINK_TAIL, [fault(transport, at, msg)]))
    # BLE: the link goes while a PDU fragment is written / read; connection attempts fail
    for _ in range(ctx.budget(4, 80)):
        at = rng.choice(["write", "write", "read", "read", "connect"])
        out.append(mk("ble", begin + LINK_TAIL, [fault("ble", at, None, rng.randrange(1, 4 if at == "connect" else 14))]))
    # two losses: both tries of one call, the retry's own M1/M2, one in each of two calls
    for _ in range(ctx.budget(3, 80)):
        transport = rng.choice(["ble", "ble", "ble", "ip", "coap"])
        (a1, m1), (a2, m2) = rng.choice(LINK_POINTS[2:]), rng.choice(LINK_POINTS)
        n2 = 2 if (a2, m2) == (a1, m1) or m2 <= 2 else rng.choice([1, 2])
        out.append(mk(transport, begin + LINK_TAIL, [fault(transport, a1, m1), fault(transport, a2, m2, n2)]))
    # the user types another code / a malformed one first; the link drops while nothing is in flight
    for transport in ("ble", "ip", "coap"):
        out.append(mk(transport, [["start"], ["finish", "wrong"]] + LINK_TAIL, []))
    for transport in ["ble"] + [rng.choice(["ip", "coap"]) for _ in range(ctx.budget(0, 6))] + ["ble"] * ctx.budget(0, 6):
        out.append(mk(transport, [["start"], ["finish", rng.choice(["malformed", "wrong"])]] + LINK_TAIL, [fault(transport, *rng.choice(LINK_POINTS[2:]))]))
    for transport in ["ble", rng.choice(["ip", "coap"])] + [rng.choice(["ble", "ip", "coap"]) for _ in range(ctx.budget(0, 12))]:
        out.append(mk(transport, [["start"], ["drop"]] + LINK_TAIL, []))
    # the negative half in a LATER attempt: the session a retry / a second call lands in is with a wrong-code accessory or has
    # one reply altered
    for transport in ["ble", "ble", "ble", "ip", "coap"] + [rng.choice(["ble", "ip", "coap"]) for _ in range(ctx.budget(0, 60))]:
        r = rng.random()
        if r < 0.6:
            out.append(mk(transport, begin + LINK_TAIL, [fault(transport, *rng.choice(LINK_POINTS[2:5]))], {"2": adversary()}))
        elif r < 0.8:
            out.append(mk(transport, begin + LINK_TAIL, [], {"1": adversary()}))
        else:
            out.append(mk(transport, [["start"], ["finish", "wrong"]] + LINK_TAIL, [], {"2": adversary()}))
    # the encrypted reply's required items split between the payload and the plaintext reply (payload_mutations), in the first
    # session or in the one a retry lands in - through the discovery objects' own finish_pairing
    for msg in PAYLOAD_REQUIRED:
        muts = payload_mutations(rng, msg, False)
        moved = [m for m in muts if payload_shape(msg, m["payload"]) == "moved"]
        same = [m for m in moved if all(src == "own" for _, src in m["payload"]["outside"])]  # the accessory's own values, only outside the payload
        picks = [("ble", rng.choice(same)), ("ble", rng.choice(moved)), ("ble", rng.choice(same)), (rng.choice(["ip", "coap"]), rng.choice(moved)), ("ble", rng.choice(muts))]
        picks += [(rng.choice(["ble", "ble", "ip", "coap"]), rng.choice(muts)) for _ in range(ctx.budget(0, 40))]
        for k, (transport, m) in enumerate(picks):
            if k % 2 == 0:
                out.append(mk(transport, begin + LINK_TAIL, [], {"1": {"mutation": m}}))
            else:
                out.append(mk(transport, begin + LINK_TAIL, [fault(transport, *rng.choice(LINK_POINTS[2:5]))], {"2": {"mutation": m}}))
    # random histories
    for _ in range(ctx.budget(4, 300)):
        transport = rng.choice(["ble", "ble", "ip", "coap"])
        calls = [["start"]]
        for _ in range(rng.choice([1, 1, 2, 3])):
            r = rng.random()
            if r < 0.15:
                calls.append(["drop"])
            elif r < 0.3:
                calls.append(["start"])
            elif r < 0.4 and transport == "ble":
                calls.append(["adv"])
            calls.append(["finish", rng.choice(["right"] * 6 + ["wrong", "wrong", "malformed"])])
        faults = []
        for _ in range(rng.choice([0, 1, 1, 2, 2, 3])):
            at = rng.choice(["req", "rep", "req", "rep", "connect"] + (["write", "read"] if transport == "ble" else []))
            if at in ("req", "rep"):
                msg = rng.choice([m for a, m in LINK_POINTS if a == at])
                faults.append(fault(transport, at, msg, rng.choice([1, 1, 1, 2, 2, 3])))
            else:
                faults.append(fault(transport, at, None, rng.randrange(1, 4 if at == "connect" else 30)))
        sessions = {str(rng.choice([1, 2, 2, 3])): adversary()} if rng.random() < 0.3 else None
        out.append(mk(transport, calls + LINK_TAIL, faults, sessions))
    return out


def link_level(ctx, rng, rb):
    for case in link_cases(ctx, rng):
        env = _Env()
        try:
            problems, trace = run_links(ctx, env, case, rb)
        finally:
            _quiet_close(env)
        if len(ctx.samples) < 6 and case["faults"] and case["transport"] == "ble":
            ctx.sample(dict(case, outcome=[f"{c} -> {o}" for c, o in trace]))
        for sig, what, ci in problems:
            ctx.violation(sig, what, dict(case, calls=case["calls"][:ci + 1]))
    seen = sorted(k.split(":", 2)[1] for k in ctx.dist if k.startswith("links-observed:"))
    if seen:
        ctx.notes.append("failing links: on " + "/".join(seen) + " a finish_pairing callable that is called again after a failed call (link lost, or another code typed first) does not restart pair-setup: the accessory "
                         "has no session for its M3 any more and the call fails although code and accessory are right - async_start_pairing has to be called again (BLE restarts by itself); noted, not asserted")


def _quiet_close(env):
    """cancel what a history left behind (reconnect loops of a lost connection, timers of a fresh pairing) and close its loop"""
    import asyncio
    loop = env.loop
    try:
        pending = [t for t in asyncio.all_tasks(loop) if not t.done()]
        for t in pending:
            t.cancel()
        if pending:
            loop.run_until_complete(asyncio.gather(*pending, return_exceptions=True))
    except Exception:  # noqa: BLE001
        pass
    env.close()


def replay(ctx, driver, c):
    if not isinstance(c, dict) or c.get("stream") not in ("history", "interleave", "links"):
        return None
    rb = lambda n: bytes(ctx.rng.randrange(256) for _ in range(n))  # noqa: E731
    if c["stream"] == "links":
        env = _Env()
        try:
            return [list(p) for p in run_links(ctx, env, c, rb)[0]] or None
        finally:
            _quiet_close(env)
    if c["stream"] == "interleave":
        return [list(p) for p in run_interleaved(ctx, c, rb)] or None
    env = _Env()
    try:
        return [list(p) for p in run_history(ctx, env, c, rb)] or None
    finally:
        env.close()
