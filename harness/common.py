"""Shared plumbing of all checks: Lean build + audit, driver line protocol, evidence, replay files,
known findings.  Run under /venv/bin/python (aiohomekit is an editable install of /repo)."""
from __future__ import annotations

import fcntl
import json
import os
import random
import re
import subprocess
import sys
import time
from collections import Counter

VERIF = os.path.dirname(os.path.dirname(os.path.abspath(__file__)))
LEAN = os.path.join(VERIF, "lean")
REPO = os.environ.get("VERIF_REPO", "/repo")
DRIVER = os.path.join(LEAN, ".lake", "build", "bin", "driver")
ALLOWED_AXIOMS = {"propext", "Classical.choice", "Quot.sound"}
FORBIDDEN = re.compile(r"\bsorry\b|\badmit\b|^\s*axiom\s|native_decide|bv_decide|implemented_by|\bunsafe\s|maxHeartbeats\s+0", re.M)

os.environ.setdefault("AIOHOMEKIT_VERIF", "1")


def strip_comments(src: str) -> str:
    """remove /- ... -/ (nested) and -- comments, and string literals' contents are left alone"""
    out = []
    i = 0
    depth = 0
    n = len(src)
    while i < n:
        if src.startswith("/-", i):
            depth += 1
            i += 2
            continue
        if depth and src.startswith("-/", i):
            depth -= 1
            i += 2
            continue
        if depth:
            i += 1
            continue
        if src.startswith("--", i):
            j = src.find("\n", i)
            i = n if j < 0 else j
            continue
        out.append(src[i])
        i += 1
    return "".join(out)


class LeanResult:
    def __init__(self):
        self.translator_ok = True
        self.translator_msg = ""
        self.build_ok = True
        self.build_log = ""
        self.theorems = []  # names in Props/Cxx.lean
        self.axioms = {}  # name -> list
        self.bad = []  # (name, reason)
        self.forbidden = []  # (file, token)
        self.driver_ok = True
        self.wall = 0.0
        self.leanchecker = None

    @property
    def obligations(self):
        return len(self.theorems)

    @property
    def discharged(self):
        if not self.build_ok:
            return 0
        badnames = {n for n, _ in self.bad}
        return len([t for t in self.theorems if t not in badnames])

    @property
    def ok(self):
        return self.translator_ok and self.build_ok and self.driver_ok and not self.bad and not self.forbidden and self.obligations > 0


def _run(cmd, cwd=None, timeout=1800):
    p = subprocess.run(cmd, cwd=cwd, stdout=subprocess.PIPE, stderr=subprocess.STDOUT, text=True, timeout=timeout)
    return p.returncode, p.stdout


def lean_build_and_audit(pid: str, tier: str) -> LeanResult:
    """translator -> lake build (props of this id + driver) -> grep audit -> #print axioms audit."""
    res = LeanResult()
    t0 = time.time()
    lock = open(os.path.join(LEAN, ".lock"), "w")
    fcntl.flock(lock, fcntl.LOCK_EX)
    try:
        rc, out = _run([sys.executable, os.path.join(VERIF, "tools", "translate.py")])
        res.translator_msg = out.strip()
        if rc != 0:
            res.translator_ok = False
        props = os.path.join(LEAN, "HapVerif", "Props", f"{pid}.lean")
        src = strip_comments(open(props).read())
        res.theorems = re.findall(r"^\s*theorem\s+(" + pid + r"_\w+)", src, re.M)
        # driver first (models only): even when a proof breaks we want the executable model
        rc, out = _run(["lake", "build", "driver"], cwd=LEAN)
        if rc != 0:
            res.driver_ok = False
            res.build_log += out[-4000:]
        rc, out = _run(["lake", "build", f"HapVerif.Props.{pid}"], cwd=LEAN)
        if rc != 0:
            res.build_ok = False
            res.build_log += "\n".join(l for l in out.splitlines() if "error" in l.lower())[-4000:]
            # which theorems are affected: names mentioned in error lines, by line number
            res.bad = [(t, "does not compile") for t in _broken_theorems(props, out, res.theorems)] or [(t, "file does not compile") for t in res.theorems]
        # source audit over the whole Lean tree (comments stripped)
        for root, _, files in os.walk(os.path.join(LEAN, "HapVerif")):
            for f in files:
                if f.endswith(".lean"):
                    s = strip_comments(open(os.path.join(root, f)).read())
                    for m in FORBIDDEN.finditer(s):
                        res.forbidden.append((os.path.relpath(os.path.join(root, f), LEAN), m.group(0).strip()))
        if res.build_ok:
            ns = re.search(r"^namespace\s+(\S+)", src, re.M)
            prefix = (ns.group(1) + ".") if ns else ""
            audit = os.path.join(LEAN, f".audit_{pid}.lean")
            with open(audit, "w") as f:
                f.write(f"import HapVerif.Props.{pid}\n")
                for t in res.theorems:
                    f.write(f"#print axioms {prefix}{t}\n")
            rc, out = _run(["lake", "env", "lean", audit], cwd=LEAN)
            os.unlink(audit)
            res.axioms = _parse_axioms(out, prefix)
            for t in res.theorems:
                if t not in res.axioms:
                    res.bad.append((t, "no #print axioms output"))
                else:
                    extra = set(res.axioms[t]) - ALLOWED_AXIOMS
                    if extra:
                        res.bad.append((t, "axioms " + ",".join(sorted(extra))))
            if tier == "thorough":
                rc, out = _run(["lake", "env", "leanchecker", f"HapVerif.Props.{pid}"], cwd=LEAN, timeout=3600)
                res.leanchecker = (rc == 0)
                if rc != 0:
                    res.bad.append(("leanchecker", out[-500:]))
    finally:
        fcntl.flock(lock, fcntl.LOCK_UN)
        lock.close()
    res.wall = time.time() - t0
    return res


def _broken_theorems(props, out, theorems):
    """map error line numbers of Props/Cxx.lean to the enclosing theorem names"""
    lines = open(props).read().splitlines()
    starts = []
    for i, l in enumerate(lines, 1):
        m = re.match(r"\s*theorem\s+(\w+)", l)
        if m:
            starts.append((i, m.group(1)))
    bad = []
    base = os.path.basename(props)
    for m in re.finditer(re.escape(base) + r":(\d+):\d+", out):
        ln = int(m.group(1))
        name = None
        for s, nme in starts:
            if s <= ln:
                name = nme
        if name and name in theorems and name not in bad:
            bad.append(name)
    return bad


def _parse_axioms(out, prefix):
    ax = {}
    for m in re.finditer(r"'([\w.]+)' depends on axioms: \[([^\]]*)\]", out.replace("\n", " ")):
        name = m.group(1)
        if name.startswith(prefix):
            name = name[len(prefix):]
        ax[name] = [a.strip() for a in m.group(2).split(",") if a.strip()]
    for m in re.finditer(r"'([\w.]+)' does not depend on any axioms", out):
        name = m.group(1)
        if name.startswith(prefix):
            name = name[len(prefix):]
        ax[name] = []
    return ax


class Driver:
    """batch interface to the compiled Lean model driver (one op per line)"""

    def __init__(self):
        self.available = os.path.exists(DRIVER)

    def run(self, lines: list[str], timeout=1800) -> list[str]:
        if not lines:
            return []
        p = subprocess.run([DRIVER], input="\n".join(lines) + "\n", stdout=subprocess.PIPE, stderr=subprocess.PIPE, text=True, timeout=timeout)
        outs = p.stdout.split("\n")
        if outs and outs[-1] == "":
            outs.pop()
        if len(outs) != len(lines):
            outs += [f"driver-died rc={p.returncode} {p.stderr[-200:]!r}"] * (len(lines) - len(outs))
        return outs


def hx(b) -> str:
    b = bytes(b)
    return b.hex() if b else "-"


def unhx(s: str) -> bytes:
    return b"" if s == "-" else bytes.fromhex(s)


class Ctx:
    def __init__(self, pid, tier, seed):
        self.pid = pid
        self.tier = tier
        self.seed = seed
        self.rng = random.Random(seed)
        self.t0 = time.time()
        self.evaluations = 0
        self.nontrivial = set()
        self.samples = []
        self.dist = Counter()
        self.violations = []  # dicts: signature, what, case
        self.mismatches = []  # dicts: stream, case, impl, model
        self.known_hit = []
        self.notes = []
        self.traces = 0
        self.streams = Counter()

    def thorough(self):
        return self.tier == "thorough"

    def budget(self, quick, thorough):
        if self.tier == "thorough":
            return thorough
        if self.tier == "search" and isinstance(quick, int) and isinstance(thorough, int) and not isinstance(quick, bool) and quick >= 10:
            # the generic failing-input search: four times the quick sample counts (depths stay as in quick)
            return min(thorough, quick * 4) if thorough >= quick else thorough
        return quick

    def sample(self, case, limit=6):
        if len(self.samples) < limit:
            self.samples.append(case)

    def violation(self, signature, what, case):
        self.violations.append({"signature": signature, "what": what, "case": case})

    def mismatch(self, stream, case, impl, model):
        self.mismatches.append({"stream": stream, "case": case, "impl": impl, "model": model})


def load_known(pid):
    p = os.path.join(VERIF, "known_findings.json")
    if not os.path.exists(p):
        return []
    with open(p) as f:
        data = json.load(f)
    return [e for e in data.get("findings", []) if e.get("property") == pid and e.get("status") == "open"]


def write_replay(pid, payload) -> str:
    d = os.path.join(VERIF, "replays")
    os.makedirs(d, exist_ok=True)
    p = os.path.join(d, f"{pid}_{int(time.time())}_{os.getpid()}.json")
    with open(p, "w") as f:
        json.dump(payload, f, indent=1, default=str)
    return p


def load_corpus(pid):
    d = os.path.join(VERIF, "corpus", pid)
    out = []
    if os.path.isdir(d):
        for fn in sorted(os.listdir(d)):
            if fn.endswith(".json"):
                with open(os.path.join(d, fn)) as f:
                    data = json.load(f)
                cases = data if isinstance(data, list) else data.get("cases", [data])
                out.extend(cases)
    return out


def compare_with_model(ctx: Ctx, stream: str, cases, impl_outs, lines, driver: Driver, canon=lambda s: s):
    """differential step: run `lines` through the Lean driver and diff with the implementation"""
    if not driver.available:
        ctx.notes.append(f"{stream}: driver unavailable, correspondence not run")
        return 0
    outs = driver.run(lines)
    n = 0
    for case, io, mo in zip(cases, impl_outs, outs):
        n += 1
        if canon(io) != canon(mo):
            if len(ctx.mismatches) < 50:
                ctx.mismatch(stream, case, io, mo)
            else:
                ctx.dist["mismatch_overflow"] += 1
    ctx.traces += n
    ctx.streams[stream] += n
    return n


def shrink_list(items, still_fails, budget=250):
    """greedy delta-debugging of an operation sequence: drop chunks, then single operations, while the failure persists"""
    cur = list(items)
    n = max(len(cur) // 2, 1)
    while n >= 1 and budget > 0:
        i = 0
        changed = False
        while i < len(cur) and budget > 0:
            cand = cur[:i] + cur[i + n:]
            budget -= 1
            ok = False
            try:
                ok = bool(cand) and still_fails(cand)
            except Exception:  # noqa: BLE001
                ok = False
            if ok:
                cur = cand
                changed = True
            else:
                i += n
        if n == 1 and not changed:
            break
        n = n // 2 if n > 1 else (1 if changed else 0)
    return cur
