"""C06 - no nonce is reused and no encrypted message is accepted twice or out of order."""
from __future__ import annotations

import asyncio
import itertools
import struct
from unittest import mock

from cryptography.exceptions import InvalidTag
from cryptography.hazmat.primitives.ciphers.aead import ChaCha20Poly1305

from harness import simnet
from harness.common import Ctx, Driver, compare_with_model, hx, load_corpus

import aiohomekit.controller.ble.pairing as blep
import aiohomekit.controller.coap.connection as coapc
import aiohomekit.controller.ip.connection as ipc
from aiohomekit.pdu import OpCode

ID = "C06"
RULE = ("per transport, EXHAUSTIVE event sequences to depth 5 (quick) / 6 (thorough) over {send n, deliver genuine next, replay of an earlier genuine message, a message with a future counter, "
        "a corrupted message, cancel/timeout} + random sequences to length 40; real ChaCha20-Poly1305 under one key, the harness plays the accessory and records every (nonce) the "
        "controller seals with and every ciphertext that yields plaintext. non-trivial = distinct event sequence")
TRUSTED = ["cryptography ChaCha20Poly1305 as the accessory's cipher", "asyncio closes the transport when data_received raises (mimicked by the in-memory transport)"]
ASSUMPTIONS = ["distinct pair-verify runs give distinct keys, so counters restarting at 0 in a new session reuse no (key, nonce) pair",
               "symbolic AEAD in the model: a ciphertext opens under exactly the counter it was sealed with"]
EXPLANATION = "Lean theorems C06_* over counter automata (IP/BLE: all histories; CoAP: events all histories, responses partial + two counterexample theorems = known findings); differential tie on the real cipher wrappers"

KEY_A2C = bytes(range(32))
KEY_C2A = bytes(range(32, 64))
KEY_EV = bytes(range(64, 96))


def n_ip(c):
    return struct.pack("<LQ", 0, c)


def n_coap(c):
    return struct.pack("=4xQ", c)


# ---------------------------------------------------------------- IP
def run_ip(loop, evs):
    """evs: list of ('s', n) | ('g', j) | ('x',) | ('a',) ; returns obs tokens"""
    obs = []
    net = simnet.Net(loop)

    class Conn:
        def _connection_lost(self, exc):
            pass

        def event_received(self, ev):
            pass

    async def main():
        p = ipc.SecureHomeKitProtocol(Conn(), KEY_A2C, KEY_C2A)
        t = simnet.FakeTransport(net, "h", p, loop)
        p.connection_made(t)
        orig_enc = p.encryptor.encrypt

        def enc(aad, nonce, pt):
            obs.append("s%d" % struct.unpack("<LQ", nonce)[1])
            return orig_enc(aad, nonce, pt)
        p.encryptor.encrypt = enc
        sink = []
        pending = []
        with mock.patch.object(ipc.InsecureHomeKitProtocol, "data_received", lambda self, data: sink.append(bytes(data))):
            for ev in evs:
                was_closed = t.closing
                if ev[0] == "s":
                    payload = b"p" * (1024 * (ev[1] - 1) + 1) if ev[1] > 0 else b""
                    task = asyncio.ensure_future(p.send_bytes(payload))
                    pending.append(task)
                    await asyncio.sleep(0)
                elif ev[0] in ("g", "x"):
                    if ev[0] == "g":
                        j = ev[1]
                        body = b"m%d" % j
                        lb = struct.pack("<H", len(body))
                        frame = lb + ChaCha20Poly1305(KEY_A2C).encrypt(n_ip(j), body, lb)
                    else:
                        lb = struct.pack("<H", 3)
                        frame = lb + bytes(3 + 16)
                    n0 = len(sink)
                    t.feed(frame)
                    await asyncio.sleep(0)
                    for s in sink[n0:]:
                        obs.append("a" + s[1:].decode())
                elif ev[0] == "a":
                    live = [x for x in pending if not x.done()]
                    if live:
                        live[-1].cancel()
                        await asyncio.sleep(0)
                        await asyncio.sleep(0)
                    else:
                        t.close()
                await asyncio.sleep(0)
                if t.closing and not was_closed:
                    obs.append("c")
        for x in pending:
            x.cancel()
        await asyncio.gather(*pending, return_exceptions=True)
    loop.run_until_complete(main())
    return obs


# ---------------------------------------------------------------- BLE
class _BleClient:
    is_connected = True
    address = "AA"

    def __init__(self, script, obs, cancel_at=None):
        self.script = script
        self.obs = obs
        self.writes = 0

    async def get_characteristic(self, *a):
        class H:
            properties = ["read", "write"]
        return H()

    def determine_fragment_size(self, overhead, handle):
        return 64 - overhead

    async def write_gatt_char(self, handle, data, response):
        self.writes += 1

    async def read_gatt_char(self, handle):
        r = self.script.pop(0)
        if r == "cancel":
            raise asyncio.CancelledError()
        return r

    async def disconnect(self):
        self.is_connected = False


def run_ble(loop, evs):
    """events come in pairs: ('s', n) then one of ('g', j) / ('x',) / ('a',)  (a request and what the single response read returns)"""
    obs = []

    async def main():
        p = blep.BlePairing.__new__(blep.BlePairing)
        p._ble_request_lock = asyncio.Lock()
        p.pairing_data = {"AccessoryAddress": "AA"}
        p.id = "x"
        p.device = None
        p.description = None
        p.ble_advertisement = None
        p._encryption_key = blep.EncryptionKey(KEY_C2A)
        p._decryption_key = blep.DecryptionKey(KEY_A2C)
        orig = p._encryption_key.key.encrypt

        def enc(aad, nonce, pt):
            obs.append("s%d" % struct.unpack("<LQ", nonce)[1])
            return orig(aad, nonce, pt)
        p._encryption_key.key.encrypt = enc
        client = _BleClient([], obs)
        p.client = client

        class Char:
            iid = 5
            type = "t"

            class service:
                type = "s"
        i = 0
        while i < len(evs):
            ev = evs[i]
            if ev[0] != "s":
                i += 1
                continue
            resp = evs[i + 1] if i + 1 < len(evs) else ("a",)
            i += 2
            if p._encryption_key is None:
                break  # session is over; a new one would have fresh keys
            n = ev[1]
            body = b"b" * (max(n - 1, 0) * (64 - 16 - 2) + (64 - 16 - 7) if n > 1 else (1 if n == 1 else 0))
            if n == 0:
                body = None
            if resp[0] == "g":
                frag = struct.pack("<BBB", 2, 0, 0)  # tid patched below
                client.script = [("g", resp[1])]
            elif resp[0] == "x":
                client.script = [bytes(3 + 16)]
            else:
                client.script = ["cancel"]
            # tid is random: patch randrange so the genuine reply can carry it
            with mock.patch.object(blep.random if hasattr(blep, "random") else __import__("random"), "randrange", lambda a, b: 7), \
                    mock.patch("aiohomekit.controller.ble.client.random.randrange", lambda a, b: 7):
                if client.script and isinstance(client.script[0], tuple):
                    j = client.script[0][1]
                    client.script = [ChaCha20Poly1305(KEY_A2C).encrypt(n_ip(j), struct.pack("<BBB", 2, 7, 0), b"")]
                    label = "a%d" % j
                else:
                    label = None
                try:
                    async with p._ble_request_lock:
                        await p._async_request_under_lock(OpCode.CHAR_WRITE if body else OpCode.CHAR_READ, Char(), body)
                    if label:
                        obs.append(label)
                except BaseException:  # noqa: BLE001
                    obs.append("c")
    loop.run_until_complete(main())
    return obs


# ---------------------------------------------------------------- CoAP
def run_coap(loop, evs):
    """('q',) request ; ('g', j) / ('x',) the response payload handed to _decrypt_response (after a request)"""
    obs = []

    async def main():
        class Resp:
            def __init__(self, payload):
                self.payload = payload
                self.code = coapc.Code.CHANGED

        class CoapCtx:
            def __init__(self):
                self.next = None

            def request(self, msg):
                f = asyncio.get_event_loop().create_future()
                f.set_result(Resp(self.next))

                class R:
                    response = f
                return R()

            async def shutdown(self):
                pass
        cc = CoapCtx()
        ctx = coapc.EncryptionContext(ChaCha20Poly1305(KEY_A2C), ChaCha20Poly1305(KEY_C2A), ChaCha20Poly1305(KEY_EV), "coap://x/", cc)
        orig = ctx.send_ctx

        class Spy:
            def encrypt(self, nonce, data, aad):
                obs.append("s%d" % struct.unpack("=4xQ", nonce)[0])
                return orig.encrypt(nonce, data, aad)
        ctx.send_ctx = Spy()
        i = 0
        while i < len(evs):
            ev = evs[i]
            i += 1
            if ctx.coap_ctx is None:
                break
            if ev[0] == "q":
                # a request whose response is the next event if it is a response, else a genuine-less (corrupt) one is not fabricated: we encrypt only
                if i < len(evs) and evs[i][0] in ("g", "x"):
                    r = evs[i]
                    i += 1
                    cc.next = ChaCha20Poly1305(KEY_A2C).encrypt(n_coap(r[1]), b"r%d" % r[1], b"") if r[0] == "g" else bytes(20)
                    try:
                        out = await ctx.post_bytes(b"req")
                        obs.append("a" + out[1:].decode())
                    except Exception:  # noqa: BLE001
                        obs.append("c")
                else:
                    ctx.encrypt(b"req")  # request sent, response lost
            else:
                # an unsolicited response payload reaching _decrypt_response (e.g. a duplicate delivered by the network)
                payload = ChaCha20Poly1305(KEY_A2C).encrypt(n_coap(ev[1]), b"r%d" % ev[1], b"") if ev[0] == "g" else bytes(20)
                try:
                    out = await ctx._decrypt_response(Resp(payload))
                    obs.append("a" + out[1:].decode())
                except Exception:  # noqa: BLE001
                    obs.append("c")
    loop.run_until_complete(main())
    return obs


def run_coap_events(cts):
    ctx = coapc.EncryptionContext(ChaCha20Poly1305(KEY_A2C), ChaCha20Poly1305(KEY_C2A), ChaCha20Poly1305(KEY_EV), "coap://x/", None)
    obs = []
    for ct in cts:
        payload = ChaCha20Poly1305(KEY_EV).encrypt(n_coap(ct[1]), b"e%d" % ct[1], b"") if ct[0] == "g" else bytes(20)
        try:
            out = ctx.decrypt_event(payload)
            obs.append("a" + out[1:].decode())
        except InvalidTag:
            pass
    return obs


def tok(ev):
    return ev[0] + (str(ev[1]) if len(ev) > 1 else "")


def analyse(ctx, transport, evs, obs, case):
    """property oracle on the implementation's observations; returns list of (signature, text)"""
    sealed = [int(o[1:]) for o in obs if o.startswith("s")]
    acc = [int(o[1:]) for o in obs if o.startswith("a")]
    out = []
    if len(set(sealed)) != len(sealed):
        # which branch? CoAP reset
        sig = f"{transport}/nonce-reuse"
        if transport == "coap":
            sig = "coap/reset-reuses-send-nonce"
        out.append((sig, f"{transport}: nonces {sealed} sealed under one key"))
    if acc != sorted(set(acc)) or (acc and acc != list(range(acc[0], acc[0] + len(acc))) and transport != "coap"):
        sig = f"{transport}/accept-twice-or-out-of-order"
        if transport == "coap":
            # classify by the heuristic that must have fired
            bad = None
            hi = -1
            for a in acc:
                if a <= hi:
                    bad = (a, hi)
                    break
                hi = a
            if bad and bad[0] == 0 and bad[1] >= 6:
                sig = "coap/reset-accepts-replay"
            elif bad and bad[1] - bad[0] <= 5:
                sig = "coap/rewind-accepts-replay"
        out.append((sig, f"{transport}: accepted {acc} - a message was accepted twice or out of order"))
    return out


def gen_seqs(ctx, alphabet, depth, pair=False):
    for d in range(1, depth + 1):
        for seq in itertools.product(alphabet, repeat=d):
            yield list(seq)


def run(ctx: Ctx, driver: Driver):
    rng = ctx.rng
    loop = simnet.VLoop()
    asyncio.set_event_loop(loop)
    depth = ctx.budget(4, 5)
    # ------------- IP
    cases, outs, lines = [], [], []
    alpha = [("s", 1), ("s", 2), ("g", 0), ("g", 1), ("g", 2), ("x",), ("a",)]
    seqs = list(gen_seqs(ctx, alpha, depth))
    for _ in range(ctx.budget(150, 3000)):
        seqs.append([rng.choice(alpha + [("g", rng.randrange(0, 8)), ("s", rng.randrange(0, 4))]) for _ in range(rng.randrange(5, 40))])
    for evs in seqs:
        obs = run_ip(loop, evs)
        ctx.evaluations += 1
        case = {"stream": "ip", "events": [tok(e) for e in evs]}
        ctx.nontrivial.add(("ip", tuple(case["events"])))
        for sig, text in analyse(ctx, "ip", evs, obs, case):
            ctx.violation(sig, text, case)
        cases.append(case)
        outs.append(" ".join(obs) or "-")
        lines.append("ctr.ipble " + " ".join(tok(e) for e in evs))
    ctx.sample(cases[len(cases) // 2])
    compare_with_model(ctx, "ip", cases, outs, lines, driver)
    # ------------- BLE (request/response pairs)
    cases, outs, lines = [], [], []
    pairs = [[("s", n), r] for n in (1, 2) for r in (("g", 0), ("g", 1), ("g", 2), ("x",), ("a",))]
    bdepth = ctx.budget(3, 4)
    seqs = [sum(c, []) for d in range(1, bdepth + 1) for c in itertools.product(pairs, repeat=d)]
    for _ in range(ctx.budget(100, 2000)):
        seqs.append(sum((rng.choice(pairs + [[("s", rng.randrange(1, 4)), ("g", rng.randrange(0, 6))]]) for _ in range(rng.randrange(3, 15))), []))
    for evs in seqs:
        obs = run_ble(loop, evs)
        ctx.evaluations += 1
        case = {"stream": "ble", "events": [tok(e) for e in evs]}
        ctx.nontrivial.add(("ble", tuple(case["events"])))
        for sig, text in analyse(ctx, "ble", evs, obs, case):
            ctx.violation(sig, text, case)
        # the model keeps consuming events after the session died (they have no effect there); BLE stops issuing requests: compare the prefix up to the close
        cases.append(case)
        outs.append(" ".join(obs) or "-")
        # in the model a cancelled read is 'abort'
        lines.append("ctr.ipble " + " ".join(tok(e) for e in evs))
    compare_with_model(ctx, "ble", cases, outs, lines, driver, canon=canon_until_close)
    # ------------- CoAP
    cases, outs, lines = [], [], []
    calpha = [("q",), ("g", 0), ("g", 1), ("g", 2), ("x",)]
    seqs = list(gen_seqs(ctx, calpha, depth))
    # longer directed histories that leave the rewind window
    for n in (6, 7, 8, 12):
        base = sum(([("q",), ("g", j)] for j in range(n)), [])
        for tail in ([("g", 3)], [("g", 0)], [("g", 0), ("q",)], [("g", n + 2)], [("g", n + 2), ("g", n)], [("x",)], [("g", n - 1), ("q",), ("g", n)]):
            seqs.append(base + tail)
    for _ in range(ctx.budget(150, 3000)):
        seqs.append([rng.choice(calpha + [("g", rng.randrange(0, 12)), ("q",), ("q",)]) for _ in range(rng.randrange(5, 40))])
    for evs in seqs:
        obs = run_coap(loop, evs)
        ctx.evaluations += 1
        case = {"stream": "coap", "events": [tok(e) for e in evs]}
        ctx.nontrivial.add(("coap", tuple(case["events"])))
        for sig, text in analyse(ctx, "coap", evs, obs, case):
            ctx.violation(sig, text, case)
        cases.append(case)
        outs.append(" ".join(obs) or "-")
        lines.append("ctr.coap " + " ".join(tok(e) for e in evs))
    ctx.sample(cases[-9])
    compare_with_model(ctx, "coap", cases, outs, lines, driver, canon=canon_until_close)
    # ------------- CoAP events
    cases, outs, lines = [], [], []
    ealpha = [("g", 0), ("g", 1), ("g", 2), ("g", 3), ("x",)]
    for evs in list(gen_seqs(ctx, ealpha, depth)) + [[rng.choice(ealpha + [("g", rng.randrange(0, 10))]) for _ in range(rng.randrange(5, 40))] for _ in range(ctx.budget(100, 2000))]:
        obs = run_coap_events(evs)
        ctx.evaluations += 1
        case = {"stream": "coap-event", "events": [tok(e) for e in evs]}
        ctx.nontrivial.add(("coap-event", tuple(case["events"])))
        for sig, text in analyse(ctx, "coap-event", evs, obs, case):
            ctx.violation(sig, text, case)
        cases.append(case)
        outs.append(" ".join(obs) or "-")
        lines.append("ctr.event " + " ".join(tok(e) for e in evs))
    compare_with_model(ctx, "coap-event", cases, outs, lines, driver)
    loop.close()


def canon_until_close(s):
    """after the session is closed the real code issues nothing more (new session = new keys); the model's machine keeps
    consuming the (now ineffective) events: compare up to and including the close"""
    t = s.split(" ")
    if "c" in t:
        t = t[:t.index("c") + 1]
    return " ".join(t)


def replay(ctx, driver, c):
    loop = simnet.VLoop()
    asyncio.set_event_loop(loop)
    try:
        evs = [(e[0], int(e[1:])) if len(e) > 1 else (e,) for e in c["events"]]
        fn = {"ip": run_ip, "ble": run_ble, "coap": run_coap}.get(c["stream"])
        obs = fn(loop, evs) if fn else run_coap_events(evs)
        v = analyse(ctx, c["stream"], evs, obs, c)
        return v[0][1] if v else None
    finally:
        loop.close()
