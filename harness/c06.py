"""C06 - no nonce is reused and no encrypted message is accepted twice or out of order."""
from __future__ import annotations

import asyncio
import itertools
import json
import struct
import types
from unittest import mock

from cryptography.exceptions import InvalidTag
from cryptography.hazmat.primitives.ciphers.aead import ChaCha20Poly1305

from harness import refacc, simnet
from harness.acc import Accessory
from harness.common import Ctx, Driver, compare_with_model, hx, load_corpus
from harness.rcsim import settle

import aiohomekit.controller.ble.pairing as blep
import aiohomekit.controller.coap.connection as coapc
import aiohomekit.controller.ip.connection as ipc
from aiohomekit.characteristic_cache import CharacteristicCacheMemory
from aiohomekit.controller.coap.structs import Pdu09Database
from aiohomekit.controller.ip.pairing import IpPairing
from aiohomekit.exceptions import AccessoryDisconnectedError
from aiohomekit.pdu import OpCode

ID = "C06"
RULE = ("per transport, EXHAUSTIVE event sequences to depth 5 (quick) / 6 (thorough) over {send n, deliver genuine next, replay of an earlier genuine message, a message with a future counter, "
        "a corrupted message, cancel/timeout} + random sequences to length 40; real ChaCha20-Poly1305 under one key, the harness plays the accessory and records every (nonce) the "
        "controller seals with and every ciphertext that yields plaintext; BLE additionally over histories of 2..5 sessions (full pair-verify, honoured / ignored pair-resume, traffic, a failing last exchange, "
        "responses recorded in the previous session) with real key agreement against a reference accessory; "
        "IP whole sessions end to end (stream ip-session: real IpPairing + pair-verify + HTTP layer + listeners; the accessory seals events and responses of one or several blocks, the network delivers the next frame, "
        "replays, future frames - also the same one repeatedly -, bit-flipped and junk blocks, half frames, frames of the previous session, cancels, time-outs and reconnects, and KEEPS delivering after a failed block for as long as "
        "the library keeps the session; exhaustive fault sequences to depth 3 (quick) / 4 + random histories; accepted blocks and the messages reaching listeners/callers must be a prefix of the accessory's own log); "
        "BLE responses of 1..3 fragments with every GATT read answered by the radio (stream ble-reads: next / replay / future / corrupted / cancelled, continuing after a failure); "
        "CoAP events also through EventResource.render_put up to the owner's event_received (stream coap-event-resource); "
        "CoAP whole sessions through the real CoAPPairing / CoAPHomeKitConnection (stream coap-session: real pair-verify against the reference accessory, database fetch, only aiocoap's Context replaced; "
        "histories over {get / put / subscribe / unsubscribe / list accessories / populate / list_pairings / remove_pairing / identify, events of one or two records, replays of every recorded event and response datagram of this and "
        "the previous session, corrupted / 4.04 / lost responses, lost requests, time-outs, cancellations, zeroconf re-discovery at the same / a new address / a new port / gone / new configuration number, reconnect_soon, connect, "
        "do_pair_verify on the live connection, close; event datagrams rendered CONCURRENTLY, one task per datagram started in arrival order as aiocoap does, while answers take time / are kept by the network until later events have arrived, "
        "events naming characteristics the controller's copy of the database knows and ones the accessory gained since, database refreshes / reads / writes / pair-verify in flight while events arrive, the same datagram handed over twice at once}; "
        "every session-level operation and every pair of them in the middle of a session, then replays + random histories; observed on the wire by trial decryption under the accessory's "
        "keys, at the cipher, and at the listeners: per key no nonce twice, responses / events authenticated at most once and in the accessory's order - a new pair-verify legitimately restarts); "
        "IP pairing-level operations in the middle of a session (ip-session tokens s u L g n Z z: subscribe / unsubscribe / database / read / ensure_connection / zeroconf updates, each and each pair followed by a replay of every earlier frame); "
        "BLE multi-session histories with the link lost (disconnected callback) or the pairing closed between exchanges; "
        "IP, the two byte streams of a session under EVERY segmentation (stream ip-reads: real HomeKitConnection get / put / post + SecureHomeKitProtocol + HTTP layer up to the owner, only the transport replaced; the accessory's stream = "
        "authentic blocks of 0 / 1 / n / 1024 bytes holding parts of, one or several messages, replays of the latest / an earlier block, blocks after lost ones (future counter), blocks of the previous session, blocks with a bit flipped in the "
        "length / ciphertext / tag, unsealed blocks also of length 0; cut into reads holding k complete blocks plus 1 byte / the length / part of the ciphertext / part of the tag of the next item, for every item, every k and every such "
        "position, the whole stream in reads of n bytes, random cuts; requests of every size around the 1024-byte block boundaries, answered, unanswered, overlapping, cancelled, timed out; oracle on the harness's own record of what the "
        "accessory sealed under which counter: the j-th block that authenticates is the j-th sealed, what reaches owner and callers is a duplicate-free prefix of what was sent, no (key, nonce) sealed twice and - by trial decryption under the "
        "accessory's key - no counter on two blocks on the wire); whole IpPairing sessions on a network that coalesces frames and frame heads into single reads (ip-session tokens ( and )). non-trivial = distinct event sequence")
TRUSTED = ["cryptography ChaCha20Poly1305 as the accessory's cipher", "asyncio closes the transport when data_received raises (mimicked by the in-memory transport)"]
ASSUMPTIONS = ["distinct pair-verify / pair-resume runs give distinct keys (HKDF of a fresh shared secret): on BLE this is observed, not assumed - the multi-session stream numbers key sets by their key bytes; "
               "on IP and CoAP every connection runs a full pair-verify (C01 checks its keys against the accessory's)",
               "symbolic AEAD in the model: a ciphertext opens under exactly the counter it was sealed with"]
EXPLANATION = "Lean theorems C06_* over counter automata (IP/BLE: all histories, also across sessions; CoAP: events all histories, responses partial + two counterexample theorems = known findings); differential tie on the real cipher wrappers"

KEY_A2C = bytes(range(32))
KEY_C2A = bytes(range(32, 64))
KEY_EV = bytes(range(64, 96))


def n_ip(c):
    return struct.pack("<LQ", 0, c)


def n_coap(c):
    return struct.pack("=4xQ", c)


class _IpOwner:
    """stands in for the IpPairing that owns a bare HomeKitConnection"""
    name = "c06"
    description = None

    def __init__(self):
        self.events = []

    async def connection_made(self, secure):
        return None

    def event_received(self, parsed):
        self.events.append(parsed)


# ---------------------------------------------------------------- IP
def run_ip(loop, evs):
    """evs: list of ('s', n) | ('g', j) | ('x',) | ('a',) ; returns obs tokens"""
    obs = []
    net = simnet.Net(loop)
    run_ip.net = net

    class Conn(ipc.HomeKitConnection):
        """the real connection object (every attribute the protocol may look at is there: name, owner, hosts, ...);
        only the reaction to a lost transport is cut off - this stream has no network to reconnect to"""

        def _connection_lost(self, exc):
            pass

        def event_received(self, ev):
            pass

    async def main():
        conn = Conn(_IpOwner(), ["10.0.0.1"], 80)
        p = ipc.SecureHomeKitProtocol(conn, KEY_A2C, KEY_C2A)
        t = simnet.FakeTransport(net, "10.0.0.1", p, loop)
        conn.transport, conn.protocol, conn.connected_host, conn.host_header, conn.is_secure = t, p, "10.0.0.1", "Host: 10.0.0.1", True
        p.connection_made(t)
        orig_enc = p.encryptor.encrypt

        def enc(aad, nonce, pt):
            obs.append("s%d" % struct.unpack("<LQ", nonce)[1])
            return orig_enc(aad, nonce, pt)
        p.encryptor.encrypt = enc
        orig_dec = p.decryptor.decrypt

        def dec(aad, nonce, ct):
            pt = orig_dec(aad, nonce, ct)
            # an incoming block authenticated under this counter: that is an acceptance, whatever it contains
            obs.append("a%d" % struct.unpack("<LQ", nonce)[1])
            return pt
        p.decryptor.decrypt = dec
        sink = []
        pending = []
        with mock.patch.object(ipc.InsecureHomeKitProtocol, "data_received", lambda self, data: sink.append(bytes(data))):
            for ev in evs:
                was_closed = t.closing
                if ev[0] == "s":
                    payload = b"p" * (1024 * (ev[1] - 1) + 1) if ev[1] > 0 else b""
                    task = asyncio.ensure_future(p.send_bytes(payload))
                    pending.append(task)
                    await asyncio.sleep(0)
                elif ev[0] in ("g", "x"):
                    if ev[0] == "g":
                        j = ev[1]
                        body = b"m%d" % j if j % 2 == 0 else b""  # every other block the accessory sends is empty (a flushed empty body)
                        lb = struct.pack("<H", len(body))
                        frame = lb + ChaCha20Poly1305(KEY_A2C).encrypt(n_ip(j), body, lb)
                    else:
                        lb = struct.pack("<H", 3)
                        frame = lb + bytes(3 + 16)
                    t.feed(frame)
                    await asyncio.sleep(0)
                elif ev[0] == "a":
                    live = [x for x in pending if not x.done()]
                    if live:
                        live[-1].cancel()
                        await asyncio.sleep(0)
                        await asyncio.sleep(0)
                    else:
                        t.close()
                await asyncio.sleep(0)
                if t.closing and not was_closed:
                    obs.append("c")
        for x in pending:
            x.cancel()
        await asyncio.gather(*pending, return_exceptions=True)
    loop.run_until_complete(main())
    return obs


# ---------------------------------------------------------------- IP, whole sessions end to end
def _http_msg(kind, mid, pad, extra=None):
    """one HTTP message of the accessory: an EVENT or the response to a request; `mid` is its serial number in the
    accessory's log, `pad` bytes of an extra header make it span several encrypted blocks"""
    if kind == "e":
        body = json.dumps({"characteristics": [{"aid": 1, "iid": 9, "value": mid}]}).encode()
        first = b"EVENT/1.0 200 OK"
    else:
        body = json.dumps(dict({"m": mid, "characteristics": []}, **(extra or {}))).encode()
        first = b"HTTP/1.1 200 OK"
    return (first + b"\r\nContent-Type: application/hap+json" + (b"\r\nX-Pad: " + b"p" * pad if pad else b"")
            + b"\r\nContent-Length: %d\r\n\r\n" % len(body) + body)


def run_ip_session(loop, evs, seed=0):
    """A real IpPairing / SecureHomeKitConnection (real pair-verify against the scaffold accessory, real secure framing,
    real HTTP layer, real listeners) on the in-memory network.  The accessory seals its messages (events, and the
    response to every request it receives) into frames in its own order; the NETWORK decides what reaches the controller.
    Tokens: q/Q a caller issues a request through get_json / put_json / post_json (small / multi-block response) ;
    e/E the accessory emits an event (one block / several blocks) ; d<k> deliver frame number next+k of the current
    session (k=0 the genuine next frame, k<0 a replay, k>0 a future frame) ; D deliver every frame from `next` on in one
    segment ; m<k> a copy of frame next+k with one bit flipped ; j a block nobody sealed ; h<k> only the head of frame
    next+k ; r the rest of that frame ; o<i> frame i of the PREVIOUS session ; c the caller of the request in flight is
    cancelled ; T 31 s pass ; R the network lets the controller reconnect (new session, new keys) ;
    pairing-level operations in the middle of a session: s / u IpPairing.subscribe / unsubscribe ; L
    list_accessories_and_characteristics ; g get_characteristics ; Z zeroconf reports the accessory again (same address:
    _async_description_update -> reconnect_soon on the live connection) ; z reports it at a new address ; n
    connection.ensure_connection() on the live connection ; ( the network starts holding back what it is given to
    deliver ; ) everything held back arrives as ONE read (complete frames followed by the head of another, ...).
    `next` is harness bookkeeping only (how many frames were delivered in order so far) - the oracle does not use it.
    Everything keeps being delivered after a failure: whether anything is still accepted is up to the library.
    Returns the record the oracle works on."""
    import random as _r
    rnd = _r.Random(seed)
    net = simnet.Net(loop)
    rec = {"sessions": [], "aead": [], "nonces": [], "http": [], "abandoned": set(), "opaque": set(), "stats": {}, "crash": None}
    by_ct = {}     # block+tag as sealed by the accessory -> (session number, frame number)
    keyof = {}     # a2c key bytes -> session number
    state = {"next": 0, "partial": None}

    class SpyEnc(ipc.ChaCha20Poly1305Encryptor):
        def __init__(self, key):
            super().__init__(key)
            self._c06_key = bytes(key)

        def encrypt(self, aad, nonce, plaintext):
            rec["nonces"].append((self._c06_key, bytes(nonce)))
            return super().encrypt(aad, nonce, plaintext)

    class SpyDec(ipc.ChaCha20Poly1305Decryptor):
        def __init__(self, key):
            super().__init__(key)
            self._c06_key = bytes(key)

        def decrypt(self, aad, nonce, ciphertext):
            pt = super().decrypt(aad, nonce, ciphertext)
            # the block authenticated: the controller accepted it, whatever happens to the plaintext afterwards
            rec["aead"].append((self._c06_key, bytes(ciphertext)))
            return pt

    async def main():
        acc = Accessory(loop, net, lambda n: bytes(rnd.randrange(256) for _ in range(n)))
        big = set()
        mid_counter = [0]

        def sess_of(s):
            """the accessory's log of one secure session"""
            for x in rec["sessions"]:
                if x["s"] is s:
                    return x
            x = {"s": s, "n": len(rec["sessions"]), "frames": [], "msgs": []}
            rec["sessions"].append(x)
            keyof[bytes(s.a2c)] = x["n"]
            state["next"], state["partial"] = 0, None
            return x

        def cur():
            secure = [s for s in acc.order if s.secure]
            return sess_of(secure[-1]) if secure else None

        def seal(s, kind, rid=None, pad=0, extra=None):
            x = sess_of(s)
            mid = mid_counter[0]
            mid_counter[0] += 1
            x["msgs"].append({"mid": mid, "kind": kind, "rid": rid})
            data = acc.frame(s, _http_msg(kind, mid, pad, extra))
            while data:
                n = struct.unpack("<H", data[:2])[0]
                fr, data = data[:2 + n + 16], data[2 + n + 16:]
                by_ct[fr[2:]] = (x["n"], len(x["frames"]))
                x["frames"].append(fr)

        def responder(s, method, target, body):
            tail = target.rsplit("/", 1)[1]
            if target.startswith("/r/") and tail.isdigit():
                rid = int(tail)
                seal(s, "r", rid, rnd.choice([1100, 2300]) if rid in big else 0)
            else:
                # a request of one of the pairing's own operations (subscribe, database, ..): its caller does not hand the
                # response on, so it is checked at the block level only
                rid = -1 - len(rec["opaque"])
                rec["opaque"].add(rid)
                seal(s, "r", rid, 0, {"accessories": []})
            return None  # sealed, not delivered: the network decides
        acc.responder = responder
        orig_on_write = net.handler

        def on_write(t, data):
            try:
                orig_on_write(t, data)
            except InvalidTag:
                # the accessory cannot authenticate what the controller sent under its next counter; it answers nothing
                rec["stats"]["accessory-rejected-request"] = rec["stats"].get("accessory-rejected-request", 0) + 1
        net.handler = on_write
        ctrl = mock.MagicMock()
        ctrl._char_cache = CharacteristicCacheMemory()
        tasks = {}

        def feed(data):
            if state.get("cork") is not None:
                state["cork"] += data  # the network holds it back: it will arrive together with what follows
                return
            x = cur()
            if x is None or x["s"].t.closing or x["s"].t.closed:
                return
            t = x["s"].t
            if len(data) > 3 and rnd.random() < 0.25:
                c = rnd.randrange(1, len(data))
                t.feed(data[:c])
                t.feed(data[c:])
            else:
                t.feed(data)

        with net.patched(), mock.patch.object(ipc, "ChaCha20Poly1305Encryptor", SpyEnc), mock.patch.object(ipc, "ChaCha20Poly1305Decryptor", SpyDec):
            p = IpPairing(ctrl, acc.pairing_data(["10.0.0.1"]))
            conn = p.connection

            def listener(ev):
                for key, val in ev.items():
                    x = cur()
                    rec["http"].append((x["n"] if x else -1, val.get("value") if isinstance(val, dict) else repr(val)))
            p.dispatcher_connect(listener)
            await conn.ensure_connection()
            await settle(loop)
            net.connect_outcomes = ["refused"] * 100000
            cur()
            nreq = nops = 0
            zc = {"n": 1}
            for ev in evs:
                k, arg = ev[0], (int(ev[1:]) if len(ev) > 1 else None)
                x = cur()
                frames = x["frames"] if x else []
                if k in "qQ":
                    rid = nreq
                    nreq += 1
                    if k == "Q":
                        big.add(rid)

                    async def caller(rid=rid):
                        try:
                            if rid % 3 == 0:
                                r = await conn.get_json(f"/r/{rid}")
                            elif rid % 3 == 1:
                                r = await conn.put_json(f"/r/{rid}", {"characteristics": [{"aid": 1, "iid": 9, "value": rid}]})
                            else:
                                r = await conn.post_json(f"/r/{rid}", {"rid": rid})
                        except asyncio.CancelledError:
                            rec["abandoned"].add(rid)
                            raise
                        except BaseException as e:  # noqa: BLE001
                            rec["abandoned"].add(rid)
                            nm = "disconnected" if isinstance(e, AccessoryDisconnectedError) else type(e).__name__
                            rec["stats"]["request-failed:" + nm] = rec["stats"].get("request-failed:" + nm, 0) + 1
                            return
                        y = cur()
                        rec["http"].append((y["n"] if y else -1, r.get("m") if isinstance(r, dict) else repr(r)))
                    tasks[rid] = asyncio.ensure_future(caller())
                elif k in "eE":
                    if x is not None:
                        seal(x["s"], "e", None, rnd.choice([1100, 2300]) if k == "E" else 0)
                elif k == "d":
                    i = state["next"] + arg
                    if 0 <= i < len(frames):
                        in_order = arg == 0 and state["partial"] is None
                        state["partial"] = None
                        feed(frames[i])
                        if in_order:
                            state["next"] += 1
                elif k == "D":
                    if state["next"] < len(frames):
                        clean = state["partial"] is None
                        state["partial"] = None
                        feed(b"".join(frames[state["next"]:]))
                        if clean:
                            state["next"] = len(frames)
                elif k == "m":
                    i = state["next"] + arg
                    if 0 <= i < len(frames):
                        b = bytearray(frames[i])
                        pos = rnd.choice([0, 1, 2, len(b) // 2, len(b) - 16, len(b) - 1, rnd.randrange(len(b))])
                        b[pos] ^= 1 << rnd.randrange(8)
                        state["partial"] = None
                        feed(bytes(b))
                elif k == "j":
                    n = rnd.choice([0, 1, 3, 40])
                    state["partial"] = None
                    feed(struct.pack("<H", n) + bytes(rnd.randrange(256) for _ in range(n + 16)))
                elif k == "h":
                    i = state["next"] + arg
                    if 0 <= i < len(frames):
                        c = rnd.choice([1, 2, 3, len(frames[i]) // 2, len(frames[i]) - 1])
                        state["partial"] = (i, frames[i][c:]) if state["partial"] is None else None
                        feed(frames[i][:c])
                elif k == "r":
                    if state["partial"] is not None:
                        i, rest = state["partial"]
                        state["partial"] = None
                        feed(rest)
                        if i == state["next"]:
                            state["next"] += 1
                elif k == "o":
                    if x is not None and x["n"] >= 1 and arg < len(rec["sessions"][x["n"] - 1]["frames"]):
                        state["partial"] = None
                        feed(rec["sessions"][x["n"] - 1]["frames"][arg])
                elif k == "(":
                    if state.get("cork") is None:
                        state["cork"] = bytearray()
                elif k == ")":
                    held, state["cork"] = state.get("cork"), None
                    if held:
                        rec["stats"]["coalesced reads"] = rec["stats"].get("coalesced reads", 0) + 1
                        feed(bytes(held))
                elif k == "c":
                    live = [tk for tk in tasks.values() if not tk.done()]
                    if live:
                        live[0].cancel()
                elif k == "T":
                    await asyncio.sleep(31)
                elif k == "R":
                    if not conn.is_connected:
                        net.connect_outcomes = ["ok"] + ["refused"] * 100000
                        conn.reconnect_soon()
                elif k in "suLgn":
                    nops += 1
                    fn = {"s": lambda: p.subscribe([(1, 9)]), "u": lambda: p.unsubscribe([(1, 9)]), "L": p.list_accessories_and_characteristics,
                          "g": lambda: p.get_characteristics([(1, 9)]), "n": conn.ensure_connection}[k]

                    async def op(fn=fn):
                        try:
                            await fn()
                        except asyncio.CancelledError:
                            raise
                        except BaseException as e:  # noqa: BLE001
                            nm = "disconnected" if isinstance(e, AccessoryDisconnectedError) else type(e).__name__
                            rec["stats"]["operation-failed:" + nm] = rec["stats"].get("operation-failed:" + nm, 0) + 1
                    tasks[-nops] = asyncio.ensure_future(op())
                elif k in "Zz":
                    from aiohomekit.model import Categories
                    from aiohomekit.model.feature_flags import FeatureFlags
                    from aiohomekit.model.status_flags import StatusFlags
                    from aiohomekit.zeroconf import HomeKitService
                    if k == "z":
                        zc["n"] += 1
                    addr = "10.0.0.%d" % zc["n"]
                    rec["stats"]["zeroconf-update"] = rec["stats"].get("zeroconf-update", 0) + 1
                    p._async_description_update(HomeKitService(
                        name="acc", id=p.id, model="m", feature_flags=FeatureFlags(0), status_flags=StatusFlags(0), config_num=0, state_num=zc["n"],
                        category=Categories(5), protocol_version="1.1", type="_hap._tcp.local.", address=addr, addresses=[addr], port=80))
                else:
                    raise ValueError(ev)
                await settle(loop)
                cur()
            for tk in tasks.values():
                tk.cancel()
            await asyncio.gather(*tasks.values(), return_exceptions=True)
            await p.close()
            await settle(loop)
    try:
        loop.run_until_complete(main())
    except Exception as e:  # noqa: BLE001
        # the library raised where the scenario does not expect it (set-up, close): keep what was observed, say so
        rec["crash"] = f"{type(e).__name__}: {str(e)[:120]}"
    rec["raised"] = list(net.data_received_raised)
    return rec


def oracle_ip_session(rec):
    """the property, stated on the accessory's own log: per session key the blocks that authenticated are exactly the
    frames 0,1,2,.. the accessory sealed under that key, each once, in order, with no gap (a prefix); what reached
    listeners and callers is a prefix of the accessory's messages of that session (responses to requests whose caller
    had given up left aside); no (key, nonce) pair is sealed twice"""
    out = []
    if rec["crash"]:
        out.append(("ip-session/unexpected-exception", f"the library raised outside any request while the session was set up, used or closed: {rec['crash']}"))
    keyof = {bytes(x["s"].a2c): x["n"] for x in rec["sessions"]}
    by_ct = {fr[2:]: (x["n"], i) for x in rec["sessions"] for i, fr in enumerate(x["frames"])}
    expect = {}
    trace = []
    for key, ct in rec["aead"]:
        n = keyof.get(key)
        if n is None:
            continue  # not a key of any session the accessory agreed to (the keys themselves are C01's subject)
        src = by_ct.get(ct)
        trace.append("s%d:%s" % (n, "?" if src is None else ("f%d" % src[1] if src[0] == n else "s%d.f%d" % src)))
        if src is None:
            out.append(("ip-session/accepts-unsealed-block", f"session {n}: a block the accessory never sealed authenticated; accepted so far {trace}"))
            break
        if src[0] != n:
            out.append(("ip-session/accepts-earlier-session", f"session {n}: frame {src[1]} of session {src[0]} authenticated; accepted so far {trace}"))
            break
        if src[1] != expect.get(n, 0):
            out.append(("ip-session/accept-twice-or-out-of-order",
                        f"session {n}: the accessory sealed frames 0..{len(rec['sessions'][n]['frames']) - 1}; the controller accepted {trace} - frame {src[1]} was accepted when only frame {expect.get(n, 0)} could be next"))
            break
        expect[n] = src[1] + 1
    if len(set(rec["nonces"])) != len(rec["nonces"]):
        dup = next(x for x in rec["nonces"] if rec["nonces"].count(x) > 1)
        out.append(("ip-session/nonce-reuse", f"the controller sealed two blocks with nonce counter {struct.unpack('<LQ', dup[1])[1]} under one key; counters in order: {[struct.unpack('<LQ', n)[1] for k, n in rec['nonces'] if k == dup[0]]}"))
    for x in rec["sessions"]:
        want = [m["mid"] for m in x["msgs"] if not (m["kind"] == "r" and (m["rid"] in rec["abandoned"] or m["rid"] in rec.get("opaque", ())))]
        got = [mid for n, mid in rec["http"] if n == x["n"]]
        ev_got = [mid for mid in got if any(m["mid"] == mid and m["kind"] == "e" for m in x["msgs"])]
        if len(set(map(repr, got))) != len(got) or set(map(repr, got)) != set(map(repr, want[:len(got)])) or ev_got != sorted(ev_got):
            out.append(("ip-session/message-accepted-twice-or-out-of-order",
                        f"session {x['n']}: the accessory sent messages {[(m['kind'] + str(m['mid'])) for m in x['msgs']]} (responses to abandoned requests: {sorted(m['mid'] for m in x['msgs'] if m['kind'] == 'r' and m['rid'] in rec['abandoned'])}); "
                        f"listeners and callers received {got} - not a prefix of what was sent, each once, in order"))
            break
    return out


def account_ip_session(ctx, rec):
    d = ctx.dist
    d["ip-session:sessions"] += len(rec["sessions"])
    d["ip-session:frames sealed by the accessory"] += sum(len(x["frames"]) for x in rec["sessions"])
    d["ip-session:blocks accepted"] += len(rec["aead"])
    d["ip-session:messages that reached listeners/callers"] += len(rec["http"])
    d["ip-session:blocks sealed by the controller"] += len(rec["nonces"])
    d["ip-session:histories with more than one session"] += len(rec["sessions"]) > 1
    for nm in rec["raised"]:
        d["ip-session:data_received raised " + nm] += 1
    for k, v in rec["stats"].items():
        d["ip-session:" + k] += v


def gen_ip_session(rng):
    """a random history: mostly genuine traffic, with faults after which delivery goes on"""
    weighted = (["e"] * 4 + ["E"] + ["q"] * 3 + ["Q"] + ["d0"] * 9 + ["D"] * 2 + ["d1"] * 3 + ["d2"] + ["d-1"] * 2 + ["d-2"] + ["m0", "m1", "m-1", "j", "h0", "h1", "r", "r"]
                + ["c", "T", "R", "R", "o0", "o1", "o2"])
    evs = [rng.choice(["e", "e", "q"]) for _ in range(rng.randrange(1, 4))]
    for _ in range(rng.randrange(4, 28)):
        t = rng.choice(weighted)
        evs.append(t)
        if t in ("d1", "d2", "m0", "m1", "j") and rng.random() < 0.6:
            # the shapes a lost / corrupted frame takes on the wire: the same future frame again, or the frames after it
            evs.extend(rng.choice([[t], ["d1"], ["d1", "d1"], ["d2", "d2", "d2"], ["d1", "d2"], ["D"], ["d0"], [t, "d0", "d1"]]))
    return evs


IP_SESSION_OPS = ["Z", "z", "n", "s", "u", "L", "g"]


def ip_session_op_histories():
    """every pairing-level operation (and every pair) in the middle of an IP session that has exchanged events and
    requests, followed by one probe: a replay of each earlier frame, or more genuine traffic and then a replay"""
    pre = ["s", "d0", "e", "d0", "q", "d0"]
    out = []
    for d in (1, 2):
        for ops in itertools.product(IP_SESSION_OPS, repeat=d):
            mid = sum(([o] + (["d0", "d0"] if o in "Lg" else ["d0"] if o in "su" else []) for o in ops), [])
            probes = [["d-1"], ["d-2"], ["d-3"], ["d-4"], ["e", "d0", "q", "d0", "d-1"]] if d == 1 else [["d-%d" % (3 + len(mid) - d)], ["q", "d0", "e", "d0", "d-2"]]
            out.extend(pre + mid + pr for pr in probes)
    return out


def gen_ip_session_ops(rng):
    """random IP histories with pairing-level operations between the frames"""
    weighted = ["e"] * 4 + ["q"] * 2 + ["d0"] * 12 + ["D"] * 2 + IP_SESSION_OPS * 2 + ["Z", "z", "d-1", "d-2", "d-3", "d1", "m0", "R", "T", "c"]
    evs = ["s", "d0"] if rng.random() < 0.5 else []
    for _ in range(rng.randrange(5, 26)):
        t = rng.choice(weighted)
        evs.append(t)
        if t in "suLgq" and rng.random() < 0.8:
            evs.append(rng.choice(["d0", "d0", "D"]))
        elif t in "Zzn" and rng.random() < 0.6:
            evs.extend(rng.choice([["d-1"], ["d-2"], ["d-3"], ["e", "d0"], ["q", "d0"], ["q", "d0", "d-1"], ["e", "d0", "d-2"]]))
    return evs


def ip_session_corked_histories():
    """the network coalesces what it delivers: everything between `(` and `)` reaches the controller as ONE read -
    complete frames followed by the head of another one (the next genuine frame, a replay of the one just delivered or
    of an earlier one, a future frame), the rest of that frame in the next read, then more genuine traffic"""
    pre = ["e", "d0", "q", "e", "E", "e"]
    inner = ["d0", "d1", "d-1", "m0", "j"]
    heads = ["h0", "h-1", "h-2", "h1"]
    out = []
    for d in (0, 1, 2):
        for c in itertools.product(inner, repeat=d):
            for h in heads:
                for tail in (["r", "d0", "d0"], ["r", "D"]):
                    out.append(pre + ["("] + list(c) + [h, ")"] + tail)
    return out


def gen_ip_session_corked(rng):
    """random IP histories in which the network coalesces stretches of what it delivers into single reads"""
    weighted = (["e"] * 4 + ["E"] + ["q"] * 3 + ["Q"] + ["d0"] * 10 + ["D"] + ["d1"] * 2 + ["d-1"] * 3 + ["d-2"] * 2 + ["d-3"] + ["m0", "m-1", "j"]
                + ["h0"] * 3 + ["h-1"] * 3 + ["h-2", "h1"] + ["r"] * 4 + ["c", "T", "R", "o0", "o1", "s", "g", "Z"])
    evs = [rng.choice(["e", "e", "q", "E"]) for _ in range(rng.randrange(1, 5))]
    corked = False
    for _ in range(rng.randrange(6, 30)):
        if rng.random() < 0.22:
            evs.append(")" if corked else "(")
            corked = not corked
        t = rng.choice(weighted)
        evs.append(t)
        if t[0] == "h" and corked and rng.random() < 0.7:
            evs.extend([")", "r"])
            corked = False
    if corked:
        evs.append(")")
    return evs + rng.choice([[], ["r"], ["d0"], ["r", "d0", "D"]])


# ---------------------------------------------------------------- IP, the accessory's byte stream under every segmentation into reads
KEY_OLD = bytes(range(96, 128))  # the accessory-to-controller key of the PREVIOUS session


class _ReadsSpyEnc(ipc.ChaCha20Poly1305Encryptor):
    """same cipher; every (key, nonce) the controller seals with is recorded"""
    sink = None

    def __init__(self, key):
        super().__init__(key)
        self._c06_key = bytes(key)

    def encrypt(self, aad, nonce, plaintext):
        if _ReadsSpyEnc.sink is not None:
            _ReadsSpyEnc.sink.append((self._c06_key, bytes(nonce)))
        return super().encrypt(aad, nonce, plaintext)


class _ReadsSpyDec(ipc.ChaCha20Poly1305Decryptor):
    """same cipher; every ciphertext that authenticates is recorded (that is an acceptance, whatever it contains)"""
    sink = None

    def decrypt(self, aad, nonce, ciphertext):
        pt = super().decrypt(aad, nonce, ciphertext)
        if _ReadsSpyDec.sink is not None:
            _ReadsSpyDec.sink.append(bytes(ciphertext))
        return pt


class _ReadsOwner:
    """stands in for the IpPairing that owns the connection: records the events the connection hands over"""
    name = "c06-reads"
    description = None

    def __init__(self, got):
        self.got = got

    async def connection_made(self, secure):
        return None

    def event_received(self, parsed):
        try:
            for ch in parsed["characteristics"]:
                self.got.append(("e", ch.get("value")))
        except Exception:  # noqa: BLE001
            self.got.append(("e", repr(parsed)[:60]))


class _ReadsConn(ipc.HomeKitConnection):
    """the real connection object with the real reaction to a lost transport; only the connector is cut off - this
    stream has one TCP connection and no network to reconnect to"""

    def _start_connector(self):
        pass


async def _ip_reads_one(loop, evs, seed=0):
    """One secure IP session seen as two byte streams.  The real HomeKitConnection (public entry points get / put /
    post), the real SecureHomeKitProtocol and the real HTTP layer up to the owner's event_received; only the TCP
    transport is replaced.  The harness is the accessory AND the network.
    accessory   e / E it produces an EVENT message (small / spanning several blocks) into its outgoing plaintext ;
                g it seals the next <= 1024 bytes of its outgoing plaintext (an event is produced when there is none)
                under its next counter and hands the block to the network ; g<n> the same with exactly n bytes (g0: a
                zero-length block) ; a request that arrives is answered by a response message in the outgoing plaintext
    network     (every item is appended to the bytes in flight towards the controller)
                p<k> a copy of the block sealed k blocks before the latest one (p0: the latest again) ; f<k> the
                accessory seals k+1 blocks, the first k are lost (the controller sees a future counter) ; o<k> block k of
                the previous session (other key) ; m<w> the next block with one bit flipped (w: 0/1 in the length, 2 first
                / 3 middle byte of the ciphertext, 4 first / 5 last byte of the tag) ; x<n> a block of length n nobody sealed
                /  everything in flight arrives as ONE read ; /<n> one read that ends n bytes into the most recent item
                (n < 0: that many bytes before its end) - the bytes before it that are still in flight come with it ;
                %<n> everything in flight arrives in reads of n bytes
    callers     q<n> / Q<n> a request with a body of n bytes through put / post (get when n = 0) ; Q: the response spans
                several blocks ; c the oldest caller still waiting is cancelled ; C the newest one ; T 31 s pass
    Whatever is still in flight at the end arrives as one read.  Returns the record the oracle works on: the blocks the
    accessory sealed in its order, the ciphertexts that authenticated at the controller, what reached the owner and the
    callers, every (key, nonce) the controller sealed with and - by trial decryption under the accessory's key - the
    counter of every block the controller put on the wire."""
    import random as _r
    from collections import Counter
    rnd = _r.Random(seed)
    net = simnet.Net(loop)
    rec = {"auth": [], "old": {}, "aead": [], "nonces": [], "wire": [], "got": [], "msgs": [], "abandoned": set(), "reads": [], "items": [],
           "stats": Counter(), "crash": None, "raised": []}
    stats = rec["stats"]
    _ReadsSpyEnc.sink, _ReadsSpyDec.sink = rec["nonces"], rec["aead"]
    conn = _ReadsConn(_ReadsOwner(rec["got"]), ["10.0.0.1"], 80)
    p = ipc.SecureHomeKitProtocol(conn, KEY_A2C, KEY_C2A)
    t = simnet.FakeTransport(net, "10.0.0.1", p, loop)
    conn.transport, conn.protocol, conn.connected_host, conn.host_header, conn.is_secure = t, p, "10.0.0.1", "Host: 10.0.0.1", True
    p.connection_made(t)
    # ---- the accessory
    acc = {"out": bytearray(), "serial": 0, "rx": 0, "hi": 0, "dead": False, "buf": bytearray(), "big": set()}

    def produce(kind, rid=None, pad=0):
        mid = acc["serial"]
        acc["serial"] += 1
        rec["msgs"].append({"mid": mid, "kind": kind, "rid": rid})
        acc["out"] += _http_msg(kind, mid, pad)

    def seal(n=None):
        out = acc["out"]
        if n is None:
            if not out:
                produce("e")
            n = min(len(out), 1024)
        while len(out) < n:
            produce("e")
        chunk = bytes(out[:n])
        del out[:n]
        lb = struct.pack("<H", n)
        blk = lb + ChaCha20Poly1305(KEY_A2C).encrypt(n_ip(len(rec["auth"])), chunk, lb)
        rec["auth"].append(blk)
        return blk

    def on_write(tr, data):
        """what the controller writes: per block, which counter was it sealed with?  (trial decryption under the
        accessory's key, independent of the controller's own counters); the accessory itself is strict"""
        buf = acc["buf"]
        buf += data
        plain = b""
        while len(buf) >= 2:
            n = struct.unpack("<H", buf[:2])[0]
            if len(buf) < 2 + n + 16:
                break
            lb, body = bytes(buf[:2]), bytes(buf[2:2 + n + 16])
            del buf[:2 + n + 16]
            found = pt = None
            for c in [acc["rx"]] + [c for c in range(acc["hi"] + 12) if c != acc["rx"]]:
                try:
                    pt = ChaCha20Poly1305(KEY_C2A).decrypt(n_ip(c), body, lb)
                    found = c
                    break
                except InvalidTag:
                    continue
            rec["wire"].append((found, n))
            if found is not None:
                acc["hi"] = max(acc["hi"], found + 1)
            if found == acc["rx"] and not acc["dead"]:
                acc["rx"] += 1
                plain += pt
            else:
                acc["dead"] = True  # the accessory closes its end of a session whose counters are out of step: no answer
                stats["accessory refused a request block"] += 1
        if plain and not acc["dead"]:
            first = plain.split(b"\r\n", 1)[0].split(b" ")
            tail = first[1].rsplit(b"/", 1)[-1] if len(first) > 1 else b""
            rid = int(tail) if tail.isdigit() else None
            produce("r", rid, rnd.choice([1100, 2300]) if rid in acc["big"] else 0)
    net.handler = on_write
    # ---- the network towards the controller
    fl = {"buf": bytearray(), "start": 0, "len": 0}

    def put(item, what):
        fl["start"], fl["len"] = len(fl["buf"]), len(item)
        fl["buf"] += item
        rec["items"].append((what, len(item)))

    def deliver(upto=None):
        buf = fl["buf"]
        upto = len(buf) if upto is None else max(0, min(len(buf), upto))
        data = bytes(buf[:upto])
        del buf[:upto]
        fl["start"] -= upto
        if data:
            rec["reads"].append(len(data))
            t.feed(data)
    tasks = []
    nreq = 0
    try:
        for ev in evs:
            k, arg = ev[0], (int(ev[1:]) if len(ev) > 1 else None)
            if k == "e":
                produce("e")
            elif k == "E":
                produce("e", None, rnd.choice([1100, 2300]))
            elif k == "g":
                put(seal(arg), "g%d" % (len(rec["auth"]) - 1))
            elif k == "p":
                i = len(rec["auth"]) - 1 - (arg or 0)
                if 0 <= i < len(rec["auth"]):
                    put(rec["auth"][i], "replay of g%d" % i)
            elif k == "f":
                for _ in range(arg or 1):
                    seal()
                put(seal(), "g%d (g%d..g%d lost)" % (len(rec["auth"]) - 1, len(rec["auth"]) - 1 - (arg or 1), len(rec["auth"]) - 2))
            elif k == "o":
                body = _http_msg("e", 900000 + (arg or 0), 0)
                lb = struct.pack("<H", len(body))
                blk = lb + ChaCha20Poly1305(KEY_OLD).encrypt(n_ip(arg or 0), body, lb)
                rec["old"][blk[2:]] = arg or 0
                put(blk, "block %d of the previous session" % (arg or 0))
            elif k == "m":
                b = bytearray(seal())
                pos = [0, 1, 2, len(b) // 2, len(b) - 16, len(b) - 1][(arg or 0) % 6]
                b[pos] ^= 1 << rnd.randrange(8)
                put(bytes(b), "g%d with a bit of byte %d flipped" % (len(rec["auth"]) - 1, pos))
            elif k == "x":
                n = arg or 0
                put(struct.pack("<H", n) + bytes(rnd.randrange(256) for _ in range(n + 16)), "unsealed block of length %d" % n)
            elif k == "/":
                deliver(None if arg is None else fl["start"] + (arg if arg >= 0 else fl["len"] + arg))
            elif k == "%":
                while fl["buf"]:
                    deliver(max(1, arg or 1))
                    await asyncio.sleep(0)
            elif k in "qQ":
                rid = nreq
                nreq += 1
                if k == "Q":
                    acc["big"].add(rid)
                body = bytes(0x61 + (i + rid) % 26 for i in range(arg or 0))

                async def caller(rid=rid, body=body):
                    try:
                        if not body:
                            r = await conn.get(f"/r/{rid}")
                        elif rid % 2:
                            r = await conn.put(f"/r/{rid}", body)
                        else:
                            r = await conn.post(f"/r/{rid}", body)
                    except asyncio.CancelledError:
                        rec["abandoned"].add(rid)
                        raise
                    except BaseException as e:  # noqa: BLE001
                        rec["abandoned"].add(rid)
                        nm = "disconnected" if isinstance(e, AccessoryDisconnectedError) else type(e).__name__
                        stats["request failed: " + nm] += 1
                        return
                    try:
                        rec["got"].append(("r", json.loads(bytes(r.body)).get("m")))
                    except Exception:  # noqa: BLE001
                        rec["got"].append(("r", repr(bytes(r.body))[:60]))
                tasks.append(asyncio.ensure_future(caller()))
            elif k in "cC":
                live = [tk for tk in tasks if not tk.done()]
                if live:
                    (live[0] if k == "c" else live[-1]).cancel()
            elif k == "T":
                await asyncio.sleep(31)
            else:
                raise ValueError(ev)
            if k in "/%qQcCT":
                await settle(loop)
        deliver()
        await settle(loop)
        for tk in tasks:
            tk.cancel()
        await asyncio.gather(*tasks, return_exceptions=True)
        t.close()
        await settle(loop)
    except ValueError:
        raise
    except Exception as e:  # noqa: BLE001
        rec["crash"] = f"{type(e).__name__}: {str(e)[:120]}"
        for tk in tasks:
            tk.cancel()
        await asyncio.gather(*tasks, return_exceptions=True)
    finally:
        _ReadsSpyEnc.sink = _ReadsSpyDec.sink = None
    rec["raised"] = list(net.data_received_raised)
    return rec


def run_ip_reads(loop, evs, seed=0):
    async def main():
        with mock.patch.object(ipc, "ChaCha20Poly1305Encryptor", _ReadsSpyEnc), mock.patch.object(ipc, "ChaCha20Poly1305Decryptor", _ReadsSpyDec):
            return await _ip_reads_one(loop, evs, seed)
    return loop.run_until_complete(main())


def oracle_ip_reads(rec):
    """the property on the harness's own record of what the accessory sealed under which counter.  Accessory to
    controller: the j-th block that authenticates is the j-th block the accessory sealed (each once, in its order, no
    gap), whatever the cut of the byte stream into reads; nothing of another session and nothing unsealed authenticates;
    what reaches the owner and the callers is, message for message, a duplicate-free prefix of what the accessory sent.
    Controller to accessory: no (key, nonce) sealed twice, no counter on two blocks put on the wire."""
    out = []
    if rec["crash"]:
        out.append(("ip-reads/unexpected-exception", f"the library raised outside any request or read: {rec['crash']}"))
    by_ct = {blk[2:]: i for i, blk in enumerate(rec["auth"])}
    layout = f"items on the wire {[w for w, _ in rec['items']]} (bytes {[n for _, n in rec['items']]}), reads of {rec['reads']} bytes"
    trace = []
    for j, ct in enumerate(rec["aead"]):
        if ct in rec["old"]:
            out.append(("ip-reads/accepts-earlier-session", f"block {rec['old'][ct]} of the previous session authenticated after {trace}; {layout}"))
            break
        i = by_ct.get(ct)
        if i is None:
            out.append(("ip-reads/accepts-unsealed-block", f"a block the accessory never sealed authenticated after {trace}; {layout}"))
            break
        trace.append("g%d" % i)
        if i != j:
            out.append(("ip-reads/accept-twice-or-out-of-order",
                        f"the accessory sealed blocks g0..g{len(rec['auth']) - 1} under counters 0..{len(rec['auth']) - 1}; the controller accepted {trace} - g{i} was accepted when only g{j} could be next; {layout}"))
            break
    if len(set(rec["nonces"])) != len(rec["nonces"]):
        ctrs = [struct.unpack("<LQ", n)[1] for _, n in rec["nonces"]]
        out.append(("ip-reads/nonce-reuse", f"the controller sealed two blocks with one nonce under one key; counters in order: {ctrs}"))
    onwire = [c for c, _ in rec["wire"] if c is not None]
    if len(set(onwire)) != len(onwire):
        out.append(("ip-reads/nonce-reuse-on-the-wire", f"two blocks the controller put on the wire open under the same counter of the accessory's key; counters in order: {[c for c, _ in rec['wire']]} (block lengths {[n for _, n in rec['wire']]})"))
    want = [(m["kind"], m["mid"]) for m in rec["msgs"] if not (m["kind"] == "r" and m["rid"] in rec["abandoned"])]
    got = rec["got"]
    ev_got = [mid for kind, mid in got if kind == "e"]
    ev_sent = [m["mid"] for m in rec["msgs"] if m["kind"] == "e"]
    if len(set(map(repr, got))) != len(got) or set(map(repr, got)) != set(map(repr, want[:len(got)])) or ev_got != ev_sent[:len(ev_got)]:
        out.append(("ip-reads/message-accepted-twice-or-out-of-order",
                    f"the accessory sent messages {[m['kind'] + str(m['mid']) for m in rec['msgs']]} (responses whose caller had given up: {sorted(m['mid'] for m in rec['msgs'] if m['kind'] == 'r' and m['rid'] in rec['abandoned'])}); "
                    f"the owner and the callers received {[k + str(v) for k, v in got]} - not a prefix of what was sent, each once, in order; {layout}"))
    return out


def account_ip_reads(ctx, rec, evs):
    d = ctx.dist
    d["ip-reads:blocks sealed by the accessory"] += len(rec["auth"])
    d["ip-reads:blocks accepted"] += len(rec["aead"])
    d["ip-reads:items on the wire"] += len(rec["items"])
    d["ip-reads:reads"] += len(rec["reads"])
    d["ip-reads:messages that reached the owner / callers"] += len(rec["got"])
    d["ip-reads:blocks sealed by the controller"] += len(rec["nonces"])
    d["ip-reads:blocks the controller put on the wire"] += len(rec["wire"])
    d["ip-reads:full 1024-byte blocks on the wire"] += sum(1 for _, n in rec["wire"] if n == 1024)
    d["ip-reads:requests whose last block holds 1..3 bytes"] += sum(1 for i, (_, n) in enumerate(rec["wire"]) if n <= 3 and i and rec["wire"][i - 1][1] == 1024)
    # reads that end inside a block after at least one complete block (bookkeeping from the item lengths alone)
    ends, pos = set(), 0
    for _, n in rec["items"]:
        pos += n
        ends.add(pos)
    pos, prev, inside = 0, 0, 0
    for n in rec["reads"]:
        prev, pos = pos, pos + n
        if pos not in ends and any(prev < e <= pos for e in ends):
            inside += 1
    d["ip-reads:reads holding complete blocks and the head of another"] += inside
    d["ip-reads:histories with a replay"] += any(t[0] == "p" for t in evs)
    d["ip-reads:histories with requests"] += any(t[0] in "qQ" for t in evs)
    for nm in rec["raised"]:
        d["ip-reads:data_received raised " + nm] += 1
    for k, v in rec["stats"].items():
        d["ip-reads:" + k] += v


IPR_CUTS = ["1", "2", "3", "40", "-16", "-8", "-1"]  # inside the length / the length exactly / the ciphertext / at the tag / inside the tag / all but one byte
IPR_FAULTS = ["p0", "p1", "p2", "f1", "f2", "o0", "o1", "m0", "m1", "m2", "m3", "m4", "m5", "x0", "x3", "x40", "g0", "g1", None]


def ip_reads_cut_histories(thorough=False):
    """a authentic blocks, one item that is not the next authentic block (or is: a zero-length / one-byte block, or
    nothing), b more authentic blocks; for every item i, every k >= 1 and every cut position: one read holding the k
    complete items before item i and the head of item i, the items before them one per read, then the rest"""
    out = []
    for a in (1, 2, 3):
        for b in ((0, 1, 2) if thorough else (0, 1)):
            for fault in IPR_FAULTS:
                if fault and fault[0] == "p" and int(fault[1:]) >= a:
                    continue
                items = ["g"] * a + ([fault] if fault else []) + ["g"] * b
                for i in range(1, len(items)):
                    for k in range(1, i + 1):
                        for ci, cut in enumerate(IPR_CUTS):
                            evs = []
                            for it in items[:i - k]:
                                evs += [it, "/"]
                            evs += items[i - k:i + 1] + ["/" + cut]
                            if (ci + i + k) % 2 or thorough:
                                evs.append("/")
                                for it in items[i + 1:]:
                                    evs += [it, "/"]
                            else:
                                evs += items[i + 1:] + ["/"]
                            out.append(evs)
    # every read boundary at the same distance from the block boundaries: the whole stream in reads of n bytes
    for fault in IPR_FAULTS:
        for a in (1, 2):
            if fault and fault[0] == "p" and int(fault[1:]) >= a:
                continue
            for n in (1, 2, 3, 17, 64, 127, 129, 130, 131, 200, 257):
                out.append(["g"] * a + ([fault] if fault else []) + ["g", "g", "%%%d" % n])
    # messages that span blocks, blocks that hold several messages, blocks of one byte, replays in the middle of a message
    for cut in IPR_CUTS:
        for rp in ("p0", "p1", "p3"):
            out.append(["E", "g", "g", "g", "g", rp, "/" + cut, "/", "g", "/"])
            out.append(["e", "e", "e", "g", "g40", "g1", "g0", rp, "/" + cut, "/", "g", "/"])
            out.append(["q0", "g", rp, "/" + cut, "/", "g", "/"])
            out.append(["Q5", "g", "g", rp, "/" + cut, "/", "g", "g", "/"])
    return out


def ip_reads_request_histories(rng):
    """the controller-to-accessory direction: requests of every size around the block boundaries (the header takes
    some 90..110 bytes, so bodies of 900..1000 / 1924..2024 bytes walk the last block through 1024 -> 1 bytes),
    answered, unanswered, cancelled, timed out, overlapping"""
    out = []
    for n in list(range(900, 1000, 1)) + list(range(1930, 2030, 2)):
        out.append(["q%d" % n, "g", "/", "q%d" % (n + 1), "g", "/", "q1", "g", "/"])
    alpha = ["q0", "q1", "q940", "q1100", "Q2100", "A", "c", "C", "T", "p0"]
    for d in (1, 2, 3):
        for seq in itertools.product(alpha, repeat=d):
            evs = []
            for tkn in seq:
                evs += ["g", "/"] if tkn == "A" else [tkn, "/"] if tkn == "p0" else [tkn]
            out.append(evs + ["g", "/", "q1", "g", "/"])
    return out


def gen_ip_reads(rng):
    """a random history over the whole vocabulary, with a read boundary drawn after most items"""
    wire = (["g"] * 12 + ["g0", "g1", "g2", "g40", "g1024", "e", "e", "E"] + ["p0"] * 4 + ["p1"] * 2 + ["p2", "p3", "f1", "f2", "o0", "o1"]
            + ["m%d" % w for w in range(6)] + ["x0", "x1", "x40", "x300"])
    cuts = ["/"] * 4 + ["/" + c for c in IPR_CUTS] * 2
    evs = []
    for _ in range(rng.randrange(3, 16)):
        r = rng.random()
        if r < 0.12:
            evs.append(rng.choice(["q", "q", "Q"]) + str(rng.choice([0, 1, 30, 200, rng.randrange(900, 1000), 1100, rng.randrange(1930, 2030), 3000])))
            if rng.random() < 0.8:
                evs += ["g"] + ([] if rng.random() < 0.4 else ["/"])
        elif r < 0.16:
            evs.append(rng.choice(["c", "C", "T"]))
        else:
            evs.append(rng.choice(wire))
            r2 = rng.random()
            if r2 < 0.55:
                evs.append(rng.choice(cuts) if rng.random() < 0.8 else "/%d" % rng.randrange(1, 160))
                if rng.random() < 0.3:
                    evs.append(rng.choice(cuts))
            elif r2 < 0.62:
                evs.append("%%%d" % rng.choice([1, 2, 3, 5, 16, 18, 64, 100, 128, 130, 500, 1042, 1460]))
    return evs


# ---------------------------------------------------------------- BLE
class _BleClient:
    is_connected = True
    address = "AA"

    def __init__(self, script, obs, cancel_at=None):
        self.script = script
        self.obs = obs
        self.writes = 0

    async def get_characteristic(self, *a):
        class H:
            properties = ["read", "write"]
        return H()

    def determine_fragment_size(self, overhead, handle):
        return 64 - overhead

    async def write_gatt_char(self, handle, data, response):
        self.writes += 1

    async def read_gatt_char(self, handle):
        r = self.script.pop(0)
        if r == "cancel":
            raise asyncio.CancelledError()
        return r

    async def disconnect(self):
        self.is_connected = False


def _mk_ble_pairing(pairing_data):
    """a real BlePairing (every attribute its code may look at on an error path exists), without a radio"""
    ctrl = mock.MagicMock()
    ctrl._char_cache = CharacteristicCacheMemory()
    return blep.BlePairing(ctrl, pairing_data)


def run_ble(loop, evs):
    """events come in pairs: ('s', n) then one of ('g', j) / ('x',) / ('a',)  (a request and what the single response read returns)"""
    obs = []

    async def main():
        p = _mk_ble_pairing({"AccessoryAddress": "AA", "AccessoryPairingID": "x", "Connection": "BLE"})
        p._ble_request_lock = asyncio.Lock()
        p.id = "x"
        p.device = None
        p.description = None
        p.ble_advertisement = None
        p._encryption_key = blep.EncryptionKey(KEY_C2A)
        p._decryption_key = blep.DecryptionKey(KEY_A2C)
        orig = p._encryption_key.key.encrypt

        def enc(aad, nonce, pt):
            obs.append("s%d" % struct.unpack("<LQ", nonce)[1])
            return orig(aad, nonce, pt)
        p._encryption_key.key.encrypt = enc
        client = _BleClient([], obs)
        p.client = client

        class Char:
            iid = 5
            type = "t"

            class service:
                type = "s"
        i = 0
        while i < len(evs):
            ev = evs[i]
            if ev[0] != "s":
                i += 1
                continue
            resp = evs[i + 1] if i + 1 < len(evs) else ("a",)
            i += 2
            if p._encryption_key is None:
                break  # session is over; a new one would have fresh keys
            n = ev[1]
            body = b"b" * (max(n - 1, 0) * (64 - 16 - 2) + (64 - 16 - 7) if n > 1 else (1 if n == 1 else 0))
            if n == 0:
                body = None
            if resp[0] == "g":
                frag = struct.pack("<BBB", 2, 0, 0)  # tid patched below
                client.script = [("g", resp[1])]
            elif resp[0] == "x":
                client.script = [bytes(3 + 16)]
            else:
                client.script = ["cancel"]
            # tid is random: patch randrange so the genuine reply can carry it
            with mock.patch.object(blep.random if hasattr(blep, "random") else __import__("random"), "randrange", lambda a, b: 7), \
                    mock.patch("aiohomekit.controller.ble.client.random.randrange", lambda a, b: 7):
                if client.script and isinstance(client.script[0], tuple):
                    j = client.script[0][1]
                    client.script = [ChaCha20Poly1305(KEY_A2C).encrypt(n_ip(j), struct.pack("<BBB", 2, 7, 0), b"")]
                    label = "a%d" % j
                else:
                    label = None
                try:
                    async with p._ble_request_lock:
                        await p._async_request_under_lock(OpCode.CHAR_WRITE if body else OpCode.CHAR_READ, Char(), body)
                    if label:
                        obs.append(label)
                except BaseException:  # noqa: BLE001
                    obs.append("c")
    loop.run_until_complete(main())
    return obs


# ---------------------------------------------------------------- BLE, responses of several fragments, the radio answers every read
def run_ble_reads(loop, evs, seed=0):
    """one BLE session.  `s<n>/<F>`: a request of n written fragments; the accessory seals its response as F fragments
    (first fragment with the PDU header, then continuations), each under its next counter.  The tokens up to the next
    request say what every GATT read of the controller returns: `n` the next fragment in order, `p<k>` the fragment k
    before it again (replay), `f<k>` the fragment k after it (future), `m` the next fragment with one bit flipped, `x` a
    fragment nobody sealed, `a` the read is cancelled; when the tokens run out the caller is cancelled.  Requests go on
    for as long as the library keeps the keys and the link.  Returns {'accepted': [...], 'sealed': n, 'nonces': [...]}"""
    import random as _r
    rnd = _r.Random(seed)
    rec = {"accepted": [], "nonces": [], "sealed": 0, "outcomes": [], "crash": None}

    async def main():
        p = _mk_ble_pairing({"AccessoryAddress": "AA", "AccessoryPairingID": "x", "Connection": "BLE"})
        p._encryption_key = blep.EncryptionKey(KEY_C2A)
        p._decryption_key = blep.DecryptionKey(KEY_A2C)
        sealed = []
        state = {"next": 0, "script": []}
        orig_enc, orig_dec = p._encryption_key.key.encrypt, p._decryption_key.key.decrypt

        def enc(aad, nonce, pt):
            rec["nonces"].append(struct.unpack("<LQ", nonce)[1])
            return orig_enc(aad, nonce, pt)

        def dec(aad, nonce, ct):
            pt = orig_dec(aad, nonce, ct)
            rec["accepted"].append(sealed.index(bytes(ct)) if bytes(ct) in sealed else "?")
            return pt
        p._encryption_key.key.encrypt = enc
        p._decryption_key.key.decrypt = dec

        class Client(_BleClient):
            async def read_gatt_char(self, handle):
                if not state["script"]:
                    raise asyncio.CancelledError()
                tk = state["script"].pop(0)
                k = int(tk[1:]) if len(tk) > 1 else 0
                nx = state["next"]
                if tk == "a":
                    raise asyncio.CancelledError()
                if tk == "n" and nx < len(sealed):
                    state["next"] += 1
                    return sealed[nx]
                if tk[0] == "p" and 0 <= nx - k < len(sealed):
                    return sealed[nx - k]
                if tk[0] == "f" and nx + k < len(sealed):
                    return sealed[nx + k]
                if tk == "m" and nx < len(sealed):
                    b = bytearray(sealed[nx])
                    b[rnd.randrange(len(b))] ^= 1 << rnd.randrange(8)
                    return bytes(b)
                return bytes(rnd.randrange(256) for _ in range(rnd.choice([16, 19, 30])))
        client = Client([], [])
        p.client = client

        class Char:
            iid = 5
            type = "t"

            class service:
                type = "s"
        i = 0
        while i < len(evs):
            tk = evs[i]
            i += 1
            if tk[0] != "s":
                continue
            n, f = (int(v) for v in tk[1:].split("/"))
            j = i
            while j < len(evs) and evs[j][0] != "s":
                j += 1
            state["script"] = list(evs[i:j])
            i = j
            if p._encryption_key is None or p._decryption_key is None or not p.client or not p.client.is_connected:
                break  # the library ended the session: nothing more is sent or read under these keys
            # the accessory seals its response when the request has been written: F fragments under its next F counters
            parts = [bytes([(len(sealed) + q) & 0xFF]) * 9 for q in range(f)]
            total = sum(len(x) for x in parts)
            for q, part in enumerate(parts):
                pdu = (struct.pack("<BBBH", 2, 7, 0, total) if q == 0 else struct.pack("<BB", 0x82, 7)) + part
                sealed.append(ChaCha20Poly1305(KEY_A2C).encrypt(n_ip(len(sealed)), pdu, b""))
            body = b"b" * (max(n - 1, 0) * (64 - 16 - 2) + (64 - 16 - 7) if n > 1 else 1)
            with mock.patch("aiohomekit.controller.ble.client.random.randrange", lambda a, b: 7):
                try:
                    async with p._ble_request_lock:
                        await p._async_request_under_lock(OpCode.CHAR_WRITE, Char(), body)
                    rec["outcomes"].append("ok")
                except BaseException as e:  # noqa: BLE001
                    rec["outcomes"].append(type(e).__name__)
        rec["sealed"] = len(sealed)
    try:
        loop.run_until_complete(main())
    except Exception as e:  # noqa: BLE001
        rec["crash"] = f"{type(e).__name__}: {str(e)[:120]}"
    return rec


def oracle_ble_reads(rec):
    out = []
    if rec["crash"]:
        out.append(("ble-reads/unexpected-exception", f"the library raised outside a request: {rec['crash']}"))
    for i, a in enumerate(rec["accepted"]):
        if a != i:
            what = "a fragment the accessory never sealed" if a == "?" else f"fragment {a} when only fragment {i} could be next"
            out.append(("ble-reads/accept-twice-or-out-of-order", f"ble: the accessory sealed fragments 0..{rec['sealed'] - 1}; the controller accepted {rec['accepted']} - {what}"))
            break
    if len(set(rec["nonces"])) != len(rec["nonces"]):
        out.append(("ble-reads/nonce-reuse", f"ble: nonces {rec['nonces']} sealed under one key"))
    return out


def gen_ble_reads(rng):
    evs = []
    for _ in range(rng.randrange(1, 7)):
        f = rng.choice([1, 1, 2, 2, 3])
        evs.append("s%d/%d" % (rng.choice([1, 1, 2, 3]), f))
        reads = ["n"] * f
        if rng.random() < 0.5:
            at = rng.randrange(f)
            fault = rng.choice(["p1", "p2", "f1", "f1", "f2", "m", "x", "a"])
            tail = rng.choice([[], ["n"] * f, [fault] + ["n"] * f, ["f1", "f1", "n", "n"], ["n", "f1", "n"], ["p1", "n", "n"]])
            reads = reads[:at] + [fault] + tail
        evs.extend(reads)
    return evs


# ---------------------------------------------------------------- BLE over several sessions
def run_ble_sessions(loop, evs, seed=0):
    """one BlePairing over several sessions.  Events: ('Kr',) / ('Kf',) pair-verify against an accessory that honours /
    ignores a resume request; then request/response pairs as in run_ble: ('s', n) followed by ('g', j) genuine response
    of THIS session with counter j, ('o', j) a genuine response recorded in the PREVIOUS session, ('x',) corrupt, ('a',)
    cancelled.  Observation: for every AEAD operation of the controller, (key set, counter) where key sets are numbered by
    first appearance of their key bytes - a session that installs an old key again is seen as the old key set."""
    import random as _r
    rng = _r.Random(seed)

    def rb(n):
        return bytes(rng.randrange(256) for _ in range(n))
    obs = []
    keysets = []  # (c2a, a2c) in order of first appearance

    def epoch(c2a, a2c):
        k = (bytes(c2a), bytes(a2c))
        if k not in keysets:
            keysets.append(k)
        return keysets.index(k) + 1  # the model's first pair-verify moves from epoch 0 (no keys) to 1
    ident = refacc.Identity(rb)
    acc = {"shared": None, "sid": None, "prev_a2c": None, "a2c": None, "c2a": None, "resumed": 0, "full": 0}

    async def main():
        p = _mk_ble_pairing(dict(ident.pairing_data(connection="BLE"), AccessoryAddress="AA"))
        p._ble_request_lock = asyncio.Lock()
        p.id = "x"
        p.device = None
        p.description = None
        p.ble_advertisement = None
        p._session_id = None
        p._derive = None
        p._encryption_key = None
        p._decryption_key = None
        client = _BleClient([], obs)
        p.client = client
        honour = [True]
        replay_handshake = [False]
        recorded = {}  # the last full pair-verify as an eavesdropper saw it: M2, and the secret only the two ends know

        async def drive(cl, char, sm):
            req, exp = sm.send(None)
            d = {int(k): bytes(v) for k, v in req}
            ios_pk = d[3]
            if replay_handshake[0] and recorded:
                # someone who recorded an earlier handshake answers with its M2 and M4, byte for byte
                req3, _ = sm.send({k: bytearray(v) for k, v in recorded["m2"]})
                acc["replayed"] = acc.get("replayed", 0) + 1
                try:
                    sm.send({6: bytearray(b"\x04")})
                    raise AssertionError("verify not finished")
                except StopIteration as st:
                    acc["shared"] = recorded["shared"]  # the controller derived the old secret again
                    acc["sid"] = st.value[0]
                    return st.value
            resume_ok = False
            if 0 in d and honour[0] and acc["shared"] is not None and d.get(14) == acc["sid"]:
                # pair-resume, accessory side (HAP 5.8); a request that does not authenticate is treated as a plain M1
                reqkey = refacc.hk(acc["shared"], ios_pk + d[14], b"Pair-Resume-Request-Info")
                try:
                    ChaCha20Poly1305(reqkey).decrypt(b"\0\0\0\0PR-Msg01", d[5], b"")
                    resume_ok = True
                except InvalidTag:
                    pass
            if resume_ok:
                new_sid = rb(8)
                respkey = refacc.hk(acc["shared"], ios_pk + new_sid, b"Pair-Resume-Response-Info")
                tag = ChaCha20Poly1305(respkey).encrypt(b"\0\0\0\0PR-Msg02", b"", b"")
                shared = refacc.hk(acc["shared"], ios_pk + new_sid, b"Pair-Resume-Shared-Secret-Info")
                acc["resumed"] += 1
                try:
                    sm.send({6: bytearray(b"\x02"), 0: bytearray(b"\x06"), 14: bytearray(new_sid), 5: bytearray(tag)})
                    raise AssertionError("resume not finished")
                except StopIteration as st:
                    acc["shared"], acc["sid"] = shared, new_sid
                    return st.value
            va = refacc.VerifyAccessory(ident, rb(32))
            m2 = va.m2(ios_pk)
            req3, _ = sm.send({k: bytearray(v) for k, v in m2})
            assert va.check_m3([(k, bytes(v)) for k, v in req3])
            acc["full"] += 1
            recorded["m2"], recorded["shared"] = m2, va.shared
            try:
                sm.send({6: bytearray(b"\x04")})
                raise AssertionError("verify not finished")
            except StopIteration as st:
                acc["shared"] = va.shared
                acc["sid"] = st.value[0]
                return st.value

        class Char:
            iid = 5
            type = "t"

            class service:
                type = "s"

        def install_spies():
            ek, dk = p._encryption_key, p._decryption_key
            c2a = refacc.hk(acc["shared"], b"Control-Salt", b"Control-Write-Encryption-Key")
            a2c = refacc.hk(acc["shared"], b"Control-Salt", b"Control-Read-Encryption-Key")
            acc["prev_a2c"], acc["a2c"], acc["c2a"] = acc["a2c"], a2c, c2a
            # which key bytes did the controller really install?  (probe without touching its counters)
            probe = ek.key.encrypt(b"", struct.pack("<LQ", 0, 2 ** 63), b"probe")
            ctl_c2a = next((k[0] for k in keysets + [(c2a, a2c)] if ChaCha20Poly1305(k[0]).encrypt(struct.pack("<LQ", 0, 2 ** 63), b"probe", b"") == probe), b"?" + probe)
            ep = epoch(ctl_c2a, a2c if ctl_c2a == c2a else next((k[1] for k in keysets if k[0] == ctl_c2a), b"?"))
            orig = ek.key.encrypt

            def enc(aad, nonce, pt):
                obs.append("%d:s%d" % (ep, struct.unpack("<LQ", nonce)[1]))
                return orig(aad, nonce, pt)
            ek.key.encrypt = enc
            return ep
        ep = None
        i = 0
        while i < len(evs):
            ev = evs[i]
            if ev[0] in ("Kr", "Kf", "Kp"):
                i += 1
                honour[0] = ev[0] == "Kr"
                replay_handshake[0] = ev[0] == "Kp"
                client.is_connected = True  # the radio link is re-established before every pair-verify
                p.client = client
                try:
                    with mock.patch.object(blep, "drive_pairing_state_machine", drive):
                        await p._async_pair_verify()
                except Exception:  # noqa: BLE001
                    if ev[0] != "Kp":
                        raise
                    # the replayed handshake was refused: no new session, the old keys (and their counters) stay
                    continue
                ep = install_spies()
                continue
            if ev[0] in ("X", "C"):
                # the radio reports the link lost (bleak's disconnected callback) / the owner closes the pairing: the
                # session is over; whatever the next pair-verify installs, no (key, nonce) pair may come back
                i += 1
                acc["ended"] = acc.get("ended", 0) + 1
                if ev[0] == "X":
                    p._async_disconnected(client)
                else:
                    await p.close()
                continue
            if ev[0] != "s":
                i += 1
                continue
            resp = evs[i + 1] if i + 1 < len(evs) else ("a",)
            i += 2
            if p._encryption_key is None:
                continue  # the session is over; nothing is sent until the next pair-verify
            n = ev[1]
            body = b"b" * (max(n - 1, 0) * (64 - 16 - 2) + (64 - 16 - 7) if n > 1 else 1)
            label = None
            if resp[0] == "g":
                client.script = [ChaCha20Poly1305(acc["a2c"]).encrypt(n_ip(resp[1]), struct.pack("<BBB", 2, 7, 0), b"")]
                label = "%d:a%d" % (ep, resp[1])
            elif resp[0] == "o" and acc["prev_a2c"] is not None:
                client.script = [ChaCha20Poly1305(acc["prev_a2c"]).encrypt(n_ip(resp[1]), struct.pack("<BBB", 2, 7, 0), b"")]
                label = "old:a%d" % resp[1]
            elif resp[0] in ("x", "o"):
                client.script = [bytes(3 + 16)]
            else:
                client.script = ["cancel"]
            with mock.patch("aiohomekit.controller.ble.client.random.randrange", lambda a, b: 7):
                try:
                    async with p._ble_request_lock:
                        await p._async_request_under_lock(OpCode.CHAR_WRITE, Char(), body)
                    if label:
                        obs.append(label)
                except BaseException:  # noqa: BLE001
                    obs.append("%d:c" % ep)
    loop.run_until_complete(main())
    run_ble_sessions.acc = acc
    return obs


def gen_sessions(rng, long_run=False):
    """a history of 2..5 sessions; inside a session only the last exchange may fail (then nothing is sent until the
    next pair-verify)"""
    evs = []
    for sidx in range(rng.randrange(2, 6 if long_run else 4)):
        if sidx and rng.random() < 0.3:
            evs.append(("Kp",))  # before the genuine accessory answers, a recorded handshake is played back
        evs.append((rng.choice(["Kr", "Kr", "Kf"]),))
        ctr = 0
        for _ in range(rng.randrange(0, 4)):
            evs.append(("s", rng.choice([1, 1, 2])))
            r = rng.random()
            if r < 0.7:
                evs.append(("g", ctr))
                ctr += 1
            else:
                evs.append(rng.choice([("x",), ("a",), ("g", ctr + 1), ("g", max(ctr - 1, 0)) if ctr else ("x",), ("o", 0), ("o", ctr)]))
                break
    return evs


def analyse_sessions(obs):
    out = []
    sealed = [o for o in obs if ":s" in o]
    if len(set(sealed)) != len(sealed):
        dup = next(x for x in sealed if sealed.count(x) > 1)
        out.append(("ble/nonce-reuse-across-sessions", f"ble: (key set, nonce) pairs sealed in order: {sealed} - {dup} was used twice (a later session installed the key of an earlier one)"))
    acc = [o for o in obs if ":a" in o]
    if any(o.startswith("old:") for o in acc):
        out.append(("ble/accepts-earlier-session", f"ble: a response recorded in the previous session was accepted in a later one: {acc}"))
    if len(set(acc)) != len(acc):
        out.append(("ble/accept-twice-across-sessions", f"ble: accepted {acc}"))
    return out


# ---------------------------------------------------------------- CoAP
def run_coap(loop, evs):
    """('q',) request ; ('g', j) / ('x',) the response payload handed to _decrypt_response (after a request).
    A request that is not followed by a response is cancelled by its caller while it waits (the session stays up).
    run_coap.meta tells which acceptances needed the resynchronisation heuristics and where the counters were zeroed."""
    obs = []
    meta = {"heur": set(), "zeroed": []}
    run_coap.meta = meta

    async def main():
        class Resp:
            def __init__(self, payload):
                self.payload = payload
                self.code = coapc.Code.CHANGED

        class CoapCtx:
            def __init__(self):
                self.next = None

            def request(self, msg):
                f = asyncio.get_event_loop().create_future()
                if self.next is not None:
                    f.set_result(Resp(self.next))

                class R:
                    response = f
                return R()

            async def shutdown(self):
                pass
        cc = CoapCtx()
        ctx = coapc.EncryptionContext(ChaCha20Poly1305(KEY_A2C), ChaCha20Poly1305(KEY_C2A), ChaCha20Poly1305(KEY_EV), "coap://x/", cc)
        orig = ctx.send_ctx

        expect_send = [0]  # the send counter as it stands if nobody rewinds it

        class Spy:
            def encrypt(self, nonce, data, aad):
                n = struct.unpack("=4xQ", nonce)[0]
                obs.append("s%d" % n)
                expect_send[0] = max(expect_send[0], n + 1)
                return orig.encrypt(nonce, data, aad)
        ctx.send_ctx = Spy()
        tries = [0]
        orig_recv = ctx.recv_ctx

        class RSpy:
            def decrypt(self, nonce, data, aad):
                tries[0] += 1
                return orig_recv.decrypt(nonce, data, aad)
        ctx.recv_ctx = RSpy()

        async def response(coro):
            tries[0] = 0
            try:
                out = await coro
                if tries[0] > 1:
                    meta["heur"].add(len(obs))
                obs.append("a" + out[1:].decode())
            except Exception:  # noqa: BLE001
                obs.append("c")
            if ctx.send_ctr < expect_send[0]:
                # _decrypt_response zeroed the counters (the only code that ever lowers send_ctr)
                meta["zeroed"].append(len(obs))
                expect_send[0] = ctx.send_ctr
        i = 0
        while i < len(evs):
            ev = evs[i]
            i += 1
            if ctx.coap_ctx is None:
                break
            if ev[0] == "q":
                if i < len(evs) and evs[i][0] in ("g", "x"):
                    r = evs[i]
                    i += 1
                    cc.next = ChaCha20Poly1305(KEY_A2C).encrypt(n_coap(r[1]), b"r%d" % r[1], b"") if r[0] == "g" else bytes(20)
                    await response(ctx.post_bytes(b"req"))
                else:
                    # the request goes out, no response arrives, the caller is cancelled while it waits
                    cc.next = None
                    t = asyncio.ensure_future(ctx.post_bytes(b"req"))
                    for _ in range(4):
                        await asyncio.sleep(0)
                    t.cancel()
                    try:
                        await t
                    except asyncio.CancelledError:
                        pass
                    except Exception:  # noqa: BLE001
                        obs.append("c")
            else:
                # an unsolicited response payload reaching _decrypt_response (e.g. a duplicate delivered by the network)
                payload = ChaCha20Poly1305(KEY_A2C).encrypt(n_coap(ev[1]), b"r%d" % ev[1], b"") if ev[0] == "g" else bytes(20)
                await response(ctx._decrypt_response(Resp(payload)))
    loop.run_until_complete(main())
    return obs


def run_coap_events(cts):
    ctx = coapc.EncryptionContext(ChaCha20Poly1305(KEY_A2C), ChaCha20Poly1305(KEY_C2A), ChaCha20Poly1305(KEY_EV), "coap://x/", None)
    obs = []
    for ct in cts:
        payload = ChaCha20Poly1305(KEY_EV).encrypt(n_coap(ct[1]), b"e%d" % ct[1], b"") if ct[0] == "g" else bytes(20)
        try:
            out = ctx.decrypt_event(payload)
            obs.append("a" + out[1:].decode())
        except InvalidTag:
            pass
    return obs


def run_coap_event_resource(loop, cts):
    """the same event histories, delivered as PUT requests to the CoAP event resource of a real CoAPHomeKitConnection
    (EventResource.render_put): an acceptance is an event that reaches the owner's event_received; every second event
    carries two characteristic records (one acceptance per message)"""
    obs = []
    stats = {"valid": 0, "refused": 0, "raised": 0}

    async def main():
        owner = _IpOwner()
        conn = coapc.CoAPHomeKitConnection(owner, "::1", 5683)
        conn.enc_ctx = coapc.EncryptionContext(ChaCha20Poly1305(KEY_A2C), ChaCha20Poly1305(KEY_C2A), ChaCha20Poly1305(KEY_EV), "coap://x/", None)
        conn.info = Pdu09Database(_accessories=[])
        res = coapc.EventResource(conn)
        for ct in cts:
            if ct[0] == "g":
                j = ct[1]
                val = b"e%d" % j
                body = bytes([1, len(val)]) + val  # HAP-Param-Value TLV
                pl = struct.pack("<BHH", 0, 10, len(body)) + body
                if j % 2:
                    pl += struct.pack("<BHH", 0, 11, len(body)) + body
                payload = ChaCha20Poly1305(KEY_EV).encrypt(n_coap(j), pl, b"")
            else:
                payload = bytes(20)
            seen = len(owner.events)
            try:
                out = await res.render_put(coapc.Message(code=coapc.Code.PUT, payload=payload))
                stats["valid" if out.code == coapc.Code.VALID else "refused"] += 1
            except Exception:  # noqa: BLE001
                stats["raised"] += 1
            got = {bytes(v["value"]) for e in owner.events[seen:] for v in e.values()}
            for v in sorted(got):
                obs.append("a" + v[1:].decode())
    loop.run_until_complete(main())
    run_coap_event_resource.stats = stats
    return obs


# ---------------------------------------------------------------- CoAP, whole sessions through the real CoAPPairing
CS_CHARS = (10, 11, 12)   # three int32 characteristics (read / write / events)
CS_PAIRINGS = 20          # the pairings characteristic (service 0x55, type 0x50)
CS_NEW_CHAR = 13          # a fourth int32 characteristic the accessory GAINS in service 1 (firmware update, token U)
CS_NEW_SVC_CHAR = 30      # .. and one in a service (iid 3) it gains at the same time
CS_EV_BASE = 100000       # an event carries CS_EV_BASE + its serial number in the accessory's log as value


def _t8(tag, val):
    val = bytes(val)
    if not val:
        return bytes([tag, 0])
    return b"".join(bytes([tag, len(val[o:o + 255])]) + val[o:o + 255] for o in range(0, len(val), 255))


def _cs_database(upgraded=False):
    """the attribute database of the accessory as the TLV8 body of a HAP-over-CoAP database read (written out here, not
    produced by the library)"""
    def char(typ, iid, props, gatt):
        return _t8(0x13, _t8(0x04, bytes([typ])) + _t8(0x05, struct.pack("<H", iid)) + _t8(0x0A, struct.pack("<H", props))
                   + _t8(0x0C, struct.pack("<BbHBH", gatt, 0, 0x2700, 1, 0)))

    def svc(typ, iid, chars):
        return _t8(0x15, _t8(0x07, struct.pack("<H", iid)) + _t8(0x06, bytes([typ])) + _t8(0x14, b"\x00\x00".join(chars)))
    light = svc(0x43, 1, [char(0xCE, i, 0x10 | 0x20 | 0x80, 0x10) for i in CS_CHARS + ((CS_NEW_CHAR,) if upgraded else ())])
    pairings = svc(0x55, 2, [char(0x50, CS_PAIRINGS, 0x10 | 0x20, 0x1B)])
    more = [svc(0x43, 3, [char(0xCE, CS_NEW_SVC_CHAR, 0x10 | 0x20 | 0x80, 0x10)])] if upgraded else []
    return _t8(0x18, _t8(0x19, _t8(0x1A, struct.pack("<H", 1)) + _t8(0x16, b"\x00\x00".join([light, pairings] + more))))


CS_DATABASE = _cs_database()
CS_DATABASE_UPGRADED = _cs_database(upgraded=True)  # after a firmware update: one more characteristic in service 1 and a new service 3
# the records of an event datagram: K = the next of the three original characteristics, N / M = the characteristics the
# accessory gained (unknown to a controller whose copy of the database is older), n / k = N / K with an empty body
CS_EVENT_SHAPES = ["K", "KK", "N", "NK", "KN", "M", "MNK", "KKN", "nK", "NM", "kK", "Kk"]


def run_coap_session(loop, evs, seed=0):
    """A real CoAPPairing / CoAPHomeKitConnection / EncryptionContext / EventResource: real pair-verify against the
    reference accessory (refacc), real database fetch, every request through the pairing's public entry points.  Only
    aiocoap's Context (the UDP socket) is replaced: a POST goes to the in-memory accessory, which keeps STRICT counters
    per session, seals a response and logs it; the NETWORK decides what comes back.  Tokens:
      callers      g<i> get_characteristics of one characteristic ; G of all three ; p<i> put_characteristics ; s<i> / S
                   subscribe ; u<i> unsubscribe ; L list_accessories_and_characteristics ; P async_populate_accessories_state
                   (forced) ; l list_pairings ; v remove_pairing (of another controller) ; i identify
      accessory    e / E emits an event of one / two records and the network delivers it ; w emits one the network withholds
      network      r<k> delivers (again) the k-th most recent event datagram of the current session ; a<k> event number k
                   of the current session ; o<k> event number k of the PREVIOUS session ; m the most recent event with one
                   bit flipped ; x a datagram nobody sealed ;
                   the NEXT request is answered with: R<k> a replay of the k-th most recent response datagram ; A<k>
                   response number k of the session ; B<k> response number k of the previous session ; X the genuine
                   response with one bit flipped ; N 4.04 without payload ; O nothing (the response is lost) ; Q nothing,
                   and the request never reaches the accessory
      time         T 17 s pass (request time-outs fire) ; c the oldest caller still waiting is cancelled
      session      D0 zeroconf reports the accessory again at the same endpoint ; D1 at a new address ; D2 at a new port ;
                   D3 reports it gone ; D4 reports a higher configuration number ; Z connection.reconnect_soon() ;
                   V connection.connect() ; W connection.do_pair_verify() on the live connection ; K pairing.close()
      concurrency  aiocoap renders every incoming request in a task of its own and a response takes time to arrive:
                   f<s> the accessory emits an event whose records have shape CS_EVENT_SHAPES[s] (original characteristics and
                   characteristics it gained since the controller read its database) and the network hands it to the event
                   resource in a NEW TASK, the history goes on without waiting for it ; d<s> the same, waited for ; b<k> event
                   number k of the session (again) in a new task ; U the accessory gains a characteristic and a service
                   (implied by the first event that names one of them) ; y<ms> from now on every answer of the accessory
                   arrives <ms> ms after the request ; H answers are kept by the network until h (all of them arrive, in order) ;
                   t<ms> <ms> ms pass
    The record: 'log' = in order, every datagram the controller put on the wire (session and nonce found by trial
    decryption under the keys the ACCESSORY derived), every AEAD operation of the controller's CoAP code (key bytes,
    nonce, ciphertext, authenticated or not) and every delivery by the network; 'heard' = what reached the listeners;
    'sessions' = the accessory's own log (keys, responses and events it sealed, in its order)."""
    import random as _r
    from collections import Counter
    from aiohomekit.controller.coap.pairing import CoAPPairing
    from aiohomekit.model import Categories
    from aiohomekit.model.feature_flags import FeatureFlags
    from aiohomekit.model.status_flags import StatusFlags
    from aiohomekit.zeroconf import HomeKitService
    rnd = _r.Random(seed)

    def rb(n):
        return bytes(rnd.randrange(256) for _ in range(n))
    rec = {"sessions": [], "log": [], "heard": [], "stats": Counter(), "crash": None}
    log, stats = rec["log"], rec["stats"]
    ident = refacc.Identity(rb)
    values = {i: 0 for i in CS_CHARS}
    acc = {"verify": None, "cur": None, "serial": 0, "upgraded": False}
    net = {"mod": None, "contexts": [], "delivery": 0, "delay": 0.0, "hold": False, "held": [], "of_task": {}, "etasks": []}

    class SpyAead:
        """stands where the CoAP code constructs its ChaCha20Poly1305 objects: same cipher, every use recorded"""

        def __init__(self, key):
            self._k = bytes(key)
            self._c = ChaCha20Poly1305(self._k)

        def encrypt(self, nonce, data, aad):
            log.append(("seal", self._k, struct.unpack("=4xQ", nonce)[0]))
            return self._c.encrypt(nonce, data, aad)

        def decrypt(self, nonce, data, aad):
            try:
                pt = self._c.decrypt(nonce, data, aad)
            except InvalidTag:
                log.append(("try", self._k, struct.unpack("=4xQ", nonce)[0], bytes(data)))
                raise
            log.append(("open", self._k, struct.unpack("=4xQ", nonce)[0], bytes(data)))
            return pt

    # ---- the accessory
    def pair_verify(ctx, payload):
        d = refacc.untlv(payload)
        if d.get(6) == b"\x01":
            va = refacc.VerifyAccessory(ident, rb(32))
            acc["verify"] = va
            return refacc.tlv(va.m2(d[3]))
        va, acc["verify"] = acc["verify"], None
        if va is None or not va.check_m3(list(d.items())):
            return refacc.tlv([(6, b"\x04"), (7, b"\x02")])
        c2a, a2c, evt = va.keys()
        s = {"n": len(rec["sessions"]), "c2a": c2a, "a2c": a2c, "evt": evt, "rx": 0, "responses": [], "events": [], "serials": [], "ctx": ctx}
        rec["sessions"].append(s)
        acc["cur"] = s
        return refacc.tlv([(6, b"\x04")])

    def identify_datagram(payload):
        """which session key and nonce was this datagram sealed with?  (trial decryption, the accessory's keys)"""
        s = acc["cur"]
        order = ([(s, s["rx"])] if s else []) + [(x, c) for x in reversed(rec["sessions"]) for c in range(x["rx"] + 12)]
        for x, c in order:
            try:
                return x, c, ChaCha20Poly1305(x["c2a"]).decrypt(n_coap(c), payload, b"")
            except InvalidTag:
                continue
        return None, None, None

    def secure(payload):
        """-> (code, payload) ; strict counters: a request that is not sealed with the next nonce is refused"""
        s = acc["cur"]
        x, c, plain = identify_datagram(payload)
        log.append(("wire", x["n"] if x else None, c))
        if x is None or x is not s or c != s["rx"]:
            stats["accessory refused a request (not its next nonce)"] += 1
            return coapc.Code.NOT_FOUND, b""
        s["rx"] += 1
        out, off = b"", 0
        while off + 7 <= len(plain):
            _control, opcode, tid, iid, ln = struct.unpack("<BBBHH", plain[off:off + 7])
            body = plain[off + 7:off + 7 + ln]
            off += 7 + ln
            st, rbody = 0, b""
            if opcode == 0x09:
                rbody = CS_DATABASE_UPGRADED if acc["upgraded"] else CS_DATABASE
            elif opcode == 0x03 and iid in values:
                rbody = _t8(0x01, struct.pack("<l", values[iid]))
            elif opcode == 0x03 and iid == CS_PAIRINGS:
                rbody = _t8(0x01, refacc.tlv([(6, b"\x02"), (1, ident.ios_id.encode()), (3, ident.ios_ltpk), (11, b"\x01")]))
            elif opcode == 0x02 and iid in values:
                try:
                    values[iid] = struct.unpack("<l", refacc.untlv(body)[1])[0]
                except Exception:  # noqa: BLE001
                    st = 6
            elif opcode == 0x02 and iid == CS_PAIRINGS:
                pass
            elif opcode in (0x0B, 0x0C) and iid in values:
                pass
            else:
                st = 4
            out += struct.pack("<BBBH", 0x02, tid, st, len(rbody)) + rbody
        enc = ChaCha20Poly1305(s["a2c"]).encrypt(n_coap(len(s["responses"])), out, b"")
        s["responses"].append(enc)
        return coapc.Code.CHANGED, enc

    def upgrade():
        if not acc["upgraded"]:
            acc["upgraded"] = True
            values[CS_NEW_CHAR] = values[CS_NEW_SVC_CHAR] = 0
            stats["accessory gained a characteristic and a service"] += 1

    def emit(records):
        """records: a number (that many of the original characteristics) or a shape of CS_EVENT_SHAPES"""
        s = acc["cur"]
        if s is None:
            return None
        serial = acc["serial"]
        acc["serial"] += 1
        body = _t8(0x01, struct.pack("<l", CS_EV_BASE + serial))
        if isinstance(records, str):
            if records.strip("Kk"):
                upgrade()
            pl = b""
            for q, kind in enumerate(records):
                iid = {"K": CS_CHARS[(serial + q) % 3], "k": CS_CHARS[(serial + q) % 3], "N": CS_NEW_CHAR, "n": CS_NEW_CHAR, "M": CS_NEW_SVC_CHAR}[kind]
                b = b"" if kind in "nk" else body
                pl += struct.pack("<BHH", 0, iid, len(b)) + b
            enc = ChaCha20Poly1305(s["evt"]).encrypt(n_coap(len(s["events"])), pl, b"")
            s["events"].append(enc)
            s["serials"].append(serial)
            stats["event datagrams naming a characteristic the accessory gained"] += bool(records.strip("Kk"))
            return enc
        pl = b"".join(struct.pack("<BHH", 0, CS_CHARS[(serial + q) % 3], len(body)) + body for q in range(records))
        enc = ChaCha20Poly1305(s["evt"]).encrypt(n_coap(len(s["events"])), pl, b"")
        s["events"].append(enc)
        s["serials"].append(serial)
        return enc

    # ---- the network
    class FakeCtx:
        def __init__(self, site):
            self.site = site
            self.closed = False
            net["contexts"].append(self)

        def request(self, msg):
            fut = loop.create_future()
            reply = None
            path = "/".join(msg.opt.uri_path)
            if self.closed:
                stats["request on a context that was shut down"] += 1
            elif path == "2":
                reply = (coapc.Code.CHANGED, pair_verify(self, bytes(msg.payload)))
            elif path == "0":
                reply = (coapc.Code.CHANGED, b"")
            elif path == "":
                mod, net["mod"] = net["mod"], None
                if mod == "Q":
                    x, c, _ = identify_datagram(bytes(msg.payload))
                    log.append(("wire", x["n"] if x else None, c))
                else:
                    reply = secure(bytes(msg.payload))
                    s = acc["cur"]
                    prev = rec["sessions"][s["n"] - 1] if s and s["n"] >= 1 else None
                    if mod is None:
                        pass
                    elif mod == "O":
                        reply = None
                    elif mod == "N":
                        reply = (coapc.Code.NOT_FOUND, b"")
                    elif mod == "X":
                        b = bytearray(reply[1] or bytes(20))
                        b[rnd.randrange(len(b))] ^= 1 << rnd.randrange(8)
                        reply = (reply[0], bytes(b))
                    else:
                        k = int(mod[1:])
                        src = (prev["responses"] if prev else []) if mod[0] == "B" else (s["responses"] if s else [])
                        # the genuine response to THIS request (if any) is the most recent one: `R0` is a replay of the one before it
                        i = k if mod[0] in "AB" else len(src) - 1 - (reply[0] == coapc.Code.CHANGED) - k
                        if 0 <= i < len(src):
                            reply = (coapc.Code.CHANGED, src[i])
                            stats["response replaced by an earlier one"] += 1
            if reply is not None:
                answer = coapc.Message(code=reply[0], payload=reply[1])

                def arrive(secured=(path == "")):
                    if fut.done():
                        stats["answer arrived after its caller had given up"] += 1
                        return
                    if secured:
                        log.append(("deliver", "response"))
                    fut.set_result(answer)
                if net["hold"]:
                    net["held"].append(arrive)
                    stats["answers kept by the network for a while"] += 1
                elif net["delay"]:
                    loop.call_later(net["delay"], arrive)
                    stats["answers that took time to arrive"] += 1
                else:
                    arrive()
            return types.SimpleNamespace(response=fut)

        async def shutdown(self):
            self.closed = True

    class FakeContext:
        @staticmethod
        async def create_server_context(site, bind=None):
            return FakeCtx(site)

        @staticmethod
        async def create_client_context():
            return FakeCtx(None)

    async def deliver_event(datagram):
        """the datagram arrives as a PUT at the controller's open CoAP endpoint (if there is one)"""
        live = [c for c in net["contexts"] if c.site is not None and not c.closed]
        res = live[-1].site._resources.get(()) if live else None
        if datagram is None or res is None:
            stats["event datagram with nowhere to go"] += 1
            return
        net["delivery"] += 1
        net["of_task"][asyncio.current_task()] = net["delivery"]
        log.append(("deliver", "event"))
        try:
            out = await res.render_put(coapc.Message(code=coapc.Code.PUT, payload=datagram))
            stats["event answered " + str(out.code)] += 1
        except Exception as e:  # noqa: BLE001
            stats["render_put raised " + type(e).__name__] += 1

    def deliver_event_task(datagram):
        """.. the way aiocoap does it: every incoming request is rendered in a task of its own; the tasks start in the
        order of arrival and nobody waits for one before the next datagram is handed over"""
        stats["event datagrams rendered in a task of their own"] += 1
        if any(not t.done() for t in net["etasks"]):
            stats["event datagrams arriving while an earlier one is still being rendered"] += 1
        net["etasks"].append(asyncio.ensure_future(deliver_event(datagram)))

    async def main():
        ctrl = mock.MagicMock()
        ctrl._char_cache = CharacteristicCacheMemory()
        pd = ident.pairing_data(hosts=("fd00::1",), port=5683, connection="CoAP")
        with mock.patch.object(coapc, "Context", FakeContext), mock.patch.object(coapc, "ChaCha20Poly1305", SpyAead):
            p = CoAPPairing(ctrl, pd)

            def listener(ev):
                dno = net["of_task"].get(asyncio.current_task(), net["delivery"])
                for val in ev.values():
                    v = val.get("value") if isinstance(val, dict) else None
                    if isinstance(v, (bytes, bytearray)) and len(v) == 4:
                        # a characteristic the controller's copy of the database does not have: the value as sent
                        v = struct.unpack("<l", bytes(v))[0]
                    if isinstance(v, int) and not isinstance(v, bool) and v >= CS_EV_BASE:
                        rec["heard"].append((dno, v - CS_EV_BASE))
            p.dispatcher_connect(listener)
            # set-up on a quiet network: connect (pair-verify, database) and the pairing's accessory model
            await p.list_accessories_and_characteristics()
            tasks = []
            desc = {"addr": "fd00::1", "port": 5683, "cn": 1, "n": 1}
            nput = [0]

            def start(name, fn):
                async def caller():
                    try:
                        await fn()
                        stats["op ok"] += 1
                    except asyncio.CancelledError:
                        stats["op cancelled"] += 1
                        raise
                    except BaseException as e:  # noqa: BLE001
                        nm = "disconnected" if isinstance(e, AccessoryDisconnectedError) else type(e).__name__
                        stats["op failed: " + nm] += 1
                tasks.append(asyncio.ensure_future(caller()))

            for ev in evs:
                k, arg = ev[0], (int(ev[1:]) if len(ev) > 1 else None)
                log.append(("token", ev))
                s = acc["cur"]
                if k == "g":
                    start(ev, lambda i=CS_CHARS[arg % 3]: p.get_characteristics([(1, i)]))
                elif k == "G":
                    start(ev, lambda: p.get_characteristics([(1, i) for i in CS_CHARS]))
                elif k == "p":
                    nput[0] += 1
                    start(ev, lambda i=CS_CHARS[arg % 3], v=nput[0]: p.put_characteristics([(1, i, v)]))
                elif k == "s":
                    start(ev, lambda i=CS_CHARS[arg % 3]: p.subscribe([(1, i)]))
                elif k == "S":
                    start(ev, lambda: p.subscribe([(1, i) for i in CS_CHARS]))
                elif k == "u":
                    start(ev, lambda i=CS_CHARS[arg % 3]: p.unsubscribe([(1, i)]))
                elif k == "L":
                    start(ev, p.list_accessories_and_characteristics)
                elif k == "P":
                    start(ev, lambda: p.async_populate_accessories_state(force_update=True))
                elif k == "l":
                    start(ev, p.list_pairings)
                elif k == "i":
                    start(ev, p.identify)
                elif k == "v":
                    start(ev, lambda: p.remove_pairing("another-controller"))
                elif k in "eE":
                    await deliver_event(emit(2 if k == "E" else 1))
                elif k == "w":
                    emit(1)
                elif k == "f":
                    deliver_event_task(emit(CS_EVENT_SHAPES[arg % len(CS_EVENT_SHAPES)]))
                elif k == "d":
                    await deliver_event(emit(CS_EVENT_SHAPES[arg % len(CS_EVENT_SHAPES)]))
                elif k == "b":
                    src = s["events"] if s else []
                    deliver_event_task(src[arg] if arg < len(src) else None)
                elif k == "U":
                    upgrade()
                elif k == "y":
                    net["delay"] = arg / 1000.0
                elif k == "H":
                    net["hold"] = True
                elif k == "h":
                    net["hold"] = False
                    held, net["held"] = net["held"], []
                    for arrive in held:
                        arrive()
                elif k == "t":
                    await asyncio.sleep(arg / 1000.0)
                elif k in "ra":
                    src = s["events"] if s else []
                    i = arg if k == "a" else len(src) - 1 - arg
                    await deliver_event(src[i] if 0 <= i < len(src) else None)
                elif k == "o":
                    src = rec["sessions"][s["n"] - 1]["events"] if s and s["n"] >= 1 else []
                    await deliver_event(src[arg] if arg < len(src) else None)
                elif k == "m":
                    b = bytearray(s["events"][-1]) if s and s["events"] else bytearray(20)
                    b[rnd.randrange(len(b))] ^= 1 << rnd.randrange(8)
                    await deliver_event(bytes(b))
                elif k == "x":
                    await deliver_event(rb(rnd.choice([16, 20, 40])))
                elif k in "RABXNOQ":
                    net["mod"] = ev
                elif k == "T":
                    await asyncio.sleep(17)
                elif k == "c":
                    live = [t for t in tasks if not t.done()]
                    if live:
                        live[0].cancel()
                elif k == "D":
                    if arg == 1:
                        desc["n"] += 1
                        desc["addr"] = "fd00::%x" % desc["n"]
                    elif arg == 2:
                        desc["port"] += 1
                    elif arg == 4:
                        desc["cn"] += 1
                    d = None if arg == 3 else HomeKitService(
                        name="acc", id=p.id, model="m", feature_flags=FeatureFlags(0), status_flags=StatusFlags(0), config_num=desc["cn"], state_num=1,
                        category=Categories(5), protocol_version="1.1", type="_hap._udp.local.", address=desc["addr"], addresses=[desc["addr"]], port=desc["port"])
                    p._async_description_update(d)
                elif k == "Z":
                    start(ev, p.connection.reconnect_soon)
                elif k == "V":
                    start(ev, lambda: p.connection.connect(pd))
                elif k == "W":
                    start(ev, lambda: p.connection.do_pair_verify(pd))
                elif k == "K":
                    start(ev, p.close)
                else:
                    raise ValueError(ev)
                await settle(loop)
            stats["event datagrams still being rendered when the history ended"] += sum(1 for t in net["etasks"] if not t.done())
            for t in tasks + net["etasks"]:
                t.cancel()
            await asyncio.gather(*(tasks + net["etasks"]), return_exceptions=True)
            await settle(loop)
    try:
        loop.run_until_complete(main())
    except Exception as e:  # noqa: BLE001
        rec["crash"] = f"{type(e).__name__}: {str(e)[:160]}"
    return rec


def oracle_coap_session(rec):
    """the property on the accessory's own log.  Per session key: (1) no nonce on two datagrams the controller put on the
    wire / sealed; (2) the response datagrams that authenticated are responses the accessory sealed under that key, each
    at most once, in increasing order; (3) the same for event datagrams; (4) the events that reached the listeners are
    events of the accessory, each datagram at most once, in the accessory's order.
    The two findings on record are told apart by their MECHANISM, visible at the cipher: an acceptance that needed the
    resynchronisation search (the same datagram failed to authenticate under another counter just before), a zeroing (the
    search ended with a try at counter 0), and their consequences (after a searched acceptance of number j the controller
    goes on with j+1, j+2, ..).  Anything else - a counter that moves without a search - is reported under coap-session/*."""
    out = []
    if rec["crash"]:
        out.append(("coap-session/unexpected-exception", f"the library raised while a session was set up on a quiet network or closed: {rec['crash']}"))
    sess = rec["sessions"]
    c2a = {x["c2a"]: x["n"] for x in sess}
    a2c = {x["a2c"]: x["n"] for x in sess}
    evt = {x["evt"]: x["n"] for x in sess}
    resp_of = {ct: (x["n"], i) for x in sess for i, ct in enumerate(x["responses"])}
    ev_of = {ct: (x["n"], i) for x in sess for i, ct in enumerate(x["events"])}
    wire_seen, seal_seen = {}, {}
    zeroed = {}      # session -> log positions where the search reached its last resort (counters zeroed)
    searched = {}    # session -> a searched acceptance happened
    hi, last, ehi = {}, {}, {}
    rtrace, etrace = {}, {}
    tries = []       # failed attempts since the last delivery
    done = set()
    for pos, e in enumerate(rec["log"]):
        if e[0] == "deliver":
            tries = []
        elif e[0] in ("wire", "seal"):
            n = e[1] if e[0] == "wire" else c2a.get(e[1])
            if n is None:
                continue  # not under a key the accessory agreed to: the keys themselves are C01's subject
            seen = wire_seen if e[0] == "wire" else seal_seen
            known = (n, e[2]) in seen and any(seen[(n, e[2])] < z <= pos for z in zeroed.get(n, []))
            sig = "coap/reset-reuses-send-nonce" if known else "coap-session/nonce-reuse"
            if (n, e[2]) in seen and sig not in done:
                done.add(sig)
                nonces = [x[2] for x in rec["log"][:pos + 1] if x[0] == e[0] and (x[1] if e[0] == "wire" else c2a.get(x[1])) == n]
                out.append((sig,
                            f"coap session {n}: the controller {'put two datagrams on the wire' if e[0] == 'wire' else 'sealed two messages'} with nonce {e[2]} under one key; nonces of that key in order: {nonces}"))
            seen[(n, e[2])] = pos
        elif e[0] == "try":
            n = a2c.get(e[1])
            if n is not None and e[2] == 0 and tries:
                zeroed.setdefault(n, []).append(pos)
            if n is not None:
                tries.append(e)  # (an event datagram rendered between the arrival of a response and its decryption is not part of the search)
        elif e[0] == "open":
            key, ct = e[1], e[3]
            if key in a2c:
                n = a2c[key]
                src = resp_of.get(ct)
                heur = bool(tries)
                zero_now = heur and e[2] == 0
                if zero_now:
                    zeroed.setdefault(n, []).append(pos)
                tr = rtrace.setdefault(n, [])
                tr.append("?" if src is None else ("r%d" % src[1] if src[0] == n else "s%d.r%d" % src))
                if src is None or src[0] != n:
                    if "runsealed" not in done:
                        done.add("runsealed")
                        out.append(("coap-session/accepts-unsealed-response", f"coap session {n}: a response datagram the accessory never sealed under this key authenticated; accepted so far {tr}"))
                    continue
                j = src[1]
                if heur:
                    sig = "coap/reset-accepts-replay" if zero_now else "coap/rewind-accepts-replay"
                elif searched.get(n) and j == last.get(n, -1) + 1:
                    # accepted at the first try, where the earlier search had left the counter
                    sig = "coap/reset-accepts-replay" if zeroed.get(n) else "coap/rewind-accepts-replay"
                else:
                    sig = "coap-session/response-accepted-twice-or-out-of-order"
                if j <= hi.get(n, -1) and sig not in done:
                    done.add(sig)
                    out.append((sig, f"coap session {n}: the accessory sealed responses 0..{len(sess[n]['responses']) - 1}; the controller accepted {tr} - response {j} was accepted "
                                     f"after response {hi[n]}{' (after searching for its counter)' if heur else ' at the first try'}"))
                if heur:
                    searched[n] = True
                hi[n] = max(hi.get(n, -1), j)
                last[n] = j
            elif key in evt:
                n = evt[key]
                src = ev_of.get(ct)
                tr = etrace.setdefault(n, [])
                tr.append("?" if src is None else ("e%d" % src[1] if src[0] == n else "s%d.e%d" % src))
                if src is None or src[0] != n:
                    if "eunsealed" not in done:
                        done.add("eunsealed")
                        out.append(("coap-session/accepts-unsealed-event", f"coap session {n}: an event datagram the accessory never sealed under this key authenticated; accepted so far {tr}"))
                    continue
                if src[1] <= ehi.get(n, -1) and "event" not in done:
                    done.add("event")
                    out.append(("coap-session/event-accepted-twice-or-out-of-order",
                                f"coap session {n}: the accessory sealed events 0..{len(sess[n]['events']) - 1}; the controller accepted {tr} - event {src[1]} was accepted after event {ehi[n]}"))
                ehi[n] = max(ehi.get(n, -1), src[1])
            tries = []
    # what reached the listeners: one datagram = one message, whatever the number of records in it
    serial_of = {sr: (x["n"], i) for x in sess for i, sr in enumerate(x["serials"])}
    msgs = []
    for dno, sr in rec["heard"]:
        if not msgs or msgs[-1] != (dno, sr):
            msgs.append((dno, sr))
    lhi = {}
    for dno, sr in msgs:
        src = serial_of.get(sr)
        if src is None:
            out.append(("coap-session/listener-heard-unsent-event", f"coap: the listeners received an event value {CS_EV_BASE + sr} the accessory never sent"))
            break
        if src[1] <= lhi.get(src[0], -1):
            out.append(("coap-session/listener-event-twice-or-out-of-order",
                        f"coap session {src[0]}: the accessory sent events {sess[src[0]]['serials']} (serial numbers); the listeners received {[s for _, s in msgs]} - "
                        f"event {sr} reached them after event {sess[src[0]]['serials'][lhi[src[0]]]}"))
            break
        lhi[src[0]] = src[1]
    return out


def account_coap_session(ctx, rec):
    d = ctx.dist
    d["coap-session:sessions (pair-verify completed at the accessory)"] += len(rec["sessions"])
    d["coap-session:histories with more than one session"] += len(rec["sessions"]) > 1
    d["coap-session:responses sealed by the accessory"] += sum(len(x["responses"]) for x in rec["sessions"])
    d["coap-session:events sealed by the accessory"] += sum(len(x["events"]) for x in rec["sessions"])
    d["coap-session:datagrams on the wire"] += sum(1 for e in rec["log"] if e[0] == "wire")
    d["coap-session:datagrams authenticated by the controller"] += sum(1 for e in rec["log"] if e[0] == "open")
    d["coap-session:failed authentications"] += sum(1 for e in rec["log"] if e[0] == "try")
    d["coap-session:events that reached listeners"] += len(rec["heard"])
    for k, v in rec["stats"].items():
        d["coap-session:" + k] += v


CS_SESSION_OPS = ["D0", "D1", "D2", "D3", "D4", "Z", "V", "W", "K", "s1", "S", "u0", "u1", "g1", "G", "p1", "L", "P", "l", "v", "i", "T"]
CS_PAIR_OPS = ["D0", "D1", "D3", "D4", "Z", "V", "W", "K", "s1", "u0", "g1", "p1", "L", "l", "T"]  # quick tier: pairs over these
CS_PROBES = ["a0", "a1", "r0", "e", "g0", "a0", "o0", "e", "s2", "a0", "a1", "o1", "e", "g2"]
CS_RESPONSE_PROBES = ["A0", "g1", "e", "g0", "A1", "g2"]  # on the unchanged library these meet the resynchronisation heuristics (findings on record)


def gen_coap_session(rng):
    """a random history: genuine traffic, session-level operations in between, the network's faults, replays of
    everything recorded so far; delivery goes on after a fault"""
    weighted = (["e"] * 6 + ["E", "w"] + ["g0", "g1", "g2", "G", "p0", "p1", "s0", "s1", "s2", "S", "u0", "u1", "L", "P", "l", "v", "i"] * 2
                + ["r0", "r1", "r2", "a0", "a0", "a1", "a2", "o0", "o1", "m", "x"] * 2
                + ["D0", "D0", "D1", "D1", "D2", "D3", "D4", "Z", "Z", "V", "W", "K"] * 2
                + ["R0", "R1", "R3", "A0", "A1", "B0", "X", "N", "O", "Q", "T", "T", "c"])
    evs = [rng.choice(["s0", "e", "g0", "e", "p1", "S"]) for _ in range(rng.randrange(2, 6))]
    for _ in range(rng.randrange(4, 26)):
        t = rng.choice(weighted)
        evs.append(t)
        if t[0] in "RABXNOQ":
            evs.append(rng.choice(["g0", "g1", "p2", "s1", "u0", "L", "l", "G"]))
        elif t[0] in "DZVWK" and rng.random() < 0.7:
            # what an observer of the session so far can do next: play the recorded datagrams again, from the first one on
            evs.extend(rng.choice([["a0"], ["a0", "a1"], ["g0"], ["a0", "g0"], ["e"], ["g1", "a0", "e"], ["o0", "a0"], ["A0", "g0"], ["s1", "a0"]]))
        elif t[0] in "su" and rng.random() < 0.5:
            evs.extend(rng.choice([["a0"], ["a0", "a1", "e"], ["r0"], ["r1", "e"]]))
    return evs


CS_FLUSH = ["h", "t400", "e", "a0", "g0", "f0", "t400"]  # every answer arrives, everything in flight ends; then more traffic and a replay


def coap_concurrent_histories(thorough=False):
    """event datagrams rendered the way aiocoap renders them - one task per datagram, started in the order of arrival,
    nobody waits - on a network where an answer takes time (y<ms>) or arrives only after the next events have (H .. h):
    every shape of first event (records for characteristics the controller knows / the accessory has gained since) x a
    second event x what else is in flight (nothing, a database read, populate, a read, a write, a pair-verify on the live
    connection, a configuration-number change) x the controller's copy of the database older than / as new as the
    accessory's; events spaced in time; waited-for deliveries in between"""
    pre = ["s0", "e", "g0"]
    shapes = range(len(CS_EVENT_SHAPES))
    seconds = (0, 1, 3, 6) if thorough else (0, 3)
    inflight = [[], ["L"], ["P"], ["g1"], ["p1"], ["W"], ["D4"], ["G", "s1"]] if thorough else [[], ["L"], ["g1"], ["W"]]
    out = []
    for mode in (["y20"], ["H"], ["y3"]):
        for fl in inflight:
            for a in shapes:
                for b in seconds:
                    out.append(pre + mode + fl + ["f%d" % a, "f%d" % b, "f0"] + CS_FLUSH)
    for mode in (["y20"], ["H"]):
        for a in shapes:
            # the controller has read the database after the accessory gained the characteristics: every iid is known
            out.append(pre + ["U", "L"] + mode + ["f%d" % a, "f0", "f3"] + CS_FLUSH)
            # the accessory gained them, the controller has not looked yet
            out.append(pre + ["U"] + mode + ["f%d" % a, "f0", "L", "f3", "f1"] + CS_FLUSH)
            # events spaced in time: the second arrives while whatever the first started is half way
            for gap in ("t1", "t25", "t45", "t70"):
                out.append(pre + ["y20", "f%d" % a, gap, "f0", gap, "f1", "f%d" % a] + CS_FLUSH)
            # a waited-for delivery and a replay behind an event that is still being rendered
            out.append(pre + mode + ["f%d" % a, "d0", "b1", "d%d" % a, "b1", "f0"] + CS_FLUSH)
            # the same datagram handed over twice at once (a duplicate on the network)
            out.append(pre + mode + ["w", "b1", "b1", "f%d" % a, "b2", "b2", "f0"] + CS_FLUSH)
            # the session ends / is replaced while events are being rendered
            for op in ("K", "Z", "D1", "V", "T"):
                out.append(pre + mode + ["f%d" % a, "f0", op, "f1", "g0", "f%d" % a] + CS_FLUSH)
    return out


def gen_coap_concurrent(rng):
    """a random history of the same kind: events in tasks of their own and waited for, replays at once, requests and
    database refreshes in flight, answers delayed / kept / lost, time passing in small steps, session-level operations"""
    nshape = len(CS_EVENT_SHAPES)
    weighted = (["f"] * 14 + ["d"] * 3 + ["b"] * 3 + ["t0", "t1", "t5", "t10", "t25", "t60", "t200"] * 2 + ["y0", "y3", "y20", "y20", "y150", "H", "H", "h", "h", "h"]
                + ["g0", "g1", "G", "p0", "p1", "s1", "S", "u0", "L", "L", "P", "P", "l", "U", "U", "D4"] + ["e", "E", "w", "r0", "a0", "m", "x"]
                + ["D0", "D1", "Z", "V", "W", "W", "K", "O", "N", "X", "Q", "T", "c"])
    evs = [rng.choice(["s0", "e", "g0", "S", "p1"]) for _ in range(rng.randrange(1, 4))] + [rng.choice(["y20", "H", "y3", "y150"])]
    for _ in range(rng.randrange(5, 24)):
        t = rng.choice(weighted)
        if t in ("f", "d"):
            t += str(rng.randrange(nshape) if rng.random() < 0.7 else 0)
        elif t == "b":
            t += str(rng.randrange(6))
        evs.append(t)
        if t[0] in "ONXQ":
            evs.append(rng.choice(["g0", "g1", "p2", "L", "G"]))
        elif t[0] in "KZTD" and rng.random() < 0.7:
            evs.extend(rng.choice([["g0"], ["L", "t100"], ["g1", "h", "t100"], ["p1"]]))  # a caller brings the session back: the events that follow have somewhere to go
    return evs + CS_FLUSH


def tok(ev):
    return ev[0] + (str(ev[1]) if len(ev) > 1 else "")


def analyse(ctx, transport, evs, obs, case, meta=None):
    """property oracle on the implementation's observations; returns list of (signature, text).
    The two CoAP findings on record are identified by their mechanism (meta: the acceptance needed the
    resynchronisation search / the counters were zeroed between the two uses of a nonce), so that any other way of
    reusing a nonce or accepting a replay is reported under its own signature."""
    meta = meta or {"heur": set(), "zeroed": []}
    sealed = [(i, int(o[1:])) for i, o in enumerate(obs) if o.startswith("s")]
    acc = [(i, int(o[1:])) for i, o in enumerate(obs) if o.startswith("a")]
    out = []
    seen = {}
    for i, n in sealed:
        if n in seen:
            sig = f"{transport}/nonce-reuse"
            if transport == "coap" and any(seen[n] < z <= i for z in meta["zeroed"]):
                sig = "coap/reset-reuses-send-nonce"
            out.append((sig, f"{transport}: nonces {[x for _, x in sealed]} sealed under one key"))
            break
        seen[n] = i
    hi = -1
    first = None
    for i, a in acc:
        if a <= hi or (transport != "coap" and a != hi + 1):
            sig = f"{transport}/accept-twice-or-out-of-order"
            if transport == "coap" and i in meta["heur"]:
                if a == 0 and hi >= 6:
                    sig = "coap/reset-accepts-replay"
                elif hi - a <= 5:
                    sig = "coap/rewind-accepts-replay"
            elif transport == "coap" and any(h < i for h in meta["heur"]):
                # accepted at the first try, but only because an earlier resynchronisation had moved the receive counter back
                sig = "coap/reset-accepts-replay" if any(z <= i for z in meta["zeroed"]) else "coap/rewind-accepts-replay"
            out.append((sig, f"{transport}: accepted {[x for _, x in acc]} - a message was accepted twice or out of order"))
            break
        hi = a
        first = a if first is None else first
    return out


def gen_seqs(ctx, alphabet, depth, pair=False):
    for d in range(1, depth + 1):
        for seq in itertools.product(alphabet, repeat=d):
            yield list(seq)


def run(ctx: Ctx, driver: Driver):
    rng = ctx.rng
    loop = simnet.VLoop()
    asyncio.set_event_loop(loop)
    depth = ctx.budget(4, 5)
    # ------------- IP
    cases, outs, lines = [], [], []
    alpha = [("s", 1), ("s", 2), ("g", 0), ("g", 1), ("g", 2), ("x",), ("a",)]
    seqs = list(gen_seqs(ctx, alpha, depth))
    for _ in range(ctx.budget(150, 3000)):
        seqs.append([rng.choice(alpha + [("g", rng.randrange(0, 8)), ("s", rng.randrange(0, 4))]) for _ in range(rng.randrange(5, 40))])
    for evs in seqs:
        obs = run_ip(loop, evs)
        ctx.evaluations += 1
        case = {"stream": "ip", "events": [tok(e) for e in evs]}
        ctx.nontrivial.add(("ip", tuple(case["events"])))
        for sig, text in analyse(ctx, "ip", evs, obs, case):
            ctx.violation(sig, text, case)
        cases.append(case)
        outs.append(" ".join(obs) or "-")
        lines.append("ctr.ipble " + " ".join(tok(e) for e in evs))
        for nm in run_ip.net.data_received_raised:
            ctx.dist["ip:data_received raised " + nm] += 1
    ctx.sample(cases[len(cases) // 2])
    compare_with_model(ctx, "ip", cases, outs, lines, driver)
    # ------------- IP, whole sessions end to end (real pair-verify, real HTTP layer and listeners; the network withholds, repeats, corrupts)
    pre = ["e", "d0", "q", "e", "E", "e"]
    sseqs = [pre + list(c) for d in range(1, ctx.budget(3, 4) + 1) for c in itertools.product(["d0", "d1", "d2", "d-1", "m0", "j", "D", "h0", "r"], repeat=d)]
    for _ in range(ctx.budget(400, 8000)):
        sseqs.append(gen_ip_session(rng))
    # pairing-level operations in the middle of a session (zeroconf updates, ensure_connection, subscribe / unsubscribe, database, reads)
    sseqs += ip_session_op_histories()
    for _ in range(ctx.budget(120, 3000)):
        sseqs.append(gen_ip_session_ops(rng))
    for k, evs in enumerate(sseqs):
        case = {"stream": "ip-session", "events": evs, "seed": ctx.seed * 100003 + k}
        rec = run_ip_session(loop, evs, seed=case["seed"])
        ctx.evaluations += 1
        ctx.nontrivial.add(("ip-session", tuple(evs)))
        account_ip_session(ctx, rec)
        ctx.dist["ip-session:histories with pairing-level operations"] += any(t[0] in "suLgnZz" for t in evs)
        for sig, text in oracle_ip_session(rec):
            ctx.violation(sig, text, case)
        if k == len(sseqs) - 1:
            ctx.sample(case)
    # ------------- BLE (request/response pairs)
    cases, outs, lines = [], [], []
    pairs = [[("s", n), r] for n in (1, 2) for r in (("g", 0), ("g", 1), ("g", 2), ("x",), ("a",))]
    bdepth = ctx.budget(3, 4)
    seqs = [sum(c, []) for d in range(1, bdepth + 1) for c in itertools.product(pairs, repeat=d)]
    for _ in range(ctx.budget(100, 2000)):
        seqs.append(sum((rng.choice(pairs + [[("s", rng.randrange(1, 4)), ("g", rng.randrange(0, 6))]]) for _ in range(rng.randrange(3, 15))), []))
    for evs in seqs:
        obs = run_ble(loop, evs)
        ctx.evaluations += 1
        case = {"stream": "ble", "events": [tok(e) for e in evs]}
        ctx.nontrivial.add(("ble", tuple(case["events"])))
        for sig, text in analyse(ctx, "ble", evs, obs, case):
            ctx.violation(sig, text, case)
        # the model keeps consuming events after the session died (they have no effect there); BLE stops issuing requests: compare the prefix up to the close
        cases.append(case)
        outs.append(" ".join(obs) or "-")
        # in the model a cancelled read is 'abort'
        lines.append("ctr.ipble " + " ".join(tok(e) for e in evs))
    compare_with_model(ctx, "ble", cases, outs, lines, driver, canon=canon_until_close)
    # ------------- BLE, responses of several fragments: every GATT read answered by the radio (next / replay / future / corrupt / cancelled)
    rseqs = [["s1/1", "n", "s1/2"] + list(c) + ["s1/2", "n", "n", "n"] for d in range(1, ctx.budget(3, 5) + 1) for c in itertools.product(["n", "p1", "f1", "m", "x", "a"], repeat=d)]
    rseqs += [["s2/3", "n"] + list(c) + ["s1/1", "n", "n"] for d in range(1, ctx.budget(3, 4) + 1) for c in itertools.product(["n", "p1", "f1", "x"], repeat=d)]
    for _ in range(ctx.budget(300, 6000)):
        rseqs.append(gen_ble_reads(rng))
    for k, evs in enumerate(rseqs):
        case = {"stream": "ble-reads", "events": evs, "seed": ctx.seed * 100003 + k}
        rec = run_ble_reads(loop, evs, seed=case["seed"])
        ctx.evaluations += 1
        ctx.nontrivial.add(("ble-reads", tuple(evs)))
        ctx.dist["ble-reads:fragments sealed by the accessory"] += rec["sealed"]
        ctx.dist["ble-reads:fragments accepted"] += len(rec["accepted"])
        for o in rec["outcomes"]:
            ctx.dist["ble-reads:request " + o] += 1
        for sig, text in oracle_ble_reads(rec):
            ctx.violation(sig, text, case)
    # ------------- BLE over several sessions (pair-verify, pair-resume, traffic, failures)
    cases, outs, lines = [], [], []
    sess = [[("Kf",), ("s", 1), ("g", 0), ("Kr",), ("s", 1), ("g", 0)], [("Kf",), ("s", 2), ("g", 0), ("s", 1), ("g", 1), ("Kr",), ("s", 1), ("o", 0), ("Kr",), ("s", 1), ("g", 0)],
            [("Kf",), ("Kr",), ("Kr",), ("s", 1), ("g", 0)], [("Kf",), ("s", 1), ("g", 0), ("Kp",), ("s", 1), ("g", 1), ("Kr",), ("s", 1), ("g", 0)],
            [("Kf",), ("s", 2), ("g", 0), ("Kp",), ("s", 1), ("o", 0)], [("Kf",), ("s", 1), ("x",), ("Kr",), ("s", 1), ("g", 0), ("Kf",), ("s", 1), ("g", 0)]]
    for k in range(ctx.budget(60, 1200)):
        sess.append(gen_sessions(rng, long_run=k % 5 == 0))
    nres = 0
    for k, evs in enumerate(sess):
        obs = run_ble_sessions(loop, evs, seed=ctx.seed * 100003 + k)
        nres += run_ble_sessions.acc["resumed"]
        ctx.evaluations += 1
        case = {"stream": "ble-sessions", "events": [tok(e) for e in evs], "seed": ctx.seed * 100003 + k}
        ctx.nontrivial.add(("ble-sessions", tuple(case["events"])))
        for sig, text in analyse_sessions(obs):
            ctx.violation(sig, text, case)
        cases.append(case)
        outs.append(" ".join(obs) or "-")
        lines.append("ctr.sess " + " ".join(t for t in (sess_tok(e) for e in evs) if t))
    # the same histories with the link lost / the pairing closed between exchanges (oracle only: the counter model has no such event)
    nended = 0
    for k in range(ctx.budget(60, 1200)):
        evs = gen_sessions(rng, long_run=k % 5 == 0)
        for _ in range(rng.randrange(1, 4)):
            at = rng.choice([j for j in range(1, len(evs) + 1) if j == len(evs) or evs[j][0] in ("s", "Kr", "Kf", "Kp")])
            evs.insert(at, (rng.choice(["X", "C"]),))
            if rng.random() < 0.5:
                evs[at + 1:at + 1] = [("s", 1), ("g", 0)]  # an exchange attempted with no session: nothing may be sent
        sd = ctx.seed * 100003 + 50000 + k
        obs = run_ble_sessions(loop, evs, seed=sd)
        nres += run_ble_sessions.acc["resumed"]
        nended += run_ble_sessions.acc.get("ended", 0)
        ctx.evaluations += 1
        case = {"stream": "ble-sessions", "events": [tok(e) for e in evs], "seed": sd}
        ctx.nontrivial.add(("ble-sessions", tuple(case["events"])))
        for sig, text in analyse_sessions(obs):
            ctx.violation(sig, text, case)
    ctx.dist["ble-sessions:link lost / pairing closed between exchanges"] = nended
    ctx.dist["ble-sessions:resumed"] = nres
    if nres == 0:
        ctx.violation("ble/resume-never-happened", "no session of the BLE multi-session stream was resumed: the stream does not exercise pair-resume", cases[0])
    compare_with_model(ctx, "ble-sessions", cases, outs, lines, driver, canon=canon_sessions)
    # ------------- CoAP
    cases, outs, lines = [], [], []
    calpha = [("q",), ("g", 0), ("g", 1), ("g", 2), ("x",)]
    seqs = list(gen_seqs(ctx, calpha, depth))
    # longer directed histories that leave the rewind window
    for n in (6, 7, 8, 12):
        base = sum(([("q",), ("g", j)] for j in range(n)), [])
        for tail in ([("g", 3)], [("g", 0)], [("g", 0), ("q",)], [("g", n + 2)], [("g", n + 2), ("g", n)], [("x",)], [("g", n - 1), ("q",), ("g", n)]):
            seqs.append(base + tail)
    for _ in range(ctx.budget(150, 3000)):
        seqs.append([rng.choice(calpha + [("g", rng.randrange(0, 12)), ("q",), ("q",)]) for _ in range(rng.randrange(5, 40))])
    for evs in seqs:
        obs = run_coap(loop, evs)
        ctx.evaluations += 1
        case = {"stream": "coap", "events": [tok(e) for e in evs]}
        ctx.nontrivial.add(("coap", tuple(case["events"])))
        for sig, text in analyse(ctx, "coap", evs, obs, case, run_coap.meta):
            ctx.violation(sig, text, case)
        cases.append(case)
        outs.append(" ".join(obs) or "-")
        lines.append("ctr.coap " + " ".join(tok(e) for e in evs))
    ctx.sample(cases[-9])
    compare_with_model(ctx, "coap", cases, outs, lines, driver, canon=canon_until_close)
    # ------------- CoAP events
    cases, outs, lines = [], [], []
    ealpha = [("g", 0), ("g", 1), ("g", 2), ("g", 3), ("x",)]
    for evs in list(gen_seqs(ctx, ealpha, depth)) + [[rng.choice(ealpha + [("g", rng.randrange(0, 10))]) for _ in range(rng.randrange(5, 40))] for _ in range(ctx.budget(100, 2000))]:
        obs = run_coap_events(evs)
        ctx.evaluations += 1
        case = {"stream": "coap-event", "events": [tok(e) for e in evs]}
        ctx.nontrivial.add(("coap-event", tuple(case["events"])))
        for sig, text in analyse(ctx, "coap-event", evs, obs, case):
            ctx.violation(sig, text, case)
        cases.append(case)
        outs.append(" ".join(obs) or "-")
        lines.append("ctr.event " + " ".join(tok(e) for e in evs))
        # the same history through the public event resource (render_put -> owner.event_received)
        robs = run_coap_event_resource(loop, evs)
        ctx.evaluations += 1
        rcase = {"stream": "coap-event-resource", "events": [tok(e) for e in evs]}
        ctx.nontrivial.add(("coap-event-resource", tuple(rcase["events"])))
        for k, v in run_coap_event_resource.stats.items():
            ctx.dist["coap-event-resource:" + k] += v
        for sig, text in analyse(ctx, "coap-event-resource", evs, robs, rcase):
            ctx.violation(sig, text, rcase)
    compare_with_model(ctx, "coap-event", cases, outs, lines, driver)
    # ------------- CoAP, whole sessions through CoAPPairing: every session-level operation (and every pair of them) in the
    # middle of a session that has exchanged requests and events, followed by replays of what was recorded and more traffic
    pre = ["s0", "e", "g0", "e", "p1"]
    cseqs = [pre + [a] + CS_PROBES for a in CS_SESSION_OPS]
    cseqs += [pre + list(c) + CS_PROBES for c in itertools.product(CS_SESSION_OPS if ctx.thorough() else CS_PAIR_OPS, repeat=2)]
    if ctx.thorough():
        cseqs += [pre + list(c) + CS_PROBES for c in itertools.product(CS_PAIR_OPS, repeat=3)]
    cseqs += [pre + [a, "g1", b, "e"] + CS_PROBES for a in ("O", "Q", "N", "X") for b in ("D1", "Z", "T", "W", "V", "c")]
    cseqs += [pre + [a] + CS_RESPONSE_PROBES for a in CS_SESSION_OPS]
    for _ in range(ctx.budget(400, 6000)):
        cseqs.append(gen_coap_session(rng))
    for k, evs in enumerate(cseqs):
        case = {"stream": "coap-session", "events": evs, "seed": ctx.seed * 100003 + k}
        rec = run_coap_session(loop, evs, seed=case["seed"])
        ctx.evaluations += 1
        ctx.nontrivial.add(("coap-session", tuple(evs)))
        account_coap_session(ctx, rec)
        for sig, text in oracle_coap_session(rec):
            ctx.violation(sig, text, dict(case, signature=sig))
        if k == len(cseqs) - 1:
            ctx.sample(case)
    # ------------- IP, the two byte streams of a session (drawn last: the streams above see the same random histories as before)
    # accessory -> controller under every segmentation into reads; controller -> accessory with requests of every size
    rseqs = ip_reads_cut_histories(ctx.thorough()) + ip_reads_request_histories(rng)
    for _ in range(ctx.budget(1500, 40000)):
        rseqs.append(gen_ip_reads(rng))

    async def reads_batch():
        with mock.patch.object(ipc, "ChaCha20Poly1305Encryptor", _ReadsSpyEnc), mock.patch.object(ipc, "ChaCha20Poly1305Decryptor", _ReadsSpyDec):
            for k, evs in enumerate(rseqs):
                case = {"stream": "ip-reads", "events": evs, "seed": ctx.seed * 100003 + k}
                rec = await _ip_reads_one(loop, evs, seed=case["seed"])
                ctx.evaluations += 1
                ctx.nontrivial.add(("ip-reads", tuple(evs)))
                account_ip_reads(ctx, rec, evs)
                for sig, text in oracle_ip_reads(rec):
                    ctx.violation(sig, text, case)
                if k == len(rseqs) - 1:
                    ctx.sample(case)
    loop.run_until_complete(reads_batch())
    # whole IP sessions (real IpPairing) on a network that coalesces what it delivers into single reads
    sseqs = ip_session_corked_histories()
    for _ in range(ctx.budget(150, 4000)):
        sseqs.append(gen_ip_session_corked(rng))
    for k, evs in enumerate(sseqs):
        case = {"stream": "ip-session", "events": evs, "seed": ctx.seed * 100003 + 70000 + k}
        rec = run_ip_session(loop, evs, seed=case["seed"])
        ctx.evaluations += 1
        ctx.nontrivial.add(("ip-session", tuple(evs)))
        account_ip_session(ctx, rec)
        ctx.dist["ip-session:histories with coalesced reads"] += 1
        for sig, text in oracle_ip_session(rec):
            ctx.violation(sig, text, case)
    # ------------- CoAP, whole sessions with the event datagrams rendered as concurrent tasks (as aiocoap does) on a network with latency
    cseqs = coap_concurrent_histories(ctx.thorough())
    for _ in range(ctx.budget(500, 6000)):
        cseqs.append(gen_coap_concurrent(rng))
    for k, evs in enumerate(cseqs):
        case = {"stream": "coap-session", "events": evs, "seed": ctx.seed * 100003 + 90000 + k}
        rec = run_coap_session(loop, evs, seed=case["seed"])
        ctx.evaluations += 1
        ctx.nontrivial.add(("coap-session", tuple(evs)))
        account_coap_session(ctx, rec)
        ctx.dist["coap-session:histories with event datagrams rendered concurrently / answers that take time"] += 1
        for sig, text in oracle_coap_session(rec):
            ctx.violation(sig, text, dict(case, signature=sig))
        if k == len(cseqs) - 1:
            ctx.sample(case)
    loop.close()


def sess_tok(e):
    """model token of a session event: any pair-verify is a re-key; a response of an earlier session authenticates under
    no counter of the current key set; a replayed handshake (`Kp`) is refused and changes nothing"""
    if e[0] == "Kp":
        return None
    if e[0] in ("Kr", "Kf"):
        return "K"
    if e[0] == "o":
        return "x"
    return tok(e)


def canon_sessions(s):
    """per key set: after its close nothing more is observed on the implementation (compare up to the close)"""
    out, dead = [], set()
    for t in s.split(" "):
        k = t.split(":")[0]
        if k in dead:
            continue
        out.append(t)
        if t.endswith(":c"):
            dead.add(k)
    return " ".join(out)


def canon_until_close(s):
    """after the session is closed the real code issues nothing more (new session = new keys); the model's machine keeps
    consuming the (now ineffective) events: compare up to and including the close"""
    t = s.split(" ")
    if "c" in t:
        t = t[:t.index("c") + 1]
    return " ".join(t)


def replay(ctx, driver, c):
    loop = simnet.VLoop()
    asyncio.set_event_loop(loop)
    try:
        if c["stream"] == "ip-session":
            v = oracle_ip_session(run_ip_session(loop, list(c["events"]), seed=c.get("seed", 0)))
            return v[0][1] if v else None
        if c["stream"] == "ip-reads":
            v = oracle_ip_reads(run_ip_reads(loop, list(c["events"]), seed=c.get("seed", 0)))
            return v[0][1] if v else None
        if c["stream"] == "coap-session":
            v = oracle_coap_session(run_coap_session(loop, list(c["events"]), seed=c.get("seed", 0)))
            v = [x for x in v if c.get("signature") in (None, x[0])]  # a history may also meet a finding on record: replay the violation it was filed for
            return v[0][1] if v else None
        if c["stream"] == "ble-reads":
            v = oracle_ble_reads(run_ble_reads(loop, list(c["events"]), seed=c.get("seed", 0)))
            return v[0][1] if v else None
        if c["stream"] == "ble-sessions":
            evs = [(e,) if e in ("Kr", "Kf", "Kp", "x", "a", "X", "C") else (e[0], int(e[1:])) for e in c["events"]]
            v = analyse_sessions(run_ble_sessions(loop, evs, seed=c.get("seed", 0)))
            return v[0][1] if v else None
        evs = [(e[0], int(e[1:])) if len(e) > 1 else (e,) for e in c["events"]]
        fn = {"ip": run_ip, "ble": run_ble, "coap": run_coap, "coap-event-resource": run_coap_event_resource}.get(c["stream"])
        obs = fn(loop, evs) if fn else run_coap_events(evs)
        v = analyse(ctx, c["stream"], evs, obs, c, run_coap.meta if c["stream"] == "coap" else None)
        return v[0][1] if v else None
    finally:
        loop.close()
