"""Independent reference peers used as scaffolding and as oracles: a HAP pair-verify / pair-setup accessory
written with `cryptography` and the RFC 5054 formulas written out - nothing from aiohomekit."""
from __future__ import annotations

import hashlib

from cryptography.hazmat.primitives import hashes, serialization
from cryptography.hazmat.primitives.asymmetric import ed25519, x25519
from cryptography.hazmat.primitives.ciphers.aead import ChaCha20Poly1305
from cryptography.hazmat.primitives.kdf.hkdf import HKDF

RAW = dict(encoding=serialization.Encoding.Raw, format=serialization.PublicFormat.Raw)
PRIV = dict(encoding=serialization.Encoding.Raw, format=serialization.PrivateFormat.Raw, encryption_algorithm=serialization.NoEncryption())


def hk(ikm, salt, info, n=32):
    return HKDF(algorithm=hashes.SHA512(), length=n, salt=salt, info=info).derive(ikm)


def tlv(items):
    out = b""
    for t, v in items:
        v = bytes(v)
        if not v:
            out += bytes([t, 0])
            continue
        for i in range(0, len(v), 255):
            c = v[i:i + 255]
            out += bytes([t, len(c)]) + c
    return out


def untlv(b):
    out = []
    i = 0
    while i < len(b):
        t, ln = b[i], b[i + 1]
        v = b[i + 2:i + 2 + ln]
        i += 2 + ln
        if out and out[-1][0] == t:
            out[-1] = (t, out[-1][1] + v)
        else:
            out.append((t, v))
    return dict(out)


N3072 = int(
    "FFFFFFFFFFFFFFFFC90FDAA22168C234C4C6628B80DC1CD129024E088A67CC74020BBEA63B139B22514A08798E3404DDEF9519B3CD3A431B302B0A6DF25F14374FE1356D6D51C245"
    "E485B576625E7EC6F44C42E9A637ED6B0BFF5CB6F406B7EDEE386BFB5A899FA5AE9F24117C4B1FE649286651ECE45B3DC2007CB8A163BF0598DA48361C55D39A69163FA8FD24CF5F"
    "83655D23DCA3AD961C62F356208552BB9ED529077096966D670C354E4ABC9804F1746C08CA18217C32905E462E36CE3BE39E772C180E86039B2783A2EC07A28FB5C55DF06F4C52C9"
    "DE2BCBF6955817183995497CEA956AE515D2261898FA051015728E5A8AAAC42DAD33170D04507A33A85521ABDF1CBA64ECFB850458DBEF0A8AEA71575D060C7DB3970F85A6E1E4C7"
    "ABF5AE8CDB0933D71E8C94E04A25619DCEE3D2261AD2EE6BF12FFA06D98A0864D87602733EC86A64521F2B18177B200CBBE117577A615D6C770988C0BAD946E208E24FA074E5AB31"
    "43DB5BFCE0FD108E4B82D120A93AD2CAFFFFFFFFFFFFFFFF", 16)
G = 5


def H(*p):
    return hashlib.sha512(b"".join(p)).digest()


def PAD(n):
    return n.to_bytes(384, "big")


def minb(n):
    return n.to_bytes(max((n.bit_length() + 7) // 8, 1), "big")


K_MULT = int.from_bytes(H(PAD(N3072), PAD(G)), "big")


class SrpServer:
    """RFC 5054 / HAP SRP-6a accessory side, formulas written out"""

    def __init__(self, pin: str, salt: bytes, b: int, user=b"Pair-Setup"):
        self.salt = salt
        self.I = user
        self.pin = pin.encode()
        self.x = int.from_bytes(H(salt, H(self.I + b":" + self.pin)), "big")
        self.v = pow(G, self.x, N3072)
        self.b = b
        self.B = (K_MULT * self.v + pow(G, b, N3072)) % N3072

    def on_A(self, A_b: bytes):
        self.A_b = A_b
        A = int.from_bytes(A_b, "big")
        self.A = A
        self.u = int.from_bytes(H(PAD(A), PAD(self.B)), "big")
        self.S = pow(A * pow(self.v, self.u, N3072), self.b, N3072)
        self.K = H(PAD(self.S))
        self.M1 = H(bytes(x ^ y for x, y in zip(H(minb(N3072)), H(minb(G)))), H(self.I), self.salt, PAD(A), PAD(self.B), self.K)
        self.M2 = H(PAD(A), self.M1, self.K)


class Identity:
    """long-term keys and identifiers of one accessory and one controller"""

    def __init__(self, rb, acc_id=b"12:34:56:00:01:0A", ios_id="ctrl-1"):
        self.acc_ltsk = ed25519.Ed25519PrivateKey.from_private_bytes(rb(32))
        self.acc_ltpk = self.acc_ltsk.public_key().public_bytes(**RAW)
        self.acc_id = acc_id
        self.ios_ltsk = ed25519.Ed25519PrivateKey.from_private_bytes(rb(32))
        self.ios_ltpk = self.ios_ltsk.public_key().public_bytes(**RAW)
        self.ios_id = ios_id

    def pairing_data(self, hosts=("10.0.0.1",), port=80, connection="IP"):
        return {"AccessoryPairingID": self.acc_id.decode(), "AccessoryLTPK": self.acc_ltpk.hex(), "iOSPairingId": self.ios_id,
                "iOSDeviceLTSK": self.ios_ltsk.private_bytes(**PRIV).hex(), "iOSDeviceLTPK": self.ios_ltpk.hex(),
                "AccessoryIP": hosts[0], "AccessoryIPs": list(hosts), "AccessoryPort": port, "Connection": connection}


class VerifyAccessory:
    """HAP 5.7 pair-verify, accessory side, for one exchange"""

    def __init__(self, ident: Identity, eph_sk: bytes):
        self.id = ident
        self.sk = x25519.X25519PrivateKey.from_private_bytes(eph_sk)
        self.pk = self.sk.public_key().public_bytes(**RAW)

    def m2(self, ios_pk: bytes, pid=None, ltsk=None, permute=False):
        self.ios_pk = ios_pk
        self.shared = self.sk.exchange(x25519.X25519PublicKey.from_public_bytes(ios_pk))
        pid = self.id.acc_id if pid is None else pid
        info = (self.pk + pid + ios_pk) if not permute else (ios_pk + pid + self.pk)
        sig = (ltsk or self.id.acc_ltsk).sign(info)
        self.vkey = hk(self.shared, b"Pair-Verify-Encrypt-Salt", b"Pair-Verify-Encrypt-Info")
        self.sub = tlv([(1, pid), (10, sig)])
        enc = ChaCha20Poly1305(self.vkey).encrypt(b"\0\0\0\0PV-Msg02", self.sub, b"")
        return [(6, b"\x02"), (3, self.pk), (5, enc)]

    def check_m3(self, m3_items) -> bool:
        try:
            d = dict((int(k), bytes(v)) for k, v in m3_items)
            if d.get(6) != b"\x03":
                return False
            sub = untlv(ChaCha20Poly1305(self.vkey).decrypt(b"\0\0\0\0PV-Msg03", d[5], b""))
            if sub[1] != self.id.ios_id.encode():
                return False
            ed25519.Ed25519PublicKey.from_public_bytes(self.id.ios_ltpk).verify(sub[10], self.ios_pk + sub[1] + self.pk)
            return True
        except Exception:  # noqa: BLE001
            return False

    def keys(self):
        return (hk(self.shared, b"Control-Salt", b"Control-Write-Encryption-Key"), hk(self.shared, b"Control-Salt", b"Control-Read-Encryption-Key"),
                hk(self.shared, b"Event-Salt", b"Event-Read-Encryption-Key"))
