"""C08 - every request gets its own response or a prompt disconnection error."""
from __future__ import annotations

import asyncio
import itertools
import json
import random
from unittest.mock import MagicMock

from harness import simnet
from harness.acc import Accessory, http
from harness.common import Ctx, Driver, compare_with_model, load_corpus, shrink_list
from harness.rcsim import settle, now_units, UNIT

from aiohomekit.characteristic_cache import CharacteristicCacheMemory
from aiohomekit.controller.ip.connection import HomeKitConnection
from aiohomekit.controller.ip.pairing import IpPairing
from aiohomekit.exceptions import AccessoryDisconnectedError

ID = "C08"
RULE = ("interleavings on one connection under virtual time, EXHAUSTIVE to depth 5 (quick) / 6 (thorough) over {request issued by caller k, response delivered whole, response/event first part then remainder, "
        "EVENT delivered, caller cancelled, advance 12 s / 31 s (30 s timer), peer closes, local close(), unsolicited response, reconnect} with up to 3 concurrent callers and concurrency limit 1..3, on a plain "
        "HomeKitConnection and on the secure session of an IpPairing (real pair-verify, encrypted frames split at arbitrary byte offsets); plus random histories to length 40; "
        "plus 'waiting' histories (1..3 requests wait while events / partial messages / answers to older requests / unsolicited answers arrive every 5..30 s, past the 30 s timeout) with the per-request deadline oracle "
        "(issue instant from the accessory-side log: completed or failed no later than 30 s after it was written, and nothing written stays pending beyond that); "
        "plus stream 'atomic' (implementation-level oracle only: the model's events are single actions): histories of GROUPS of 1..3 actions executed back-to-back inside ONE event-loop iteration, no library task running in between "
        "(cancel-then-read, timeout-fires-then-read, read-then-cancel, read-then-timeout, two or three messages in one read, partial read, close/reset/local close/issue next to any of them) - all ordered pairs of 15 actions after 6 prefixes, "
        "sampled triples, random group histories - with limit 1..3, on the plain connection and the secure session, requests entered through get/get_json/put/put_json/post/post_json and pipelined through protocol.send_bytes, "
        "every response carrying a body of its own so that each completion is attributed from the accessory's own send log; "
        "plus stream 'multi' (implementation-level oracle only): 2..4 connection objects ALIVE AT ONCE in one loop - plain HomeKitConnections (limit 1..3) and IpPairings with real secure sessions, to 1..4 accessories "
        "(two objects may share an accessory: an object given up without close() next to its replacement), staggered lifetimes, transports that report their loss 5 s / 40 s after close() so that a reconnection "
        "creates the new protocol of a connection while the old one still holds unanswered requests - with requests (get/get_json/put/put_json/post/post_json/request/protocol.send_bytes), responses, events, partial reads, "
        "cancellations, timeouts, peer close/reset, local close, reconnect interleaved ACROSS the connections, also inside one loop iteration: every ordered pair (action on A, action on B) after 4 prefixes in 6 object "
        "configurations, replaced-protocol schedules, random histories, and single-connection histories of the older generators run one after the other in one world, earlier objects left as they ended; judged per request and "
        "per object from the accessories' own logs (body tags name accessory, connection and response; event ids are global): own response or prompt disconnection error, request arrives on its own object's connection, "
        "events reach their own object's listeners only. "
        "non-trivial = distinct (variant, limit, history) / (objects, history)")
TRUSTED = ["harness/simnet.py: virtual-time loop, in-memory transport (no data is delivered after close(); an exception escaping data_received closes the transport, as asyncio's selector transport does)",
           "harness/acc.py scaffold accessory for the secure variant", "asyncio.Semaphore wakes waiters in FIFO order",
           "atomic stream: asyncio runs the timers due within its clock resolution (1 ns) in one loop iteration, in deadline order (used to place harness actions 2^-32 s before / after a request's 30 s timer)",
           "multi stream: harness-side network with one accessory per host and one port per controller-side object (MultiNet); a 'slow-close' transport stops delivering at close() and calls connection_lost 5 s / 40 s later "
           "(asyncio reports the loss only once the write buffer is drained)"]
ASSUMPTIONS = ["one model event = one harness action followed by running the loop to quiescence at that virtual instant (stream 'atomic' lifts this: the actions of a group share one loop iteration; it has no model counterpart and is judged by the oracle alone)",
               "atomic stream: responses are attributed by byte-stream position - the response whose last byte is read answers the oldest request the accessory has received and not answered at that moment; "
               "callers enter the secure session only once it is up (no request is issued in the loop iteration that starts a reconnection)",
               "reconnection is refused by the simulated network until the explicit `reconnect` event (C10/C11 cover the supervisor); a request issued while down fails at once",
               "multi stream: as for 'atomic'; in addition nothing is issued or sent on a secure connection whose pair-verify has not finished from the accessory's point of view "
               "(with a slow-close transport the pair-verify of the reconnection waits behind the request that still holds the connection's semaphore on the old protocol)",
               "a message whose first part has arrived is completed before the accessory sends anything else (byte-stream order)",
               "HTTP parsing of the delivered bytes is C07's model; here the unit is the complete message"]
EXPLANATION = ("Lean theorems C08_* over the FIFO attribution automaton HapVerif.ReqConn (in-order answers complete exactly the oldest request, events never complete a request, every abandonment fails all outstanding requests at that instant "
               "and ignores late data, each request completes at most once and within 30 s of being sent) + differential tie on per-request outcomes, accessory-side request log, event log, virtual completion times; "
               "implementation-level oracles from the harness's own bookkeeping: own-response-or-disconnection per request (distinct bodies), abandonment on failure, nothing pending after a loss, 30 s deadline per written request, "
               "a completely read answer/event reaches its waiting request/the listeners")


class Owner:
    """owner stub for the plain connection"""

    def __init__(self):
        self.name = "plain"
        self.description = None
        self.events = []

    async def connection_made(self, secure):
        return None

    def event_received(self, parsed):
        for c in parsed.get("characteristics", []):
            self.events.append(c["iid"])


def event_bytes(e):
    body = json.dumps({"characteristics": [{"aid": 1, "iid": e, "value": 1}]}).encode()
    return http(body, b"application/hap+json", kind=b"EVENT/1.0")


def resp_bytes(p, pad=0):
    """the response carrying payload p; `pad` bytes of an extra header make it span several encrypted blocks"""
    ctype = b"application/hap+json" + (b"\r\nX-Pad: " + b"p" * pad if pad else b"")
    return http(str(p).encode(), ctype)


async def scenario(loop, variant, limit, events, seed):
    rnd = random.Random(seed)
    net = simnet.Net(loop)
    lines = []
    problems = []
    sent = []      # (id, epoch) as the accessory receives them
    done = []      # (id, outcome, units)
    evlog = []
    tasks = {}
    harness_cancelled = set()
    pending_rest = {}
    prefed = {}
    sent_at = {}       # id -> virtual instant (absolute units) at which the accessory received the request = it was written
    completed_ids = set()
    overdue_reported = set()
    if variant == "plain":
        owner = Owner()
        bufs = {}

        def on_write(t, data):
            bufs[t] = bufs.get(t, b"") + data
            while b"\r\n\r\n" in bufs[t]:
                head, _, rest = bufs[t].partition(b"\r\n\r\n")
                bufs[t] = rest
                target = head.split(b" ")[1].decode()
                sent.append((int(target.rsplit("/", 1)[1]), t.index))
                sent_at.setdefault(int(target.rsplit("/", 1)[1]), now_units(loop))
        net.handler = on_write
        cur = lambda: (net.open[-1] if net.open else None)  # noqa: E731
        frame = lambda t, b: b  # noqa: E731
    else:
        acc = Accessory(loop, net, lambda n: bytes(rnd.randrange(256) for _ in range(n)))

        def responder(s, method, target, body):
            sent.append((int(target.rsplit("/", 1)[1]), s.t.index))
            sent_at.setdefault(int(target.rsplit("/", 1)[1]), now_units(loop))
            return None
        acc.responder = responder
        cur = lambda: (net.open[-1] if net.open else None)  # noqa: E731
        frame = lambda t, b: acc.frame(acc.sessions[t], b)  # noqa: E731
    with net.patched():
        if variant == "plain":
            conn = HomeKitConnection(owner, ["10.0.0.1"], 80, concurrency_limit=limit)
            events_seen = owner.events
        else:
            ctrl = MagicMock()
            ctrl._char_cache = CharacteristicCacheMemory()
            p = IpPairing(ctrl, acc.pairing_data(["10.0.0.1"]))
            conn = p.connection
            events_seen = []

            def listener(ev):
                for (aid, iid) in ev:
                    events_seen.append(iid)
            p.dispatcher_connect(listener)
        await conn.ensure_connection()
        await settle(loop)
        t0 = now_units(loop)
        nowu = lambda: now_units(loop) - t0  # noqa: E731
        net.connect_outcomes = ["refused"] * 100000
        n_sent = n_ev = n_lost = 0
        lost_log = [x for x in net.log if x[0] == "lost"]
        for ei, ev in enumerate(events):
            f = ev.split(":")
            k = f[0]
            t = cur()
            if k == "q":
                rid = int(f[1])

                async def caller(rid=rid):
                    try:
                        r = await conn.get(f"/r/{rid}")
                        out = "ok:" + r.body.decode()
                    except AccessoryDisconnectedError:
                        out = "disc"
                    except asyncio.CancelledError:
                        done.append((rid, "canc", nowu()))
                        raise
                    except BaseException as e:  # noqa: BLE001
                        out = "other:" + type(e).__name__
                    done.append((rid, out, nowu()))
                tasks[rid] = asyncio.ensure_future(caller())
            elif k in ("r", "e"):
                if t is not None and t in prefed:
                    # the head of this message already travelled with the previous one: the rest arrives now
                    t.feed(prefed.pop(t))
                elif t is not None and not pending_rest:
                    pad = rnd.choice([0, 0, 0, 0, 1100, 2300]) if k == "r" else 0
                    data = frame(t, resp_bytes(int(f[1]), pad) if k == "r" else event_bytes(int(f[1])))
                    nxt = events[ei + 1].split(":") if ei + 1 < len(events) else [""]
                    tail = b""
                    if nxt[0] in ("r", "e") and rnd.random() < 0.5:
                        # TCP coalesces: the read that completes this message also carries the first bytes (at least the
                        # two length bytes of an encrypted block, sometimes far more) of the message the accessory sends next
                        d2 = frame(t, resp_bytes(int(nxt[1])) if nxt[0] == "r" else event_bytes(int(nxt[1])))
                        c2 = rnd.choice([2, 3, 17, len(d2) // 2, len(d2) - 1])
                        tail, prefed[t] = d2[:c2], d2[c2:]
                    cuts = sorted(rnd.sample(range(1, len(data)), min(rnd.choice([0, 0, 1, 2, 5]), len(data) - 1)))
                    prev = 0
                    for c in cuts:
                        t.feed(data[prev:c])
                        prev = c
                    t.feed(data[prev:] + tail)
            elif k in ("hr", "he"):
                if t is not None and not pending_rest:
                    data = frame(t, resp_bytes(int(f[1])) if k == "hr" else event_bytes(int(f[1])))
                    c = rnd.randrange(1, len(data))
                    t.feed(data[:c])
                    pending_rest[t] = data[c:]
            elif k == "rest":
                if t is not None and t in pending_rest:
                    t.feed(pending_rest.pop(t))
            elif k == "c":
                tk = tasks.get(int(f[1]))
                if tk is not None and not tk.done():
                    harness_cancelled.add(int(f[1]))
                    tk.cancel()
            elif k == "a":
                await asyncio.sleep(int(f[1]) / UNIT)
            elif k == "pc":
                if t is not None:
                    t.peer_close()
            elif k == "pr":
                # abortive loss (TCP RST / network error): connection_lost() gets the OS error, no EOF before it
                if t is not None:
                    t.peer_reset()
            elif k == "lc":
                # the connection is dropped locally (HomeKitConnection.close()): same abandonment as a peer close
                if conn.is_connected:
                    await conn.close()
            elif k == "R":
                if not conn.is_connected:
                    net.connect_outcomes = ["ok"] + ["refused"] * 100000
                    conn.reconnect_soon()
            else:
                raise ValueError(ev)
            await settle(loop)
            # a closed transport forgets its half-delivered message
            for tr in list(pending_rest):
                if tr.closing or tr.closed:
                    del pending_rest[tr]
            parts = [f"S{i}@{ep}" for i, ep in sent[n_sent:]]
            n_sent = len(sent)
            fin = sorted(done)
            del done[:]
            parts += [f"D{i}={o}@{tm}" for i, o, tm in fin]
            parts += [f"E{e}" for e in events_seen[n_ev:]]
            n_ev = len(events_seen)
            ll = [x for x in net.log if x[0] == "lost"]
            parts += [f"L{idx}@{int(round(tm * UNIT)) - t0}" for _, idx, tm in ll[n_lost:]]
            n_lost = len(ll)
            proto = conn.protocol
            infl = len(proto.result_cbs) if proto is not None else 0
            waitn = len([w for w in (conn._concurrency_limit._waiters or []) if not w.done()])
            lines.append(" ".join(parts) + " | " + f"up={1 if conn.is_connected else 0} infl={infl} wait={waitn} t={nowu()}")
            for i, o, tm in fin:
                if o.startswith("other"):
                    problems.append(("wrong-error", f"request {i} failed with {o[6:]} instead of a disconnection error"))
                if o == "canc" and i not in harness_cancelled:
                    problems.append(("wrong-error", f"request {i} got CancelledError although its caller was not cancelled"))
                # the property's own bound: a request is completed (response or disconnection error) no later than 30 s of
                # virtual time after it was written, whatever else arrives on the connection meanwhile
                completed_ids.add(i)
                if i in sent_at and (tm + t0) - sent_at[i] > 30 * UNIT + 1:
                    problems.append(("late-completion", f"request {i} was written at t={(sent_at[i] - t0) / UNIT:.3f}s and completed ({o.split(':')[0]}) only at t={tm / UNIT:.3f}s, "
                                                        f"{(tm + t0 - sent_at[i]) / UNIT:.3f}s later: the 30 s bound on an unanswered request does not hold"))
            for i, w in sent_at.items():
                if i not in completed_ids and i not in overdue_reported and now_units(loop) - w > 30 * UNIT + 1:
                    overdue_reported.add(i)
                    problems.append(("hung-past-deadline", f"after {ev} at t={nowu() / UNIT:.3f}s: request {i}, written at t={(w - t0) / UNIT:.3f}s, has neither completed nor failed "
                                                           f"{(now_units(loop) - w) / UNIT:.3f}s later (up={1 if net.open else 0}): it hangs past its 30 s timeout"))
            if net.errors:
                errs = [e for e in net.errors if not (e[0] == "data_received" and e[1] == "IndexError")]
                if errs:
                    problems.append(("callback-raised", f"after {ev}: {errs[0]}"))
                del net.errors[:]
        # property oracle, stated directly on the observed history (independent of the model)
        problems += oracle(events, lines, limit)
        for tk in tasks.values():
            tk.cancel()
        await conn.close()
        await settle(loop)
    return lines, problems


def oracle(events, lines, limit):
    """the property stated directly on the observed history (independent of the model).
    The accessory answers in order: each response it sends is for the oldest request it has received on that
    connection and not yet answered.  So: a request completes with a response only if that response was the one
    sent for it; a request that fails while in flight takes its connection with it; a lost connection leaves nothing
    pending; nothing completes twice."""
    probs = []
    acc_queue = []      # the accessory's view: ids received on the current connection, unanswered
    in_flight = set()   # ids the accessory has received and the controller has not completed
    completed = {}
    issued = set()
    half = None
    conn_up = True
    for ev, line in zip(events, lines):
        obs, _, summ = line.partition(" | ")
        toks = obs.split()
        f = ev.split(":")
        lost = [t for t in toks if t.startswith("L")]
        answered = None
        up_before = conn_up
        sends_response = False
        if up_before:
            if f[0] == "r" and half is None:
                sends_response = True
            elif f[0] in ("hr", "he") and half is None:
                half = "resp" if f[0] == "hr" else "event"
            elif f[0] == "rest":
                sends_response = half == "resp"
                half = None
        if sends_response and acc_queue:
            answered = acc_queue[0]
        for t in toks:
            if t.startswith("D"):
                rid, rest_ = t[1:].split("=", 1)
                rid = int(rid)
                out = rest_.split("@")[0]
                if rid in completed:
                    probs.append(("completed-twice", f"request {rid} completed twice ({completed[rid]} then {out})"))
                completed[rid] = out
                if out.startswith("ok:"):
                    if not sends_response:
                        probs.append(("completed-without-response", f"request {rid} completed with a response during event {ev}"))
                    elif answered is not None and rid != answered:
                        probs.append(("misattributed", f"the response the accessory sent for request {answered} completed request {rid}"))
                elif rid in in_flight and not lost:
                    probs.append(("not-abandoned", f"request {rid} failed ({out}) while in flight during {ev} but its connection was not abandoned: a late response would be taken for a later request"))
                in_flight.discard(rid)
        if answered is not None and acc_queue and not lost:
            acc_queue.pop(0)
        # requests the accessory received during this event (a response may let a waiting caller send)
        for t in toks:
            if t.startswith("S"):
                rid = int(t[1:].split("@")[0])
                acc_queue.append(rid)
                if rid not in completed:
                    in_flight.add(rid)
        if lost:
            pend = sorted(i for i in in_flight)
            if pend:
                probs.append(("hung-after-loss", f"connection lost during {ev} but request(s) {pend} neither completed nor failed at that instant"))
            acc_queue = []
            in_flight = set()
            half = None
        if f[0] == "q":
            issued.add(int(f[1]))
        conn_up = "up=1" in summ
        if not conn_up:
            half = None
            hanging = sorted(i for i in issued if i not in completed)
            if hanging:
                probs.append(("hung-after-loss", f"after {ev}: connection down but request(s) {hanging} still pending"))
    return probs


def model_line(limit, events):
    # a local close is the model's abandonment event too
    return f"rq.run {limit} " + " ".join("pc" if e in ("lc", "pr") else e for e in events)


def gen_exhaustive(depth, rng, sample=None):
    alpha = ["q", "r", "e:7", "hr", "he:9", "rest", "c", f"a:{12 * UNIT}", f"a:{31 * UNIT}", "pc", "lc", "pr", "R"]
    seqs = []
    for d in range(1, depth + 1):
        for seq in itertools.product(alpha, repeat=d):
            if seq[0] not in ("q", "r", "e:7", "pc", "lc", "pr", "hr", "he:9"):
                continue
            if sum(1 for x in seq if x == "q") > 3:
                continue
            seqs.append(seq)
    if sample is not None and len(seqs) > sample:
        seqs = rng.sample(seqs, sample)
    out = []
    for seq in seqs:
        evs = []
        rid = 0
        payload = 100
        for a in seq:
            if a == "q":
                rid += 1
                evs.append(f"q:{rid}")
            elif a == "r":
                payload += 1
                evs.append(f"r:{payload}")
            elif a == "hr":
                payload += 1
                evs.append(f"hr:{payload}")
            elif a == "c":
                evs.append(f"c:{rng.randrange(1, max(rid, 1) + 1)}")
            else:
                evs.append(a)
        out.append(evs)
    return out


def gen_random(rng):
    evs = []
    rid = 0
    payload = 100
    for _ in range(rng.randrange(5, 40)):
        r = rng.random()
        if r < 0.3:
            rid += 1
            evs.append(f"q:{rid}")
        elif r < 0.5:
            payload += 1
            evs.append(f"r:{payload}")
        elif r < 0.58:
            evs.append(f"e:{rng.randrange(1, 50)}")
        elif r < 0.64:
            payload += 1
            evs.append(rng.choice([f"hr:{payload}", f"he:{rng.randrange(1, 50)}"]))
        elif r < 0.72:
            evs.append("rest")
        elif r < 0.78 and rid:
            evs.append(f"c:{rng.randrange(1, rid + 1)}")
        elif r < 0.9:
            evs.append("a:%d" % rng.choice([UNIT, 12 * UNIT, 29 * UNIT, 31 * UNIT, 18 * UNIT + 2]))
        elif r < 0.92:
            evs.append("pc")
        elif r < 0.94:
            evs.append("pr")
        elif r < 0.96:
            evs.append("lc")
        else:
            evs.append("R")
    return evs


def gen_waiting(rng):
    """requests that wait for their answer while OTHER traffic keeps arriving on the connection: events, partial
    messages, answers to older requests, unsolicited answers - every few seconds, past the 30 s timeout"""
    evs = []
    rid = 0
    payload = 100
    for _ in range(rng.randrange(1, 4)):
        rid += 1
        evs.append(f"q:{rid}")
        if rng.random() < 0.3:
            evs.append("a:%d" % (rng.choice([1, 5, 12]) * UNIT))
    for _ in range(rng.randrange(1, 7)):
        evs.append("a:%d" % rng.choice([5 * UNIT, 12 * UNIT, 20 * UNIT, 25 * UNIT, 29 * UNIT, 30 * UNIT - 1, 18 * UNIT + 2]))
        r = rng.random()
        if r < 0.5:
            evs.append(f"e:{rng.randrange(1, 50)}")
        elif r < 0.62:
            evs.append(f"he:{rng.randrange(1, 50)}")
        elif r < 0.74:
            payload += 1
            evs.append(f"hr:{payload}")
        elif r < 0.84:
            evs.append("rest")
        elif r < 0.92:
            payload += 1
            evs.append(f"r:{payload}")
        else:
            rid += 1
            evs.append(f"q:{rid}")
    evs.append("a:%d" % rng.choice([UNIT, 12 * UNIT, 31 * UNIT]))
    if rng.random() < 0.5:
        rid += 1
        evs.append(f"q:{rid}")
        payload += 1
        evs.append(f"r:{payload}")
        evs.append(f"a:{31 * UNIT}")
    return evs


def run_cases(ctx: Ctx, driver: Driver, cases):
    loop = simnet.VLoop()
    asyncio.set_event_loop(loop)
    impl, lines, cs = [], [], []
    minimized = {}
    try:
        for i, (variant, limit, events, kind) in enumerate(cases):
            seed = ctx.seed * 7919 + i
            if isinstance(kind, tuple):
                kind, seed = kind
            try:
                out, problems = loop.run_until_complete(scenario(loop, variant, limit, events, seed))
                pend = [t for t in asyncio.all_tasks(loop) if not t.done()]
                for t in pend:
                    t.cancel()
                if pend:
                    loop.run_until_complete(asyncio.gather(*pend, return_exceptions=True))
            except RuntimeError as e:
                if "does not settle" not in str(e):
                    raise
                # the library keeps re-scheduling itself with no delay: an observation about the library, not a harness crash
                ctx.evaluations += 1
                ctx.violation(f"{variant}/loop-never-idle", "the event loop never became idle at one virtual instant (10000 iterations): callbacks keep re-scheduling themselves with no delay, "
                              f"no request can complete or fail and virtual time cannot advance [history: {' '.join(events)}]",
                              {"stream": "reqconn", "variant": variant, "limit": limit, "events": events, "seed": seed})
                try:
                    for t in asyncio.all_tasks(loop):
                        t.cancel()
                    loop.close()
                except Exception:  # noqa: BLE001
                    pass
                loop = simnet.VLoop()
                asyncio.set_event_loop(loop)
                continue
            ctx.evaluations += 1
            ctx.nontrivial.add((variant, limit, tuple(events)))
            ctx.dist[f"variant:{variant}"] += 1
            ctx.dist[f"limit:{limit}"] += 1
            ctx.dist["kind:" + kind] += 1
            for e in events:
                ctx.dist["ev:" + e.split(":")[0]] += 1
            case = {"stream": "reqconn", "variant": variant, "limit": limit, "events": events, "seed": seed}
            seen = set()
            for sig, text in problems:
                if sig not in seen:
                    seen.add(sig)
                    vcase = dict(case)
                    if sig not in minimized and len(minimized) < 4:
                        def still(evs, sig=sig):
                            _, pr = loop.run_until_complete(scenario(loop, variant, limit, evs, vcase["seed"]))
                            pend2 = [t for t in asyncio.all_tasks(loop) if not t.done()]
                            for t in pend2:
                                t.cancel()
                            if pend2:
                                loop.run_until_complete(asyncio.gather(*pend2, return_exceptions=True))
                            return any(s2 == sig for s2, _ in pr)
                        small = shrink_list(events, still)
                        minimized[sig] = small
                        vcase["minimized_events"] = small
                        text = text + f" [minimal history: {' '.join(small)}]"
                    ctx.violation(f"{variant}/{sig}", text, vcase)
            for ln in out:
                for tok in ln.split(" | ")[0].split():
                    if tok.startswith("D"):
                        ctx.dist["outcome:" + tok.split("=")[1].split("@")[0].split(":")[0]] += 1
                    elif tok.startswith("L"):
                        ctx.dist["abandoned"] += 1
            cs.append(case)
            impl.append(" ; ".join(x.strip() for x in out))
            lines.append(model_line(limit, events))
    finally:
        asyncio.set_event_loop(None)
        loop.close()
    if cs:
        ctx.sample(cs[min(11, len(cs) - 1)])
        ctx.sample(cs[-1])
    compare_with_model(ctx, "reqconn", cs, impl, lines, driver, canon=lambda s: " ; ".join(x.strip() for x in s.split(" ; ")))


def cases_for(ctx):
    rng = ctx.rng
    cases = []
    for c in load_corpus(ID):
        if c.get("stream", "reqconn") == "reqconn":
            cases.append((c["variant"], c["limit"], c["events"], "corpus"))
    ex = gen_exhaustive(ctx.budget(4, 5), rng, sample=ctx.budget(2500, 40000))
    for i, evs in enumerate(ex):
        if i % 4 == 3:
            cases.append(("secure", 1, evs, "exhaustive"))
        else:
            cases.append(("plain", 1 + (i % 3), evs, "exhaustive"))
    for i in range(ctx.budget(500, 10000)):
        evs = gen_random(rng)
        if i % 3 == 0:
            cases.append(("secure", 1, evs, "random"))
        else:
            cases.append(("plain", rng.randrange(1, 4), evs, "random"))
    for i in range(ctx.budget(300, 6000)):
        evs = gen_waiting(rng)
        if i % 3 == 0:
            cases.append(("secure", 1, evs, "waiting"))
        else:
            cases.append(("plain", rng.randrange(1, 4), evs, "waiting"))
    return cases


# ----------------------------------------------------------------------------------------------------------------
# stream "atomic": histories of GROUPS of actions.  The actions of one group happen back-to-back, inside ONE event-loop
# iteration (no task of the library gets to run in between); the loop runs to quiescence only after the group.  asyncio
# promises nothing about the order of the callbacks of one iteration, so "caller cancelled, then the answer is read, then
# the cancelled caller's task cleans up" is a schedule like any other.  The model's events are single actions, so this
# stream is judged by the implementation-level oracle alone, from the harness's own bookkeeping: which request the
# accessory has received on which connection and when, and which (distinct) answer it sent for which request.
#
# primitives (a group is 'x+y+z'):
#   q:<id>:<m>   a caller issues request <id> through entry point <m>: g get, j get_json, p put, P put_json, o post,
#                O post_json, s protocol.send_bytes (pipelines past the connection's semaphore)
#   d:<msgs>[/]  ONE read delivers (whatever is still unread, then) the messages <msgs>, each r = a response with a body of
#                its own (it answers the oldest request the accessory has received and not answered when its last byte is
#                read; unsolicited if there is none), e = an EVENT; with '/' only a proper prefix of those bytes is read
#                now (sometimes the read is split in several)
#   rest         the unread remainder is read
#   c:<id>       caller <id> is cancelled
#   T:<id>       the 30 s timeout of request <id> fires: the actions before it in the group run in the same loop
#                iteration just before the timer callback, those after it just after (and before the requester's task)
#   a:<units>    virtual time advances (on its own)
#   pc pr lc R   peer closes / connection reset / local close() is started / reconnection allowed and requested
EPS = 2.0 ** -32   # < asyncio's clock resolution (1 ns): timers this close to one another are run in one loop iteration, in deadline order
ENTRY = {"g": "get", "j": "get_json", "p": "put", "P": "put_json", "o": "post", "O": "post_json", "s": "protocol.send_bytes"}


def resp_tagged(tag, pad=0):
    ctype = b"application/hap+json" + (b"\r\nX-Pad: " + b"p" * pad if pad else b"")
    return http(json.dumps({"tag": tag}).encode(), ctype)


def tag_of(r):
    try:
        if isinstance(r, dict):
            return str(r["tag"])
        return str(json.loads(bytes(r.body).decode())["tag"])
    except Exception:  # noqa: BLE001
        return "?"


class HarnessBug(Exception):
    """a malformed history: the harness's own fault, never reported as a finding"""


async def scenario_atomic(loop, variant, limit, groups, seed):
    rnd = random.Random(seed)
    net = simnet.Net(loop)
    problems = []
    trace = []
    stats = {}
    tasks = {}
    outcome = {}             # id -> (outcome, units)
    judged = set()
    reported = set()
    cancelled_by_harness = set()
    issued = []
    written = {}             # id -> (transport, loop.time()) when the accessory received the request
    acc_queue = {}           # transport -> ids received and not yet answered (the accessory answers in order)
    sent_for = {}            # id -> tag of the answer the accessory sent for it
    tag_owner = {}           # tag -> id (None: unsolicited)
    unread = {}              # transport -> bytes the accessory has sent and the controller has not read yet
    marks = {}               # transport -> [(end offset, kind, ident)] of messages not completely read yet
    gen_off = {}
    fed_off = {}
    expect_ok = {}           # id -> instant at which its own answer was completely read while it was still waiting
    ev_sent = []
    ev_definite = set()
    events_seen = []
    harness_errors = []
    group_state = {}
    counter = itertools.count(1)

    def bump(k):
        stats[k] = stats.get(k, 0) + 1

    def units(x=None):
        return int(round((loop.time() if x is None else x) * UNIT))

    def received(t, target):
        try:
            rid = int(target.rsplit("/", 1)[1])
        except ValueError:
            return
        acc_queue.setdefault(t, []).append(rid)
        written.setdefault(rid, (t, loop.time()))

    if variant == "plain":
        owner = Owner()
        bufs = {}

        def on_write(t, data):
            bufs[t] = bufs.get(t, b"") + data
            while True:
                b = bufs[t]
                i = b.find(b"\r\n\r\n")
                if i < 0:
                    return
                head = b[:i].split(b"\r\n")
                cl = 0
                for h in head[1:]:
                    if h.lower().startswith(b"content-length:"):
                        cl = int(h.split(b":")[1])
                if len(b) < i + 4 + cl:
                    return
                bufs[t] = b[i + 4 + cl:]
                received(t, head[0].split(b" ")[1].decode())
        net.handler = on_write
        frame = lambda t, b: b  # noqa: E731
    else:
        acc = Accessory(loop, net, lambda n: bytes(rnd.randrange(256) for _ in range(n)))

        def responder(s, method, target, body):
            received(s.t, target)
            return None
        acc.responder = responder
        frame = lambda t, b: acc.frame(acc.sessions[t], b)  # noqa: E731
    cur = lambda: (net.open[-1] if net.open else None)  # noqa: E731

    with net.patched():
        if variant == "plain":
            conn = HomeKitConnection(owner, ["10.0.0.1"], 80, concurrency_limit=limit)

            def plain_event(parsed):
                for c in parsed.get("characteristics", []):
                    events_seen.append(c["iid"])
            owner.event_received = plain_event
        else:
            ctrl = MagicMock()
            ctrl._char_cache = CharacteristicCacheMemory()
            p = IpPairing(ctrl, acc.pairing_data(["10.0.0.1"]))
            conn = p.connection

            def listener(ev):
                for (aid, iid) in ev:
                    events_seen.append(iid)
            p.dispatcher_connect(listener)
        await conn.ensure_connection()
        await settle(loop)
        t0 = units()
        net.connect_outcomes = ["refused"] * 100000

        async def caller(rid, m):
            target = f"/r/{rid}"
            try:
                if m == "g":
                    r = await conn.get(target)
                elif m == "j":
                    r = await conn.get_json(target)
                elif m == "p":
                    r = await conn.put(target, b'{"v":%d}' % rid)
                elif m == "P":
                    r = await conn.put_json(target, {"v": rid})
                elif m == "o":
                    r = await conn.post(target, b"\x01\x01\x00")
                elif m == "O":
                    r = await conn.post_json(target, {"v": rid})
                else:
                    proto = conn.protocol
                    if proto is None:
                        # nothing to send on: the caller's own view of "not connected"
                        raise AccessoryDisconnectedError("no protocol")
                    r = await proto.send_bytes(f"GET {target} HTTP/1.1\r\nHost: 10.0.0.1\r\n\r\n".encode())
                out = "ok:" + tag_of(r)
            except AccessoryDisconnectedError:
                out = "disc"
            except asyncio.CancelledError:
                outcome.setdefault(rid, ("canc", units()))
                raise
            except BaseException as e:  # noqa: BLE001
                out = "other:" + type(e).__name__
            outcome.setdefault(rid, (out, units()))

        def timed_out(rid):
            """the 30 s timer of this request has fired (loop.time() stands still within one loop iteration, so the timers
            of the iteration a T-composite runs in are tracked by the composite itself)"""
            w = written[rid][1]
            return loop.time() - w >= 30 or (group_state.get("fired_at") is not None and w + 30 <= group_state["fired_at"])

        def gave_up_not_cleaned():
            """a request whose future was completed by a cancellation or the timeout while its task has not run yet"""
            for rid, (t, w) in written.items():
                tk = tasks.get(rid)
                if tk is not None and not tk.done() and rid not in outcome and not (t.closing or t.closed):
                    if rid in cancelled_by_harness or timed_out(rid):
                        return True
            return False

        def feed(t, chunk):
            if t.closing or t.closed or not chunk:
                return
            if gave_up_not_cleaned():
                bump("read-after-give-up-before-cleanup")
            n_exc = len(net.data_received_raised)
            # requests that are waiting for their answer right now, with a margin before their timeout
            waiting = {rid for rid in written if rid not in outcome and rid not in cancelled_by_harness and tasks.get(rid) is not None and not tasks[rid].done()
                       and loop.time() - written[rid][1] < 30 - 4 * EPS and not timed_out(rid) and written[rid][0] is t}
            t.feed(chunk)
            raised = len(net.data_received_raised) > n_exc
            fed_off[t] = fed_off.get(t, 0) + len(chunk)
            rest_ = []
            for end, kind, ident in marks.get(t, []):
                if end > fed_off[t]:
                    rest_.append((end, kind, ident))
                elif kind == "e":
                    if not raised:  # (a read that made data_received raise takes the connection down: nothing is demanded of it)
                        ev_definite.add(ident)
                else:
                    # the accessory answers in order, and responses are matched by their position in the byte stream: the
                    # response whose last byte is read now is the answer to the oldest request the accessory has received
                    # and not answered - or an unsolicited one if there is none
                    q = acc_queue.get(t) or []
                    if q:
                        rid = q.pop(0)
                        sent_for[rid] = ident
                        tag_owner[ident] = rid
                        if rid in waiting and not raised:
                            expect_ok[rid] = units()
                    else:
                        tag_owner[ident] = None
                        bump("unsolicited")
            marks[t] = rest_

        def make(t, kind):
            n = next(counter)
            if kind == "r":
                tag = f"B{n}"
                raw = resp_tagged(tag, rnd.choice([0, 0, 0, 0, 1100, 2300]))
                ident = tag
            else:
                iid = 1000 + n
                ev_sent.append(iid)
                raw = event_bytes(iid)
                ident = iid
            data = frame(t, raw)
            gen_off[t] = gen_off.get(t, 0) + len(data)
            marks.setdefault(t, []).append((gen_off[t], kind, ident))
            return data

        def act(prim):
            f = prim.split(":")
            k = f[0]
            t = cur()
            if k == "q":
                rid = int(f[1])
                if rid in tasks:
                    return
                if variant == "secure" and group_state.get("reconnecting"):
                    # the session is being set up in this very loop iteration: callers use a connection once it is up
                    # (IpPairing gates every request on is_connected), not in the middle of its pair-verify
                    bump("noop")
                    return
                issued.append(rid)
                tasks[rid] = asyncio.ensure_future(caller(rid, f[2] if len(f) > 2 else "g"))
            elif k == "d":
                if t is None or t.closing or t.closed:
                    bump("noop")
                    return
                spec = f[1]
                partial = spec.endswith("/")
                data = unread.pop(t, b"")
                for ch in spec.rstrip("/"):
                    data += make(t, ch)
                if partial and len(data) > 1:
                    c = rnd.randrange(1, len(data))
                    unread[t] = data[c:]
                    data = data[:c]
                cuts = sorted(rnd.sample(range(1, len(data)), min(rnd.choice([0, 0, 0, 1, 3]), len(data) - 1)))
                prev = 0
                for c in cuts + [len(data)]:
                    feed(t, data[prev:c])
                    prev = c
            elif k == "rest":
                if t is not None and t in unread:
                    feed(t, unread.pop(t))
            elif k == "c":
                tk = tasks.get(int(f[1]))
                if tk is not None and not tk.done():
                    cancelled_by_harness.add(int(f[1]))
                    tk.cancel()
            elif k == "pc":
                if t is not None:
                    t.peer_close()
            elif k == "pr":
                if t is not None:
                    t.peer_reset()
            elif k == "lc":
                tasks[("lc", len(tasks))] = asyncio.ensure_future(conn.close())
            elif k == "R":
                if not net.open:
                    net.connect_outcomes = ["ok"] + ["refused"] * 100000
                    group_state["reconnecting"] = True
                    conn.reconnect_soon()
            elif k == "T":
                pass  # its timer is not pending (any more): nothing to fire
            else:
                raise HarnessBug(prim)

        def act_all(prims):
            try:
                for x in prims:
                    act(x)
            except Exception as e:  # noqa: BLE001
                harness_errors.append(e)

        def flag(sig, key, text):
            if (sig, key) not in reported:
                reported.add((sig, key))
                problems.append((sig, text))

        def judge(label):
            now = loop.time()
            for rid, tk in tasks.items():
                if isinstance(rid, int) and tk.done() and rid not in outcome:
                    # the task ended without running the caller's body (cancelled before its first step)
                    outcome[rid] = ("canc" if tk.cancelled() else "other:task-ended", units())
            obs = []
            for rid in issued:
                if rid in outcome and rid not in judged:
                    judged.add(rid)
                    out, tm = outcome[rid]
                    obs.append(f"D{rid}={out}@{(tm - t0) / UNIT:g}s")
                    bump("outcome:" + out.split(":")[0])
                    if out.startswith("other"):
                        flag("wrong-error", rid, f"request {rid} failed with {out[6:]} instead of a disconnection error")
                    if out == "canc" and rid not in cancelled_by_harness:
                        flag("wrong-error", rid, f"request {rid} got CancelledError although its caller was not cancelled")
                    if out.startswith("ok:"):
                        tag = out[3:]
                        if sent_for.get(rid) != tag:
                            if tag_owner.get(tag) is not None:
                                flag("misattributed", rid, f"request {rid} completed with the response the accessory sent for request {tag_owner[tag]} (body tag {tag}); "
                                     + (f"its own response was {sent_for[rid]}" if rid in sent_for else "the accessory had not answered it"))
                            elif tag in tag_owner:
                                flag("completed-with-unsolicited", rid, f"request {rid} completed with an unsolicited response (body tag {tag}) the accessory sent when it had no unanswered request")
                            else:
                                flag("completed-with-unknown", rid, f"request {rid} completed with a response the accessory never sent (body tag {tag!r})")
                    if rid in written:
                        t, w = written[rid]
                        if tm - units(w) > 30 * UNIT + 1:
                            flag("late-completion", rid, f"request {rid} was written at t={(units(w) - t0) / UNIT:.3f}s and completed ({out.split(':')[0]}) only {(tm - units(w)) / UNIT:.3f}s later: "
                                 "the 30 s bound on an unanswered request does not hold")
                        if not out.startswith("ok:") and not t.closed:
                            flag("not-abandoned", rid, f"request {rid} failed ({out}) while in flight but its connection was not abandoned: a late response would be taken for a later request")
                    if rid in expect_ok and not out.startswith("ok:") and rid not in cancelled_by_harness:
                        flag("response-lost", rid, f"the response for request {rid} was read completely at t={(expect_ok[rid] - t0) / UNIT:.3f}s while the request was waiting for it, but the request ended with {out}")
            for rid in issued:
                if rid in outcome:
                    continue
                if rid in written:
                    t, w = written[rid]
                    if t.closed:
                        flag("hung-after-loss", rid, f"after {label}: the connection request {rid} was sent on is gone but the request neither completed nor failed")
                    if units(now) - units(w) > 30 * UNIT + 1:
                        flag("hung-past-deadline", rid, f"after {label} at t={(units(now) - t0) / UNIT:.3f}s: request {rid}, written at t={(units(w) - t0) / UNIT:.3f}s, has neither completed nor failed "
                             f"{(units(now) - units(w)) / UNIT:.3f}s later: it hangs past its 30 s timeout")
                if rid in expect_ok:
                    flag("response-lost", rid, f"after {label}: the response for request {rid} was read completely while the request was waiting for it, but the request is still pending")
                if not net.open:
                    flag("hung-after-loss", rid, f"after {label}: no connection is up but request {rid} is still pending")
            # events: every EVENT read completely on a live connection reaches the listener exactly once, in order
            pos = {e: i for i, e in enumerate(ev_sent)}
            if len(set(events_seen)) != len(events_seen):
                flag("event-duplicated", 0, f"after {label}: listener saw {events_seen}")
            if any(e not in pos for e in events_seen):
                flag("event-unknown", 0, f"after {label}: listener saw an event the accessory never sent: {events_seen} vs {ev_sent}")
            elif [pos[e] for e in events_seen] != sorted(pos[e] for e in events_seen):
                flag("event-reordered", 0, f"after {label}: listener saw {events_seen}, sent {ev_sent}")
            missing = [e for e in ev_sent if e in ev_definite and e not in events_seen]
            if missing:
                flag("event-lost", missing[0], f"after {label}: EVENT(s) {missing} were read completely on a live connection but no listener saw them")
            if net.errors:
                errs = [e for e in net.errors if not (e[0] == "data_received" and e[1] == "IndexError")]
                if errs:
                    flag("callback-raised", str(errs[0]), f"after {label}: {errs[0]}")
                del net.errors[:]
            trace.append(f"{label} -> " + (" ".join(obs) or "-") + f" | up={1 if net.open else 0} t={(units(now) - t0) / UNIT:g}s")

        for g in groups:
            prims = g.split("+")
            group_state.clear()
            ti = None
            for i, x in enumerate(prims):
                if x.startswith("T:"):
                    rid = int(x.split(":")[1])
                    if rid in written and rid not in outcome and written[rid][1] + 30 > loop.time() + 2 * EPS:
                        ti = i
                        break
            if ti is not None:
                target = written[int(prims[ti].split(":")[1])][1] + 30
                pre, post = prims[:ti], prims[ti + 1:]
                fin = loop.create_future()
                if pre:
                    loop.call_at(target - EPS, act_all, pre)

                def after(post=post, target=target):
                    group_state["fired_at"] = target
                    act_all(post)
                loop.call_at(target + EPS, after)
                loop.call_at(target + EPS, lambda fin=fin: fin.done() or fin.set_result(None))
                bump("timeout-composite")
                await fin
            else:
                run = []
                for x in prims:
                    if x.startswith("a:"):
                        act_all(run)
                        run = []
                        await asyncio.sleep(int(x.split(":")[1]) / UNIT)
                    else:
                        run.append(x)
                act_all(run)
            if harness_errors:
                raise harness_errors[0]
            await settle(loop)
            for tr in list(unread):
                if tr.closing or tr.closed:
                    del unread[tr]
            judge(g)
        for tk in tasks.values():
            tk.cancel()
        await conn.close()
        await settle(loop)
    return trace, problems, stats


ATOMS = ["q", "d:r", "d:rr", "d:e", "d:er", "d:re", "d:r/", "rest", "c:1", "c:2", "T:1", "T:2", "pc", "pr", "lc"]
TAIL = ["d:r", "q", "d:r", f"a:{31 * UNIT}"]


def number_requests(groups, rng, start=0, methods="gjpPoOssss"):
    """give every bare 'q' its id and an entry point"""
    rid = start
    out = []
    for g in groups:
        prims = []
        for x in g.split("+"):
            if x == "q":
                rid += 1
                x = f"q:{rid}:{rng.choice(methods)}"
            prims.append(x)
        out.append("+".join(prims))
    return out


def prefixes():
    return [["q", "q"], ["q+q+q"], ["q", f"a:{12 * UNIT}", "q"], ["q", "q", "d:r/"], ["q", f"a:{29 * UNIT}", "q", "q"], ["q", "q+d:e/"]]


def gen_atomic_pairs():
    for pi, pre in enumerate(prefixes()):
        for x in ATOMS:
            for y in ATOMS:
                if x == y and x in ("pc", "pr", "lc", "rest"):
                    continue
                yield pi, pre + [x + "+" + y] + TAIL


def gen_atomic_triples(rng, n):
    pres = prefixes()
    for _ in range(n):
        pre = rng.choice(pres)
        yield pre + ["+".join(rng.choice(ATOMS) for _ in range(3))] + TAIL


def gen_atomic_random(rng):
    groups = []
    nq = 0
    for _ in range(rng.randrange(1, 4)):
        groups.append("q")
        nq += 1
        if rng.random() < 0.25:
            groups.append("a:%d" % rng.choice([UNIT, 12 * UNIT, 29 * UNIT]))
    singles = ["q", "q", "d:r", "d:r", "d:e", "d:rr", "d:re", "d:er", "d:r/", "d:e/", "d:rer", "rest", "c", "c", "T", "T", "pc", "pr", "lc", "R"]
    for _ in range(rng.randrange(2, 12)):
        r = rng.random()
        if r < 0.2:
            groups.append("a:%d" % rng.choice([UNIT, 5 * UNIT, 12 * UNIT, 20 * UNIT, 29 * UNIT, 31 * UNIT, 18 * UNIT + 2]))
            continue
        k = 1 if r < 0.5 else (2 if r < 0.85 else 3)
        prims = []
        for _ in range(k):
            x = rng.choice(singles)
            if x == "q":
                nq += 1
            elif x in ("c", "T"):
                x = f"{x}:{rng.randrange(1, nq + 1)}"
            prims.append(x)
        groups.append("+".join(prims))
    return groups


def atomic_cases(ctx, rng, factor=1):
    cases = []
    for c in load_corpus(ID):
        if c.get("stream") == "atomic":
            cases.append((c["variant"], c["limit"], c["groups"], "corpus"))
    pairs = list(gen_atomic_pairs())
    # the pairs after the plainest prefix (two requests issued one after the other) are always run in full, with the two
    # requests in flight together (limit 2..3, or pipelined through send_bytes on a limit-1 connection); the rest is sampled
    core = [g for pi, g in pairs if pi == 0]
    for i, g in enumerate(core):
        cases.append(("plain", 2 + i % 2, number_requests(g, rng, methods="gjpPoOs"), "pairs"))
    others = [g for pi, g in pairs if pi != 0]
    take = ctx.budget(500 * factor, len(others) * 3)
    for i in range(take):
        g = others[i % len(others)] if take >= len(others) else rng.choice(others)
        if i % 5 == 4:
            cases.append(("secure", 1, number_requests(g, rng, methods="ssssgjP"), "pairs"))
        else:
            cases.append(("plain", 1 + i % 3, number_requests(g, rng), "pairs"))
    for i, g in enumerate(gen_atomic_triples(rng, ctx.budget(300 * factor, 12000))):
        if i % 5 == 4:
            cases.append(("secure", 1, number_requests(g, rng, methods="ssssgjP"), "triples"))
        else:
            cases.append(("plain", 1 + i % 3, number_requests(g, rng), "triples"))
    for i in range(ctx.budget(400 * factor, 10000)):
        g = gen_atomic_random(rng)
        if i % 5 == 4:
            cases.append(("secure", 1, number_requests(g, rng, methods="ssssgjP"), "random"))
        else:
            cases.append(("plain", rng.randrange(1, 4), number_requests(g, rng), "random"))
    return cases


def run_atomic(ctx: Ctx, cases, base=1000003):
    holder = [simnet.VLoop()]
    asyncio.set_event_loop(holder[0])
    minimized = {}
    found = []

    def once(variant, limit, groups, seed):
        loop = holder[0]
        try:
            out = loop.run_until_complete(scenario_atomic(loop, variant, limit, groups, seed))
            pend = [t for t in asyncio.all_tasks(loop) if not t.done()]
            for t in pend:
                t.cancel()
            if pend:
                loop.run_until_complete(asyncio.gather(*pend, return_exceptions=True))
            return out
        except HarnessBug:
            raise
        except Exception as e:  # noqa: BLE001
            # the scenario itself could not be run to its end (the loop never became idle at some virtual instant, or a
            # library call made from the harness raised): that is an observation about the library, not a harness crash.
            # The loop may hold self-re-arming callbacks: continue on a fresh one.
            try:
                for t in asyncio.all_tasks(loop):
                    t.cancel()
                loop.close()
            except Exception:  # noqa: BLE001
                pass
            holder[0] = simnet.VLoop()
            asyncio.set_event_loop(holder[0])
            if isinstance(e, RuntimeError) and "does not settle" in str(e):
                return [], [("loop-never-idle", "the event loop never became idle at one virtual instant (10000 iterations): callbacks keep re-scheduling themselves with no delay, "
                                                "no request can complete or fail and virtual time cannot advance")], {}
            return [], [("scenario-raised", f"{type(e).__name__}: {e} escaped from a library call made by the harness")], {}
    try:
        for i, (variant, limit, groups, kind) in enumerate(cases):
            seed = ctx.seed * 7919 + base + i if not isinstance(kind, tuple) else kind[1]
            kind = kind if not isinstance(kind, tuple) else kind[0]
            trace, problems, stats = once(variant, limit, groups, seed)
            ctx.evaluations += 1
            ctx.nontrivial.add(("atomic", variant, limit, tuple(groups)))
            ctx.dist[f"atomic:variant:{variant}"] += 1
            ctx.dist[f"atomic:limit:{limit}"] += 1
            ctx.dist["atomic:kind:" + kind] += 1
            for g in groups:
                prims = g.split("+")
                ctx.dist["atomic:group-size:%d" % len(prims)] += 1
                for x in prims:
                    f = x.split(":")
                    ctx.dist["atomic:act:" + f[0]] += 1
                    if f[0] == "q":
                        ctx.dist["atomic:entry:" + ENTRY.get(f[2] if len(f) > 2 else "g", "?")] += 1
            for k, v in stats.items():
                ctx.dist["atomic:" + k] += v
            case = {"stream": "atomic", "variant": variant, "limit": limit, "groups": groups, "seed": seed}
            if i in (7, len(cases) - 1):
                ctx.sample(case)
            seen = set()
            for sig, text in problems:
                if sig in seen:
                    continue
                seen.add(sig)
                vcase = dict(case)
                if sig not in minimized and len(minimized) < 4:
                    def still(gs, sig=sig):
                        _, pr, _ = once(variant, limit, gs, seed)
                        return any(s2 == sig for s2, _ in pr)
                    small = shrink_list(groups, still)
                    minimized[sig] = small
                    vcase["minimized_groups"] = small
                    text = text + f" [minimal history: {' ; '.join(small)}]"
                text = text + f" [limit={limit}; history: {' ; '.join(trace)}]"
                found.append(sig)
                ctx.violation(f"{variant}/atomic/{sig}", text, vcase)
    finally:
        asyncio.set_event_loop(None)
        holder[0].close()
    return found


# ----------------------------------------------------------------------------------------------------------------
# stream "multi": SEVERAL connection objects alive in one event loop at the same time.  The property is stated per request:
# it holds for every request of every connection of the process, whatever the other connections are doing.  The world has
# one accessory per host (its own send log, its own body tags and event ids) and 2..4 controller-side objects (plain
# HomeKitConnection with concurrency limit 1..3, or IpPairing with a real secure session), each told apart on the network by
# the port it dials (harness bookkeeping only).  Two objects may talk to the SAME accessory (a connection object that was
# given up by its user - not closed, its callers still waiting, its transport still delivering - next to its replacement),
# and an object's transport may take a while to report its loss after close() (unflushed write buffer: asyncio delivers
# connection_lost only once the buffer is drained) so that a reconnection creates the NEW protocol of a connection while
# the OLD one still holds unanswered requests.  Judged exactly like stream 'atomic', per request and per object, from the
# accessories' own logs.  No model counterpart (the model has one connection).
#
# a history is a list of groups 'x+y+z' (the actions of a group share ONE loop iteration); an action is `a:<units>` (virtual
# time advances) or `<object>.<primitive>` with the primitives of stream 'atomic' (q:<id>:<m>, d:<msgs>[/], rest, c:<id>,
# pc, pr, lc, R) and
#   new          the object is created and connects (objects that are never created do not exist: staggered lifetimes)
#   c / C        the oldest / newest caller of this object that is still waiting is cancelled
#   drop         the user gives the object up WITHOUT closing it: nothing is called, its callers stay
class MultiNet(simnet.Net):
    def __init__(self, loop):
        super().__init__(loop)
        self.allow = {}      # port -> number of TCP connects that will succeed (refused otherwise)
        self.sides = {}      # host -> accessory side (on_connect(t), on_write(t, data), frame(t, bytes))
        self.slow = {}       # port -> seconds between transport.close() and connection_lost (0: next loop iteration)

    async def start_connection(self, addr_infos, **kw):
        host, port = addr_infos[0][3], addr_infos[0][4][1]
        self.attempts.append((round(self.loop.time(), 6), [host]))
        if self.allow.get(port, 0) <= 0:
            raise ConnectionRefusedError("refused")
        self.allow[port] -= 1
        return simnet.FakeSock(host, port)

    async def create_connection(self, factory, sock=None, **kw):
        proto = factory()
        t = simnet.FakeTransport(self, sock.host, proto, self.loop)
        t.port = sock.port
        delay = self.slow.get(sock.port, 0)
        if delay:
            def slow_close(t=t, delay=delay):
                # close() with unsent data in the write buffer: reading stops at once, connection_lost comes later
                if t.closing:
                    return
                t.closing = True
                self.loop.call_later(delay, t._lost, None)
            t.close = slow_close
        proto.connection_made(t)
        self.sides[sock.host].on_connect(t)
        return t, proto

    def on_write(self, t, data):
        self.sides[t.host].on_write(t, data)


def multi_host(acc):
    return f"10.0.{acc}.1"


async def scenario_multi(loop, objects, groups, seed):
    """objects: name -> {"acc": accessory index, "variant": plain|secure, "limit": n, "slow": units}"""
    from harness.refacc import Identity
    rnd = random.Random(seed)
    net = MultiNet(loop)
    problems = []
    trace = []
    stats = {}
    objs = {}                # name -> the created object: conn, events_seen
    tasks = {}
    outcome = {}             # id -> (outcome, units)
    judged = set()
    reported = set()
    cancelled_by_harness = set()
    issued = []
    issued_by = {}           # id -> name of the object the caller used
    written = {}             # id -> (transport, loop.time()) when an accessory received the request
    acc_queue = {}           # transport -> ids received and not yet answered (every accessory answers in order, per connection)
    sent_for = {}            # id -> tag of the answer the accessory sent for it
    tag_owner = {}           # tag -> id (None: unsolicited)
    unread = {}
    marks = {}
    gen_off = {}
    fed_off = {}
    expect_ok = {}
    ev_sent = {}             # name -> event ids the accessory sent on that object's connections, in order
    ev_owner = {}            # event id -> name
    ev_definite = set()
    harness_errors = []
    group_state = {}
    counter = itertools.count(1)
    ports = {name: 5001 + i for i, name in enumerate(sorted(objects))}
    name_of_port = {p: n for n, p in ports.items()}

    def bump(k):
        stats[k] = stats.get(k, 0) + 1

    def units(x=None):
        return int(round((loop.time() if x is None else x) * UNIT))

    def flag(sig, key, text):
        if (sig, key) not in reported:
            reported.add((sig, key))
            problems.append((sig, text))

    def received(t, target):
        try:
            rid = int(target.rsplit("/", 1)[1])
        except ValueError:
            return
        acc_queue.setdefault(t, []).append(rid)
        written.setdefault(rid, (t, loop.time()))
        who = name_of_port.get(t.port)
        if rid in issued_by and issued_by[rid] != who:
            flag("sent-on-wrong-connection", rid, f"request {rid}, issued through object {issued_by[rid]}, arrived at accessory {t.host} on a connection of object {who}")

    class PlainSide:
        def __init__(self):
            self.bufs = {}

        def on_connect(self, t):
            pass

        def on_write(self, t, data):
            self.bufs[t] = self.bufs.get(t, b"") + data
            while True:
                b = self.bufs[t]
                i = b.find(b"\r\n\r\n")
                if i < 0:
                    return
                head = b[:i].split(b"\r\n")
                cl = 0
                for h in head[1:]:
                    if h.lower().startswith(b"content-length:"):
                        cl = int(h.split(b":")[1])
                if len(b) < i + 4 + cl:
                    return
                self.bufs[t] = b[i + 4 + cl:]
                received(t, head[0].split(b" ")[1].decode())

        def frame(self, t, b):
            return b

    class SecureSide:
        def __init__(self, idx):
            rb = lambda n: bytes(rnd.randrange(256) for _ in range(n))  # noqa: E731
            self.acc = Accessory(loop, net, rb)
            self.acc.ident = Identity(rb, acc_id=b"12:34:56:00:02:%02X" % idx)
            self.acc.responder = lambda s, method, target, body: received(s.t, target)
            self.on_connect = self.acc.on_connect
            self.on_write = self.acc.on_write

        def frame(self, t, b):
            return self.acc.frame(self.acc.sessions[t], b)

    for name in sorted(objects):
        spec = objects[name]
        h = multi_host(spec["acc"])
        if h not in net.sides:
            net.sides[h] = PlainSide() if spec["variant"] == "plain" else SecureSide(spec["acc"])
        if spec.get("slow"):
            net.slow[ports[name]] = spec["slow"] / UNIT

    def transports_of(name):
        return [t for t in net.transports if getattr(t, "port", None) == ports[name]]

    def cur(name):
        for t in reversed(transports_of(name)):
            if not (t.closing or t.closed):
                return t
        return None

    def side_of(t):
        return net.sides[t.host]

    def session_up(t):
        """the accessory's own view: it has completed pair-verify on this connection (always true for a plain accessory)"""
        side = net.sides[t.host]
        if isinstance(side, PlainSide):
            return True
        s_ = side.acc.sessions.get(t)
        return s_ is not None and s_.secure

    with net.patched():
        t0 = units()

        def create(name):
            spec = objects[name]
            seen = []
            host = multi_host(spec["acc"])
            if spec["variant"] == "plain":
                owner = Owner()
                owner.name = "plain-" + name

                def plain_event(parsed, seen=seen):
                    for c in parsed.get("characteristics", []):
                        seen.append(c["iid"])
                owner.event_received = plain_event
                conn = HomeKitConnection(owner, [host], ports[name], concurrency_limit=spec["limit"])
                keep = owner
            else:
                ctrl = MagicMock()
                ctrl._char_cache = CharacteristicCacheMemory()
                p = IpPairing(ctrl, net.sides[host].acc.pairing_data([host], ports[name]))
                conn = p.connection

                def listener(ev, seen=seen):
                    for (aid, iid) in ev:
                        seen.append(iid)
                p.dispatcher_connect(listener)
                keep = p
            objs[name] = {"conn": conn, "seen": seen, "keep": keep, "variant": spec["variant"]}
            net.allow[ports[name]] = 1
            group_state[("connecting", name)] = True
            tasks[("new", name)] = asyncio.ensure_future(conn.ensure_connection())

        async def caller(conn, rid, m):
            target = f"/r/{rid}"
            try:
                if m == "g":
                    r = await conn.get(target)
                elif m == "j":
                    r = await conn.get_json(target)
                elif m == "p":
                    r = await conn.put(target, b'{"v":%d}' % rid)
                elif m == "P":
                    r = await conn.put_json(target, {"v": rid})
                elif m == "o":
                    r = await conn.post(target, b"\x01\x01\x00")
                elif m == "O":
                    r = await conn.post_json(target, {"v": rid})
                elif m == "r":
                    r = await conn.request(method="GET", target=target, headers=[("X-Req", str(rid))])
                else:
                    proto = conn.protocol
                    if proto is None:
                        raise AccessoryDisconnectedError("no protocol")
                    r = await proto.send_bytes(f"GET {target} HTTP/1.1\r\nHost: 10.0.0.1\r\n\r\n".encode())
                out = "ok:" + tag_of(r)
            except AccessoryDisconnectedError:
                out = "disc"
            except asyncio.CancelledError:
                outcome.setdefault(rid, ("canc", units()))
                raise
            except BaseException as e:  # noqa: BLE001
                out = "other:" + type(e).__name__
            outcome.setdefault(rid, (out, units()))

        def feed(t, chunk):
            if t.closing or t.closed or not chunk:
                return
            n_exc = len(net.data_received_raised)
            waiting = {rid for rid in written if rid not in outcome and rid not in cancelled_by_harness and tasks.get(rid) is not None and not tasks[rid].done()
                       and loop.time() - written[rid][1] < 30 - 4 * EPS and written[rid][0] is t}
            t.feed(chunk)
            raised = len(net.data_received_raised) > n_exc
            fed_off[t] = fed_off.get(t, 0) + len(chunk)
            rest_ = []
            for end, kind, ident in marks.get(t, []):
                if end > fed_off[t]:
                    rest_.append((end, kind, ident))
                elif kind == "e":
                    if not raised:
                        ev_definite.add(ident)
                else:
                    q = acc_queue.get(t) or []
                    if q:
                        rid = q.pop(0)
                        sent_for[rid] = ident
                        tag_owner[ident] = rid
                        if rid in waiting and not raised:
                            expect_ok[rid] = units()
                    else:
                        tag_owner[ident] = None
                        bump("unsolicited")
            marks[t] = rest_

        def make(t, kind):
            n = next(counter)
            who = name_of_port[t.port]
            if kind == "r":
                ident = f"acc{t.host.split('.')[2]}-c{t.index}-B{n}"   # names the accessory, the connection and the response
                raw = resp_tagged(ident, rnd.choice([0, 0, 0, 0, 1100, 2300]))
            else:
                ident = 1000 + n
                ev_sent.setdefault(who, []).append(ident)
                ev_owner[ident] = who
                raw = event_bytes(ident)
            data = side_of(t).frame(t, raw)
            gen_off[t] = gen_off.get(t, 0) + len(data)
            marks.setdefault(t, []).append((gen_off[t], kind, ident))
            return data

        def waiting_callers(name):
            return [rid for rid in issued if issued_by[rid] == name and rid not in outcome and not tasks[rid].done() and rid not in cancelled_by_harness]

        def act(full):
            name, dot, prim = full.partition(".")
            if not dot or name not in objects:
                raise HarnessBug(full)
            f = prim.split(":")
            k = f[0]
            if k == "new":
                if name in objs:
                    bump("noop")
                else:
                    create(name)
                return
            o = objs.get(name)
            if o is None:
                bump("noop")
                return
            conn = o["conn"]
            t = cur(name)
            if k == "q":
                rid = int(f[1])
                if rid in tasks:
                    return
                if o["variant"] == "secure" and (group_state.get(("connecting", name)) or (t is not None and not session_up(t))):
                    # the session is being set up in this very loop iteration, or its pair-verify has not finished (see
                    # ASSUMPTIONS: callers enter the secure session only once it is up - IpPairing gates every request on it)
                    bump("noop")
                    return
                issued.append(rid)
                issued_by[rid] = name
                tasks[rid] = asyncio.ensure_future(caller(conn, rid, f[2] if len(f) > 2 else "g"))
            elif k == "d":
                if t is None or (o["variant"] == "secure" and not session_up(t)):
                    # (an accessory sends responses and events of the secure session only once that session exists)
                    bump("noop")
                    return
                spec = f[1]
                partial = spec.endswith("/")
                data = unread.pop(t, b"")
                for ch in spec.rstrip("/"):
                    data += make(t, ch)
                if partial and len(data) > 1:
                    c = rnd.randrange(1, len(data))
                    unread[t] = data[c:]
                    data = data[:c]
                cuts = sorted(rnd.sample(range(1, len(data)), min(rnd.choice([0, 0, 0, 1, 3]), len(data) - 1)))
                prev = 0
                for c in cuts + [len(data)]:
                    feed(t, data[prev:c])
                    prev = c
            elif k == "rest":
                if t is not None and t in unread:
                    feed(t, unread.pop(t))
            elif k in ("c", "C"):
                if len(f) > 1:
                    rid = int(f[1])
                else:
                    w = waiting_callers(name)
                    if not w:
                        bump("noop")
                        return
                    rid = w[0] if k == "c" else w[-1]
                tk = tasks.get(rid)
                if tk is not None and not tk.done():
                    cancelled_by_harness.add(rid)
                    tk.cancel()
            elif k == "pc":
                if t is not None:
                    t.peer_close()
            elif k == "pr":
                if t is not None:
                    t.peer_reset()
            elif k == "lc":
                tasks[("lc", len(tasks))] = asyncio.ensure_future(conn.close())
            elif k == "R":
                if t is None:
                    net.allow[ports[name]] = 1
                    group_state[("connecting", name)] = True
                    conn.reconnect_soon()
            elif k == "drop":
                bump("dropped-without-close")
            else:
                raise HarnessBug(full)

        def act_all(prims):
            try:
                for x in prims:
                    act(x)
            except Exception as e:  # noqa: BLE001
                harness_errors.append(e)

        def judge(label):
            now = loop.time()
            for rid, tk in tasks.items():
                if isinstance(rid, int) and tk.done() and rid not in outcome:
                    outcome[rid] = ("canc" if tk.cancelled() else "other:task-ended", units())
            obs = []
            for rid in issued:
                who = issued_by[rid]
                if rid in outcome and rid not in judged:
                    judged.add(rid)
                    out, tm = outcome[rid]
                    obs.append(f"{who}.D{rid}={out}@{(tm - t0) / UNIT:g}s")
                    bump("outcome:" + out.split(":")[0])
                    if out.startswith("other"):
                        flag("wrong-error", rid, f"request {rid} (object {who}) failed with {out[6:]} instead of a disconnection error")
                    if out == "canc" and rid not in cancelled_by_harness:
                        flag("wrong-error", rid, f"request {rid} (object {who}) got CancelledError although its caller was not cancelled")
                    if out.startswith("ok:"):
                        tag = out[3:]
                        if sent_for.get(rid) != tag:
                            if tag_owner.get(tag) is not None:
                                other = tag_owner[tag]
                                where = "the same object" if issued_by.get(other) == who else f"object {issued_by.get(other)}: ANOTHER connection"
                                flag("misattributed", rid, f"request {rid} (object {who}) completed with the response sent for request {other} ({where}; body tag {tag}); "
                                     + (f"its own response was {sent_for[rid]}" if rid in sent_for else "its accessory had not answered it"))
                            elif tag in tag_owner:
                                flag("completed-with-unsolicited", rid, f"request {rid} (object {who}) completed with an unsolicited response (body tag {tag}) sent on a connection with no unanswered request")
                            else:
                                flag("completed-with-unknown", rid, f"request {rid} (object {who}) completed with a response no accessory ever sent (body tag {tag!r})")
                    if rid in written:
                        t, w = written[rid]
                        if tm - units(w) > 30 * UNIT + 1:
                            flag("late-completion", rid, f"request {rid} (object {who}) was written at t={(units(w) - t0) / UNIT:.3f}s and completed ({out.split(':')[0]}) only {(tm - units(w)) / UNIT:.3f}s later: "
                                 "the 30 s bound on an unanswered request does not hold")
                        if not out.startswith("ok:") and not (t.closing or t.closed):
                            flag("not-abandoned", rid, f"request {rid} (object {who}) failed ({out}) while in flight but its connection (#{t.index} to {t.host}) was not abandoned: "
                                 "nothing happened on that connection that ends a request, and a late response would be taken for a later request")
                    if rid in expect_ok and not out.startswith("ok:") and rid not in cancelled_by_harness:
                        flag("response-lost", rid, f"the response for request {rid} (object {who}) was read completely at t={(expect_ok[rid] - t0) / UNIT:.3f}s while the request was waiting for it, but the request ended with {out}")
            for rid in issued:
                if rid in outcome:
                    continue
                who = issued_by[rid]
                if rid in written:
                    t, w = written[rid]
                    if t.closed:
                        flag("hung-after-loss", rid, f"after {label}: the connection request {rid} (object {who}) was sent on is gone but the request neither completed nor failed")
                    if units(now) - units(w) > 30 * UNIT + 1:
                        flag("hung-past-deadline", rid, f"after {label} at t={(units(now) - t0) / UNIT:.3f}s: request {rid} (object {who}), written at t={(units(w) - t0) / UNIT:.3f}s, has neither completed nor failed "
                             f"{(units(now) - units(w)) / UNIT:.3f}s later: it hangs past its 30 s timeout")
                if rid in expect_ok:
                    flag("response-lost", rid, f"after {label}: the response for request {rid} (object {who}) was read completely while the request was waiting for it, but the request is still pending")
                if not any(not t.closed for t in transports_of(who)):
                    flag("hung-after-loss", rid, f"after {label}: object {who} has no connection but its request {rid} is still pending")
            for name, o in objs.items():
                seen = o["seen"]
                sent = ev_sent.get(name, [])
                pos = {e: i for i, e in enumerate(sent)}
                foreign = [e for e in seen if e not in pos]
                if foreign and any(e in ev_owner for e in foreign):
                    flag("event-misrouted", name, f"after {label}: the listener of object {name} saw EVENT(s) {foreign} that were sent on the connection of object {ev_owner.get(foreign[0])}")
                elif foreign:
                    flag("event-unknown", name, f"after {label}: the listener of object {name} saw an event no accessory sent: {seen} vs {sent}")
                else:
                    if len(set(seen)) != len(seen):
                        flag("event-duplicated", name, f"after {label}: listener of object {name} saw {seen}")
                    elif [pos[e] for e in seen] != sorted(pos[e] for e in seen):
                        flag("event-reordered", name, f"after {label}: listener of object {name} saw {seen}, sent {sent}")
                missing = [e for e in sent if e in ev_definite and e not in seen]
                if missing:
                    flag("event-lost", (name, missing[0]), f"after {label}: EVENT(s) {missing} were read completely on a live connection of object {name} but its listener did not see them")
            if net.errors:
                errs = [e for e in net.errors if not (e[0] == "data_received" and e[1] == "IndexError")]
                if errs:
                    flag("callback-raised", str(errs[0]), f"after {label}: {errs[0]}")
                del net.errors[:]
            up = ",".join(f"{n}:{sum(1 for t in transports_of(n) if not t.closed)}" for n in sorted(objs))
            trace.append(f"{label} -> " + (" ".join(obs) or "-") + f" | open={up} t={(units(now) - t0) / UNIT:g}s")

        try:
            for g in groups:
                prims = g.split("+")
                group_state.clear()
                run = []
                for x in prims:
                    if x.startswith("a:"):
                        act_all(run)
                        run = []
                        await asyncio.sleep(int(x.split(":")[1]) / UNIT)
                    else:
                        run.append(x)
                act_all(run)
                if harness_errors:
                    raise harness_errors[0]
                await settle(loop)
                for p_ in net.allow:
                    net.allow[p_] = 0
                for tr in list(unread):
                    if tr.closing or tr.closed:
                        del unread[tr]
                if len(objs) > 1:
                    n_busy = sum(1 for n in objs if any(issued_by[r] == n and r in written and r not in outcome for r in issued))
                    if n_busy > 1:
                        bump("instants-with-requests-outstanding-on-several-connections")
                judge(g)
        finally:
            # leave nothing behind for the next history: every caller cancelled, every object closed, every pending loss delivered
            for tk in tasks.values():
                tk.cancel()
            for o in objs.values():
                try:
                    await o["conn"].close()
                except Exception:  # noqa: BLE001
                    pass
            await settle(loop)
            for t in net.transports:
                if not t.closed:
                    t._lost(None)
            await settle(loop)
    return trace, problems, stats


MULTI_SINGLES = ["q", "q", "q", "d:r", "d:r", "d:r", "d:e", "d:rr", "d:re", "d:er", "d:r/", "d:e/", "d:rer", "rest", "c", "C", "pc", "pr", "lc", "R", "R"]
MULTI_ATOMS = ["q", "d:r", "d:rr", "d:e", "d:er", "d:r/", "c", "pc", "pr", "lc", f"a:{31 * UNIT}"]
MULTI_CONFIGS = [
    {"A": {"acc": 0, "variant": "plain", "limit": 2, "slow": 0}, "B": {"acc": 1, "variant": "plain", "limit": 2, "slow": 0}},
    {"A": {"acc": 0, "variant": "plain", "limit": 1, "slow": 0}, "B": {"acc": 1, "variant": "secure", "limit": 1, "slow": 0}},
    {"A": {"acc": 0, "variant": "plain", "limit": 3, "slow": 0}, "B": {"acc": 0, "variant": "plain", "limit": 1, "slow": 0}},   # two objects, one accessory
    {"A": {"acc": 0, "variant": "plain", "limit": 2, "slow": 5 * UNIT}, "B": {"acc": 1, "variant": "plain", "limit": 2, "slow": 0}},
    {"A": {"acc": 0, "variant": "secure", "limit": 1, "slow": 0}, "B": {"acc": 1, "variant": "secure", "limit": 1, "slow": 0}},
    {"A": {"acc": 0, "variant": "secure", "limit": 1, "slow": 0}, "B": {"acc": 0, "variant": "secure", "limit": 1, "slow": 5 * UNIT}},
]


def number_multi(groups, rng, objects, start=0):
    """give every bare '<obj>.q' its id and an entry point"""
    rid = start
    out = []
    for g in groups:
        prims = []
        for x in g.split("+"):
            name, dot, prim = x.partition(".")
            if dot and prim == "q":
                rid += 1
                m = rng.choice("ssssgjP" if objects[name]["variant"] == "secure" else "gjpPoOrsss")
                x = f"{name}.q:{rid}:{m}"
            prims.append(x)
        out.append("+".join(prims))
    return out


def on_obj(name, atom):
    return atom if atom.startswith("a:") else f"{name}.{atom}"


def gen_multi_pairs():
    """two objects with requests outstanding on both; then every ordered pair (action on A, action on B), once as two
    consecutive instants and once inside ONE loop iteration, in both orders of the objects; then both connections are used on"""
    pres = [["A.q", "B.q"], ["A.q", "A.q", "B.q"], ["B.q", "A.q", "B.q"], ["A.q", "B.q", "A.d:r/"]]
    tail = ["A.d:r", "B.d:r", "A.q+B.q", "B.d:r", "A.d:r", f"a:{31 * UNIT}"]
    for pi, pre in enumerate(pres):
        for x in MULTI_ATOMS:
            for y in MULTI_ATOMS:
                for same in (False, True):
                    mid = [on_obj("A", x) + "+" + on_obj("B", y)] if same else [on_obj("A", x), on_obj("B", y)]
                    yield pi, ["A.new+B.new"] + pre + mid + tail


def gen_multi_replaced(rng):
    """the protocol object of ONE connection is replaced while the old one still holds unanswered requests (its transport has
    not reported the loss yet), and: an object is given up by its user without close() and a new object talks to the same accessory"""
    out = []
    for variant, limit in (("plain", 1), ("plain", 2), ("plain", 3), ("secure", 1)):
        objects = {"A": {"acc": 0, "variant": variant, "limit": limit, "slow": 5 * UNIT}}
        for pre in (["A.q"], ["A.q", "A.q"], ["A.q", "A.q", "A.q"]):
            for give_up in (["A.lc"], ["A.c"], ["A.C"], [f"a:{30 * UNIT}"], ["A.d:rrrr"]):
                for after in (["A.d:r", f"a:{6 * UNIT}", "A.q", "A.d:r"], [f"a:{2 * UNIT}", "A.q", f"a:{4 * UNIT}", "A.d:rr"], ["A.q", f"a:{6 * UNIT}", "A.d:r", "A.d:r"],
                              [f"A.d:r+a:{5 * UNIT}", "A.d:r"], ["A.d:r/", f"a:{6 * UNIT}", "A.rest", "A.q", "A.d:r"]):
                    out.append((objects, ["A.new"] + pre + give_up + ["A.R", "A.q", "A.q"] + after + [f"a:{31 * UNIT}"]))
        objects = {"A": {"acc": 0, "variant": variant, "limit": limit, "slow": 0}, "B": {"acc": 0, "variant": variant, "limit": limit, "slow": 0}}
        for pre in (["A.q"], ["A.q", "A.q"]):
            for mid in (["B.d:r", "A.d:r"], ["A.d:r", "B.d:r"], ["B.d:r", f"a:{31 * UNIT}", "B.q", "B.d:r"], ["A.pc", "B.d:r"], ["A.c", "B.d:r"], ["B.d:e", "A.d:e", "B.d:r"], ["A.d:r+B.d:r"], ["B.d:r+A.pr"]):
                out.append((objects, ["A.new"] + pre + ["A.drop", "B.new", "B.q"] + mid + ["B.q", "B.d:r", f"a:{31 * UNIT}"]))
    return out


def gen_multi_random(rng):
    n = rng.choice([2, 2, 2, 3, 3, 4])
    names = "ABCD"[:n]
    objects = {}
    for i, name in enumerate(names):
        if i and rng.random() < 0.25:
            # a further object for an accessory that already has one (its replacement, or a second user)
            model = objects[rng.choice(sorted(objects))]
            objects[name] = {"acc": model["acc"], "variant": model["variant"], "limit": model["limit"] if model["variant"] == "secure" else rng.randrange(1, 4), "slow": rng.choice([0, 0, 5 * UNIT])}
        else:
            variant = "secure" if rng.random() < 0.25 else "plain"
            objects[name] = {"acc": i, "variant": variant, "limit": 1 if variant == "secure" else rng.randrange(1, 4), "slow": rng.choice([0, 0, 0, 5 * UNIT, 40 * UNIT])}
    groups = []
    late = [nm for nm in names[1:] if rng.random() < 0.3]
    first = [nm for nm in names if nm not in late]
    groups.append("+".join(f"{nm}.new" for nm in first))
    alive = list(first)
    for nm in first:
        for _ in range(rng.randrange(0, 3)):
            groups.append(f"{nm}.q")
    body = groups[1:]
    rng.shuffle(body)
    groups = groups[:1] + body
    for _ in range(rng.randrange(3, 16)):
        r = rng.random()
        if late and r < 0.15:
            nm = late.pop(0)
            alive.append(nm)
            groups.append(f"{nm}.new")
            groups.append(f"{nm}.q")
            continue
        if r < 0.3:
            groups.append("a:%d" % rng.choice([UNIT, 5 * UNIT, 12 * UNIT, 20 * UNIT, 29 * UNIT, 31 * UNIT, 18 * UNIT + 2]))
            continue
        k = 1 if r < 0.6 else (2 if r < 0.88 else 3)
        groups.append("+".join(f"{rng.choice(alive)}.{rng.choice(MULTI_SINGLES)}" for _ in range(k)))
    for nm in alive:
        if rng.random() < 0.5:
            groups += [f"{nm}.q", f"{nm}.d:r"]
    groups.append(f"a:{31 * UNIT}")
    return objects, groups


def to_multi(name, events):
    """a single-connection history of stream 'reqconn' (tokens of gen_random / gen_waiting / gen_exhaustive) as actions of object `name`"""
    out = []
    for ev in events:
        f = ev.split(":")
        k = f[0]
        if k == "q":
            out.append(f"{name}.q")
        elif k in ("r", "e"):
            out.append(f"{name}.d:{k}")
        elif k in ("hr", "he"):
            out.append(f"{name}.d:{k[1]}/")
        elif k == "c":
            out.append(f"{name}.c" if int(f[1]) % 2 else f"{name}.C")
        elif k == "a":
            out.append(ev)
        else:
            out.append(f"{name}.{k}")
    return out


def gen_multi_serial(rng):
    """single-connection histories run one after the other in ONE world, each on an object (and accessory) of its own, the
    earlier objects left exactly as their history left them - not closed, callers not cancelled, half-read messages pending:
    whatever an earlier connection leaves behind must not reach the next one"""
    n = rng.choice([2, 2, 3, 4])
    objects, groups = {}, []
    for i, name in enumerate("ABCD"[:n]):
        variant = "secure" if rng.random() < 0.2 else "plain"
        objects[name] = {"acc": i, "variant": variant, "limit": 1 if variant == "secure" else rng.randrange(1, 4), "slow": rng.choice([0, 0, 0, 5 * UNIT])}
        r = rng.random()
        evs = gen_random(rng)[:14] if r < 0.45 else (gen_waiting(rng)[:10] if r < 0.7 else list(rng.choice(_SERIAL_EXH)))
        groups.append(f"{name}.new")
        groups += to_multi(name, evs)
        if rng.random() < 0.3:
            groups.append(f"{name}.q")    # ... and it ends with a request outstanding
        elif rng.random() < 0.2:
            groups.append(f"{name}.lc")   # ... or properly closed
    groups.append(f"a:{31 * UNIT}")
    return objects, groups


_SERIAL_EXH = [["q", "q", "r:1"], ["q", "hr:1", "q"], ["q", "c:1"], ["q", "q", "c:2", "r:1"], ["q", f"a:{12 * UNIT}", "q", "he:9"], ["q", "q", "q", "r:1", "e:7"], ["q", "pc", "R", "q"],
               ["q", "q", "lc", "R", "q"], ["q", f"a:{31 * UNIT}", "R", "q", "r:1"], ["q", "r:1", "r:2"], ["q", "q", "pr"]]


def multi_cases(ctx, rng, factor=1):
    cases = []
    for c in load_corpus(ID):
        if c.get("stream") == "multi":
            cases.append((c["objects"], c["groups"], "corpus"))
    pairs = list(gen_multi_pairs())
    # the pairs after the plainest prefix on two plain connections to two accessories are always run in full; the rest is sampled
    for pi, g in pairs:
        if pi == 0:
            cases.append((MULTI_CONFIGS[0], number_multi(g, rng, MULTI_CONFIGS[0]), "pairs"))
    take = ctx.budget(350 * factor, len(pairs) * len(MULTI_CONFIGS))
    for i in range(take):
        cfg = MULTI_CONFIGS[i % len(MULTI_CONFIGS)]
        pi, g = pairs[(i // len(MULTI_CONFIGS)) % len(pairs)] if take >= len(pairs) * len(MULTI_CONFIGS) else rng.choice(pairs)
        cases.append((cfg, number_multi(g, rng, cfg), "pairs"))
    rep = gen_multi_replaced(rng)
    if not ctx.thorough() and len(rep) > 150 * factor:
        rep = rng.sample(rep, 150 * factor)
    for objects, g in rep:
        cases.append((objects, number_multi(g, rng, objects), "replaced"))
    for _ in range(ctx.budget(350 * factor, 12000)):
        objects, g = gen_multi_random(rng)
        cases.append((objects, number_multi(g, rng, objects), "random"))
    for _ in range(ctx.budget(150 * factor, 5000)):
        objects, g = gen_multi_serial(rng)
        cases.append((objects, number_multi(g, rng, objects), "serial"))
    return cases


def run_multi(ctx: Ctx, cases, base=3000017):
    holder = [simnet.VLoop()]
    asyncio.set_event_loop(holder[0])
    minimized = {}
    found = []

    def once(objects, groups, seed):
        loop = holder[0]
        try:
            out = loop.run_until_complete(scenario_multi(loop, objects, groups, seed))
            pend = [t for t in asyncio.all_tasks(loop) if not t.done()]
            for t in pend:
                t.cancel()
            if pend:
                loop.run_until_complete(asyncio.gather(*pend, return_exceptions=True))
            return out
        except HarnessBug:
            raise
        except Exception as e:  # noqa: BLE001
            # (as in stream 'atomic') an observation about the library, not a harness crash; continue on a fresh loop
            try:
                for t in asyncio.all_tasks(loop):
                    t.cancel()
                loop.close()
            except Exception:  # noqa: BLE001
                pass
            holder[0] = simnet.VLoop()
            asyncio.set_event_loop(holder[0])
            if isinstance(e, RuntimeError) and "does not settle" in str(e):
                return [], [("loop-never-idle", "the event loop never became idle at one virtual instant (10000 iterations): callbacks keep re-scheduling themselves with no delay, "
                                                "no request can complete or fail and virtual time cannot advance")], {}
            return [], [("scenario-raised", f"{type(e).__name__}: {e} escaped from a library call made by the harness")], {}
    try:
        for i, (objects, groups, kind) in enumerate(cases):
            seed = ctx.seed * 7919 + base + i if not isinstance(kind, tuple) else kind[1]
            kind = kind if not isinstance(kind, tuple) else kind[0]
            trace, problems, stats = once(objects, groups, seed)
            ctx.evaluations += 1
            ctx.nontrivial.add(("multi", json.dumps(objects, sort_keys=True), tuple(groups)))
            ctx.dist["multi:kind:" + kind] += 1
            ctx.dist["multi:objects:%d" % len(objects)] += 1
            ctx.dist["multi:accessories:%d" % len({o["acc"] for o in objects.values()})] += 1
            for o in objects.values():
                ctx.dist[f"multi:object:{o['variant']}:limit{o['limit']}" + (":slow-close" if o.get("slow") else "")] += 1
            for g in groups:
                prims = g.split("+")
                ctx.dist["multi:group-size:%d" % len(prims)] += 1
                if len({x.partition(".")[0] for x in prims if "." in x[:2]}) > 1:
                    ctx.dist["multi:group-across-connections"] += 1
                for x in prims:
                    f = x.partition(".")[2].split(":") if "." in x[:2] else x.split(":")
                    ctx.dist["multi:act:" + f[0]] += 1
                    if f[0] == "q":
                        ctx.dist["multi:entry:" + {**ENTRY, "r": "request"}.get(f[2] if len(f) > 2 else "g", "?")] += 1
            for k, v in stats.items():
                ctx.dist["multi:" + k] += v
            case = {"stream": "multi", "objects": objects, "groups": groups, "seed": seed}
            if i in (5, len(cases) - 1):
                ctx.sample(case)
            seen = set()
            for sig, text in problems:
                if sig in seen:
                    continue
                seen.add(sig)
                vcase = dict(case)
                if sig not in minimized and len(minimized) < 4:
                    def still(gs, sig=sig):
                        _, pr, _ = once(objects, gs, seed)
                        return any(s2 == sig for s2, _ in pr)
                    small = shrink_list(groups, still)
                    minimized[sig] = small
                    vcase["minimized_groups"] = small
                    text = text + f" [minimal history: {' ; '.join(small)}]"
                text = text + f" [objects: {json.dumps(objects, sort_keys=True)}; history: {' ; '.join(trace)}]"
                found.append(sig)
                ctx.violation(f"multi/{sig}", text, vcase)
    finally:
        asyncio.set_event_loop(None)
        holder[0].close()
    return found


def run(ctx: Ctx, driver: Driver):
    run_cases(ctx, driver, cases_for(ctx))
    run_atomic(ctx, atomic_cases(ctx, ctx.rng))
    # the request FIFO inside one loop iteration, against the Lean automaton ReqConn.Micro (theorems C08_micro_*)
    from harness.c08_micro import run_micro
    run_micro(ctx, driver)
    # several connection objects alive at once (after the older streams: their random draws stay what they were)
    run_multi(ctx, multi_cases(ctx, ctx.rng))
    # requests queued on the request slot of a real IpPairing when its session is lost (last: the older streams' draws stay)
    from harness.c08_queued import run_queued
    run_queued(ctx)
    # ... and the same window against the Lean automaton ReqConn.Queue (theorems C08_queue_*) on the real request()
    from harness.c08_slot import run_slot
    run_slot(ctx, driver)


def replay(ctx: Ctx, driver: Driver, case):
    n = len(ctx.violations)
    if case.get("stream") == "slot":
        from harness.c08_slot import replay_slot
        r = replay_slot(ctx, driver, case)
        return [r] if r else []
    if case.get("stream") == "queued-requests":
        from harness.c08_queued import replay_queued
        return replay_queued(ctx, case)
    if case.get("stream") in ("micro", "m4-close-probe"):
        from harness.c08_micro import replay_micro
        return replay_micro(ctx, driver, case)
    if case.get("stream") == "multi":
        run_multi(ctx, [(case["objects"], case["groups"], ("replay", case["seed"]))])
    elif case.get("stream") == "atomic":
        run_atomic(ctx, [(case["variant"], case["limit"], case["groups"], ("replay", case["seed"]))])
    else:
        run_cases(ctx, driver, [(case["variant"], case["limit"], case["events"], ("replay", case["seed"]) if "seed" in case else "replay")])
    return [v["signature"] + ": " + v["what"] for v in ctx.violations[n:]]


def search(ctx: Ctx, driver: Driver, broken):
    rng = ctx.rng
    cases = []
    for i in range(ctx.budget(4000, 40000)):
        evs = gen_random(rng)
        cases.append(("secure", 1, evs, "search") if i % 3 == 0 else ("plain", rng.randrange(1, 4), evs, "search"))
    for i in range(ctx.budget(1500, 15000)):
        evs = gen_waiting(rng)
        cases.append(("secure", 1, evs, "search") if i % 3 == 0 else ("plain", rng.randrange(1, 4), evs, "search"))
    run_cases(ctx, driver, cases)
    if not ctx.violations:
        run_atomic(ctx, atomic_cases(ctx, rng, factor=4), base=2000003)
    if not ctx.violations:
        run_multi(ctx, multi_cases(ctx, rng), base=4000037)   # (the search tier already multiplies the sample counts by four)
