"""C08 - every request gets its own response or a prompt disconnection error."""
from __future__ import annotations

import asyncio
import itertools
import json
import random
from unittest.mock import MagicMock

from harness import simnet
from harness.acc import Accessory, http
from harness.common import Ctx, Driver, compare_with_model, load_corpus, shrink_list
from harness.rcsim import settle, now_units, UNIT

from aiohomekit.characteristic_cache import CharacteristicCacheMemory
from aiohomekit.controller.ip.connection import HomeKitConnection
from aiohomekit.controller.ip.pairing import IpPairing
from aiohomekit.exceptions import AccessoryDisconnectedError

ID = "C08"
RULE = ("interleavings on one connection under virtual time, EXHAUSTIVE to depth 5 (quick) / 6 (thorough) over {request issued by caller k, response delivered whole, response/event first part then remainder, "
        "EVENT delivered, caller cancelled, advance 12 s / 31 s (30 s timer), peer closes, local close(), unsolicited response, reconnect} with up to 3 concurrent callers and concurrency limit 1..3, on a plain "
        "HomeKitConnection and on the secure session of an IpPairing (real pair-verify, encrypted frames split at arbitrary byte offsets); plus random histories to length 40. "
        "non-trivial = distinct (variant, limit, history)")
TRUSTED = ["harness/simnet.py: virtual-time loop, in-memory transport (no data is delivered after close(); an exception escaping data_received closes the transport, as asyncio's selector transport does)",
           "harness/acc.py scaffold accessory for the secure variant", "asyncio.Semaphore wakes waiters in FIFO order"]
ASSUMPTIONS = ["one model event = one harness action followed by running the loop to quiescence at that virtual instant",
               "reconnection is refused by the simulated network until the explicit `reconnect` event (C10/C11 cover the supervisor); a request issued while down fails at once",
               "a message whose first part has arrived is completed before the accessory sends anything else (byte-stream order)",
               "HTTP parsing of the delivered bytes is C07's model; here the unit is the complete message"]
EXPLANATION = ("Lean theorems C08_* over the FIFO attribution automaton HapVerif.ReqConn (in-order answers complete exactly the oldest request, events never complete a request, every abandonment fails all outstanding requests at that instant "
               "and ignores late data, each request completes at most once and within 30 s of being sent) + differential tie on per-request outcomes, accessory-side request log, event log, virtual completion times")


class Owner:
    """owner stub for the plain connection"""

    def __init__(self):
        self.name = "plain"
        self.description = None
        self.events = []

    async def connection_made(self, secure):
        return None

    def event_received(self, parsed):
        for c in parsed.get("characteristics", []):
            self.events.append(c["iid"])


def event_bytes(e):
    body = json.dumps({"characteristics": [{"aid": 1, "iid": e, "value": 1}]}).encode()
    return http(body, b"application/hap+json", kind=b"EVENT/1.0")


def resp_bytes(p, pad=0):
    """the response carrying payload p; `pad` bytes of an extra header make it span several encrypted blocks"""
    ctype = b"application/hap+json" + (b"\r\nX-Pad: " + b"p" * pad if pad else b"")
    return http(str(p).encode(), ctype)


async def scenario(loop, variant, limit, events, seed):
    rnd = random.Random(seed)
    net = simnet.Net(loop)
    lines = []
    problems = []
    sent = []      # (id, epoch) as the accessory receives them
    done = []      # (id, outcome, units)
    evlog = []
    tasks = {}
    harness_cancelled = set()
    pending_rest = {}
    prefed = {}
    if variant == "plain":
        owner = Owner()
        bufs = {}

        def on_write(t, data):
            bufs[t] = bufs.get(t, b"") + data
            while b"\r\n\r\n" in bufs[t]:
                head, _, rest = bufs[t].partition(b"\r\n\r\n")
                bufs[t] = rest
                target = head.split(b" ")[1].decode()
                sent.append((int(target.rsplit("/", 1)[1]), t.index))
        net.handler = on_write
        cur = lambda: (net.open[-1] if net.open else None)  # noqa: E731
        frame = lambda t, b: b  # noqa: E731
    else:
        acc = Accessory(loop, net, lambda n: bytes(rnd.randrange(256) for _ in range(n)))

        def responder(s, method, target, body):
            sent.append((int(target.rsplit("/", 1)[1]), s.t.index))
            return None
        acc.responder = responder
        cur = lambda: (net.open[-1] if net.open else None)  # noqa: E731
        frame = lambda t, b: acc.frame(acc.sessions[t], b)  # noqa: E731
    with net.patched():
        if variant == "plain":
            conn = HomeKitConnection(owner, ["10.0.0.1"], 80, concurrency_limit=limit)
            events_seen = owner.events
        else:
            ctrl = MagicMock()
            ctrl._char_cache = CharacteristicCacheMemory()
            p = IpPairing(ctrl, acc.pairing_data(["10.0.0.1"]))
            conn = p.connection
            events_seen = []

            def listener(ev):
                for (aid, iid) in ev:
                    events_seen.append(iid)
            p.dispatcher_connect(listener)
        await conn.ensure_connection()
        await settle(loop)
        t0 = now_units(loop)
        nowu = lambda: now_units(loop) - t0  # noqa: E731
        net.connect_outcomes = ["refused"] * 100000
        n_sent = n_ev = n_lost = 0
        lost_log = [x for x in net.log if x[0] == "lost"]
        for ei, ev in enumerate(events):
            f = ev.split(":")
            k = f[0]
            t = cur()
            if k == "q":
                rid = int(f[1])

                async def caller(rid=rid):
                    try:
                        r = await conn.get(f"/r/{rid}")
                        out = "ok:" + r.body.decode()
                    except AccessoryDisconnectedError:
                        out = "disc"
                    except asyncio.CancelledError:
                        done.append((rid, "canc", nowu()))
                        raise
                    except BaseException as e:  # noqa: BLE001
                        out = "other:" + type(e).__name__
                    done.append((rid, out, nowu()))
                tasks[rid] = asyncio.ensure_future(caller())
            elif k in ("r", "e"):
                if t is not None and t in prefed:
                    # the head of this message already travelled with the previous one: the rest arrives now
                    t.feed(prefed.pop(t))
                elif t is not None and not pending_rest:
                    pad = rnd.choice([0, 0, 0, 0, 1100, 2300]) if k == "r" else 0
                    data = frame(t, resp_bytes(int(f[1]), pad) if k == "r" else event_bytes(int(f[1])))
                    nxt = events[ei + 1].split(":") if ei + 1 < len(events) else [""]
                    tail = b""
                    if nxt[0] in ("r", "e") and rnd.random() < 0.5:
                        # TCP coalesces: the read that completes this message also carries the first bytes (at least the
                        # two length bytes of an encrypted block, sometimes far more) of the message the accessory sends next
                        d2 = frame(t, resp_bytes(int(nxt[1])) if nxt[0] == "r" else event_bytes(int(nxt[1])))
                        c2 = rnd.choice([2, 3, 17, len(d2) // 2, len(d2) - 1])
                        tail, prefed[t] = d2[:c2], d2[c2:]
                    cuts = sorted(rnd.sample(range(1, len(data)), min(rnd.choice([0, 0, 1, 2, 5]), len(data) - 1)))
                    prev = 0
                    for c in cuts:
                        t.feed(data[prev:c])
                        prev = c
                    t.feed(data[prev:] + tail)
            elif k in ("hr", "he"):
                if t is not None and not pending_rest:
                    data = frame(t, resp_bytes(int(f[1])) if k == "hr" else event_bytes(int(f[1])))
                    c = rnd.randrange(1, len(data))
                    t.feed(data[:c])
                    pending_rest[t] = data[c:]
            elif k == "rest":
                if t is not None and t in pending_rest:
                    t.feed(pending_rest.pop(t))
            elif k == "c":
                tk = tasks.get(int(f[1]))
                if tk is not None and not tk.done():
                    harness_cancelled.add(int(f[1]))
                    tk.cancel()
            elif k == "a":
                await asyncio.sleep(int(f[1]) / UNIT)
            elif k == "pc":
                if t is not None:
                    t.peer_close()
            elif k == "pr":
                # abortive loss (TCP RST / network error): connection_lost() gets the OS error, no EOF before it
                if t is not None:
                    t.peer_reset()
            elif k == "lc":
                # the connection is dropped locally (HomeKitConnection.close()): same abandonment as a peer close
                if conn.is_connected:
                    await conn.close()
            elif k == "R":
                if not conn.is_connected:
                    net.connect_outcomes = ["ok"] + ["refused"] * 100000
                    conn.reconnect_soon()
            else:
                raise ValueError(ev)
            await settle(loop)
            # a closed transport forgets its half-delivered message
            for tr in list(pending_rest):
                if tr.closing or tr.closed:
                    del pending_rest[tr]
            parts = [f"S{i}@{ep}" for i, ep in sent[n_sent:]]
            n_sent = len(sent)
            fin = sorted(done)
            del done[:]
            parts += [f"D{i}={o}@{tm}" for i, o, tm in fin]
            parts += [f"E{e}" for e in events_seen[n_ev:]]
            n_ev = len(events_seen)
            ll = [x for x in net.log if x[0] == "lost"]
            parts += [f"L{idx}@{int(round(tm * UNIT)) - t0}" for _, idx, tm in ll[n_lost:]]
            n_lost = len(ll)
            proto = conn.protocol
            infl = len(proto.result_cbs) if proto is not None else 0
            waitn = len([w for w in (conn._concurrency_limit._waiters or []) if not w.done()])
            lines.append(" ".join(parts) + " | " + f"up={1 if conn.is_connected else 0} infl={infl} wait={waitn} t={nowu()}")
            for i, o, tm in fin:
                if o.startswith("other"):
                    problems.append(("wrong-error", f"request {i} failed with {o[6:]} instead of a disconnection error"))
                if o == "canc" and i not in harness_cancelled:
                    problems.append(("wrong-error", f"request {i} got CancelledError although its caller was not cancelled"))
            if net.errors:
                errs = [e for e in net.errors if not (e[0] == "data_received" and e[1] == "IndexError")]
                if errs:
                    problems.append(("callback-raised", f"after {ev}: {errs[0]}"))
                del net.errors[:]
        # property oracle, stated directly on the observed history (independent of the model)
        problems += oracle(events, lines, limit)
        for tk in tasks.values():
            tk.cancel()
        await conn.close()
        await settle(loop)
    return lines, problems


def oracle(events, lines, limit):
    """the property stated directly on the observed history (independent of the model).
    The accessory answers in order: each response it sends is for the oldest request it has received on that
    connection and not yet answered.  So: a request completes with a response only if that response was the one
    sent for it; a request that fails while in flight takes its connection with it; a lost connection leaves nothing
    pending; nothing completes twice."""
    probs = []
    acc_queue = []      # the accessory's view: ids received on the current connection, unanswered
    in_flight = set()   # ids the accessory has received and the controller has not completed
    completed = {}
    issued = set()
    half = None
    conn_up = True
    for ev, line in zip(events, lines):
        obs, _, summ = line.partition(" | ")
        toks = obs.split()
        f = ev.split(":")
        lost = [t for t in toks if t.startswith("L")]
        answered = None
        up_before = conn_up
        sends_response = False
        if up_before:
            if f[0] == "r" and half is None:
                sends_response = True
            elif f[0] in ("hr", "he") and half is None:
                half = "resp" if f[0] == "hr" else "event"
            elif f[0] == "rest":
                sends_response = half == "resp"
                half = None
        if sends_response and acc_queue:
            answered = acc_queue[0]
        for t in toks:
            if t.startswith("D"):
                rid, rest_ = t[1:].split("=", 1)
                rid = int(rid)
                out = rest_.split("@")[0]
                if rid in completed:
                    probs.append(("completed-twice", f"request {rid} completed twice ({completed[rid]} then {out})"))
                completed[rid] = out
                if out.startswith("ok:"):
                    if not sends_response:
                        probs.append(("completed-without-response", f"request {rid} completed with a response during event {ev}"))
                    elif answered is not None and rid != answered:
                        probs.append(("misattributed", f"the response the accessory sent for request {answered} completed request {rid}"))
                elif rid in in_flight and not lost:
                    probs.append(("not-abandoned", f"request {rid} failed ({out}) while in flight during {ev} but its connection was not abandoned: a late response would be taken for a later request"))
                in_flight.discard(rid)
        if answered is not None and acc_queue and not lost:
            acc_queue.pop(0)
        # requests the accessory received during this event (a response may let a waiting caller send)
        for t in toks:
            if t.startswith("S"):
                rid = int(t[1:].split("@")[0])
                acc_queue.append(rid)
                if rid not in completed:
                    in_flight.add(rid)
        if lost:
            pend = sorted(i for i in in_flight)
            if pend:
                probs.append(("hung-after-loss", f"connection lost during {ev} but request(s) {pend} neither completed nor failed at that instant"))
            acc_queue = []
            in_flight = set()
            half = None
        if f[0] == "q":
            issued.add(int(f[1]))
        conn_up = "up=1" in summ
        if not conn_up:
            half = None
            hanging = sorted(i for i in issued if i not in completed)
            if hanging:
                probs.append(("hung-after-loss", f"after {ev}: connection down but request(s) {hanging} still pending"))
    return probs


def model_line(limit, events):
    # a local close is the model's abandonment event too
    return f"rq.run {limit} " + " ".join("pc" if e in ("lc", "pr") else e for e in events)


def gen_exhaustive(depth, rng, sample=None):
    alpha = ["q", "r", "e:7", "hr", "he:9", "rest", "c", f"a:{12 * UNIT}", f"a:{31 * UNIT}", "pc", "lc", "pr", "R"]
    seqs = []
    for d in range(1, depth + 1):
        for seq in itertools.product(alpha, repeat=d):
            if seq[0] not in ("q", "r", "e:7", "pc", "lc", "pr", "hr", "he:9"):
                continue
            if sum(1 for x in seq if x == "q") > 3:
                continue
            seqs.append(seq)
    if sample is not None and len(seqs) > sample:
        seqs = rng.sample(seqs, sample)
    out = []
    for seq in seqs:
        evs = []
        rid = 0
        payload = 100
        for a in seq:
            if a == "q":
                rid += 1
                evs.append(f"q:{rid}")
            elif a == "r":
                payload += 1
                evs.append(f"r:{payload}")
            elif a == "hr":
                payload += 1
                evs.append(f"hr:{payload}")
            elif a == "c":
                evs.append(f"c:{rng.randrange(1, max(rid, 1) + 1)}")
            else:
                evs.append(a)
        out.append(evs)
    return out


def gen_random(rng):
    evs = []
    rid = 0
    payload = 100
    for _ in range(rng.randrange(5, 40)):
        r = rng.random()
        if r < 0.3:
            rid += 1
            evs.append(f"q:{rid}")
        elif r < 0.5:
            payload += 1
            evs.append(f"r:{payload}")
        elif r < 0.58:
            evs.append(f"e:{rng.randrange(1, 50)}")
        elif r < 0.64:
            payload += 1
            evs.append(rng.choice([f"hr:{payload}", f"he:{rng.randrange(1, 50)}"]))
        elif r < 0.72:
            evs.append("rest")
        elif r < 0.78 and rid:
            evs.append(f"c:{rng.randrange(1, rid + 1)}")
        elif r < 0.9:
            evs.append("a:%d" % rng.choice([UNIT, 12 * UNIT, 29 * UNIT, 31 * UNIT, 18 * UNIT + 2]))
        elif r < 0.92:
            evs.append("pc")
        elif r < 0.94:
            evs.append("pr")
        elif r < 0.96:
            evs.append("lc")
        else:
            evs.append("R")
    return evs


def run_cases(ctx: Ctx, driver: Driver, cases):
    loop = simnet.VLoop()
    asyncio.set_event_loop(loop)
    impl, lines, cs = [], [], []
    minimized = {}
    try:
        for i, (variant, limit, events, kind) in enumerate(cases):
            out, problems = loop.run_until_complete(scenario(loop, variant, limit, events, ctx.seed * 7919 + i))
            pend = [t for t in asyncio.all_tasks(loop) if not t.done()]
            for t in pend:
                t.cancel()
            if pend:
                loop.run_until_complete(asyncio.gather(*pend, return_exceptions=True))
            ctx.evaluations += 1
            ctx.nontrivial.add((variant, limit, tuple(events)))
            ctx.dist[f"variant:{variant}"] += 1
            ctx.dist[f"limit:{limit}"] += 1
            ctx.dist["kind:" + kind] += 1
            for e in events:
                ctx.dist["ev:" + e.split(":")[0]] += 1
            case = {"stream": "reqconn", "variant": variant, "limit": limit, "events": events, "seed": ctx.seed * 7919 + i}
            seen = set()
            for sig, text in problems:
                if sig not in seen:
                    seen.add(sig)
                    vcase = dict(case)
                    if sig not in minimized and len(minimized) < 4:
                        def still(evs, sig=sig):
                            _, pr = loop.run_until_complete(scenario(loop, variant, limit, evs, vcase["seed"]))
                            pend2 = [t for t in asyncio.all_tasks(loop) if not t.done()]
                            for t in pend2:
                                t.cancel()
                            if pend2:
                                loop.run_until_complete(asyncio.gather(*pend2, return_exceptions=True))
                            return any(s2 == sig for s2, _ in pr)
                        small = shrink_list(events, still)
                        minimized[sig] = small
                        vcase["minimized_events"] = small
                        text = text + f" [minimal history: {' '.join(small)}]"
                    ctx.violation(f"{variant}/{sig}", text, vcase)
            for ln in out:
                for tok in ln.split(" | ")[0].split():
                    if tok.startswith("D"):
                        ctx.dist["outcome:" + tok.split("=")[1].split("@")[0].split(":")[0]] += 1
                    elif tok.startswith("L"):
                        ctx.dist["abandoned"] += 1
            cs.append(case)
            impl.append(" ; ".join(x.strip() for x in out))
            lines.append(model_line(limit, events))
    finally:
        asyncio.set_event_loop(None)
        loop.close()
    if cs:
        ctx.sample(cs[min(11, len(cs) - 1)])
        ctx.sample(cs[-1])
    compare_with_model(ctx, "reqconn", cs, impl, lines, driver, canon=lambda s: " ; ".join(x.strip() for x in s.split(" ; ")))


def cases_for(ctx):
    rng = ctx.rng
    cases = []
    for c in load_corpus(ID):
        cases.append((c["variant"], c["limit"], c["events"], "corpus"))
    ex = gen_exhaustive(ctx.budget(4, 5), rng, sample=ctx.budget(2500, 40000))
    for i, evs in enumerate(ex):
        if i % 4 == 3:
            cases.append(("secure", 1, evs, "exhaustive"))
        else:
            cases.append(("plain", 1 + (i % 3), evs, "exhaustive"))
    for i in range(ctx.budget(500, 10000)):
        evs = gen_random(rng)
        if i % 3 == 0:
            cases.append(("secure", 1, evs, "random"))
        else:
            cases.append(("plain", rng.randrange(1, 4), evs, "random"))
    return cases


def run(ctx: Ctx, driver: Driver):
    run_cases(ctx, driver, cases_for(ctx))


def replay(ctx: Ctx, driver: Driver, case):
    run_cases(ctx, driver, [(case["variant"], case["limit"], case["events"], "replay")])


def search(ctx: Ctx, driver: Driver, broken):
    rng = ctx.rng
    cases = []
    for i in range(ctx.budget(4000, 40000)):
        evs = gen_random(rng)
        cases.append(("secure", 1, evs, "search") if i % 3 == 0 else ("plain", rng.randrange(1, 4), evs, "search"))
    run_cases(ctx, driver, cases)
