"""C04 over BLE: the reply loop of `_pairing_char_write` against its Lean model (`HapVerif.BleReassembly`, theorems
C04_ble_transfer_reassembled, C04_ble_plain_reply_wins, C04_ble_too_many, C04_gen_ble_reassembly_tie).

The real `_pairing_char_write` runs with `char_write` replaced by a script of accessory replies (the GATT layer below it is
C17's business).  A reply is `d:<chunk>` (a TLV carrying FragmentData), `l:<chunk>` (FragmentLast) or `p:<n>` (an unfragmented
reply: `[State=n, Error=2]`, no fragment item).  Chunks are cuts of the encoding of a reference reply, so the reassembled buffer
decodes.  Implementation-level oracle (property text): whenever the LAST thing the accessory said is an unfragmented reply, that
reply - not the buffered chunks - is what the caller is handed; a complete transfer is handed over as the reference reply."""
from __future__ import annotations

import asyncio
from unittest import mock

from harness.common import Ctx, Driver, compare_with_model

FRAG_DATA, FRAG_LAST = 0x0C, 0x0D


def tlv(items):
    out = b""
    for t, v in items:
        if not v:
            out += bytes([t, 0])
        for o in range(0, len(v), 255):
            out += bytes([t, len(v[o:o + 255])]) + v[o:o + 255]
    return out


def reference_reply(rng):
    """a pair-setup M2-like reply: State, a long PublicKey, Salt (decodes as whole items)"""
    return [(6, b"\x02"), (3, bytes(rng.randrange(256) for _ in range(rng.choice([32, 100, 384])))), (2, bytes(rng.randrange(256) for _ in range(16)))]


def real(script):
    import aiohomekit.controller.ble.client as blec
    replies = list(script)
    writes = []

    async def char_write(client, ek, dk, handle, iid, body):
        writes.append(bytes(body))
        if not replies:
            raise _Starved()
        kind, payload = replies.pop(0)
        if kind == "d":
            return tlv([(FRAG_DATA, payload)])
        if kind == "l":
            return tlv([(FRAG_LAST, payload)])
        return tlv([(6, bytes([payload & 0xFF])), (7, b"\x02")])

    class _Starved(Exception):
        pass

    class _Never(Exception):
        pass
    client = mock.MagicMock()
    client.address = "AA:BB"
    loop = asyncio.new_event_loop()
    try:
        with mock.patch.object(blec, "char_write", char_write):
            try:
                r = loop.run_until_complete(blec._pairing_char_write(client, None, 1, [(6, b"\x01")]))
            except _Starved:
                return "starved", None
            except ValueError as e:
                return ("too-many" if "too many" in str(e) else "exc:ValueError"), None
            except blec.TlvParseException if hasattr(blec, "TlvParseException") else _Never:
                return "assembled:undecodable", None
            except Exception as e:  # noqa: BLE001
                return "exc:" + type(e).__name__, None
    finally:
        loop.close()
    return "returned", {int(k): bytes(v) for k, v in r.items()}


def cut(data, rng, n):
    ks = sorted(rng.sample(range(0, len(data) + 1), min(n, len(data) + 1)))
    out, prev = [], 0
    for k in ks:
        out.append(data[prev:k])
        prev = k
    return out, data[prev:]


def run_reassembly(ctx: Ctx, driver: Driver):
    rng = ctx.rng
    cases, outs, lines = [], [], []

    def add(script, ref_items, why):
        toks = [f"{k}:{(p.hex() or '-') if k != 'p' else p}" for k, p in script]
        case = {"stream": "ble-reassembly", "script": toks, "why": why}
        status, got = real(script)
        ctx.evaluations += 1
        ctx.nontrivial.add(("ble-reassembly",) + tuple(toks))
        ctx.dist["ble-reassembly:" + why] += 1
        if status.startswith("exc:"):
            ctx.violation(f"ble-reassembly/{status[4:]}", f"_pairing_char_write raised {status[4:]} on the reply script {toks}", case)
            return
        # ---- oracle from the script alone: which reply decides
        decides = None
        for i, (k, p) in enumerate(script[:50]):
            if k in ("l", "p"):
                decides = (i, k, p)
                break
        if decides is not None and status == "returned":
            i, k, p = decides
            if k == "p":
                want = {6: bytes([p & 0xFF]), 7: b"\x02"}
                if got != want:
                    ctx.violation("ble-reassembly/aborted/completed/error-code", f"after {i} FragmentData chunk(s) the accessory answered with the unfragmented reply [State={p}, Error=2]; the caller was handed "
                                  f"{ {t: v.hex() for t, v in got.items()} } instead of that reply", case)
            elif ref_items is not None and got != dict(ref_items):
                ctx.violation("ble-reassembly/transfer-not-reassembled", f"a complete transfer in {i + 1} pieces of the reply {[(t, v.hex()[:16]) for t, v in ref_items]} was handed over as { {t: v.hex()[:16] for t, v in got.items()} }", case)
        if status == "returned":
            out = "plain:%d" % got[6][0] if (FRAG_DATA not in got and 7 in got and got.get(7) == b"\x02" and len(got) == 2) else "assembled:" + (tlv(sorted(got.items())).hex() or "-")
        else:
            out = status
        cases.append((case, script))
        outs.append(out)
        lines.append("br.run 50 " + " ".join(toks))
    n = ctx.budget(150, 3000)
    for _ in range(n):
        ref = reference_reply(rng)
        data = tlv(ref)
        k = rng.choice([0, 1, 2, 3, 5, 8])
        chunks, last = cut(data, rng, k)
        shape = rng.random()
        if shape < 0.4:
            add([("d", c) for c in chunks] + [("l", last)] + ([("p", 9)] if rng.random() < 0.3 else []), ref, "complete")
        elif shape < 0.8:
            j = rng.randrange(0, len(chunks) + 1)
            add([("d", c) for c in chunks[:j]] + [("p", rng.choice([2, 4, 6, 3]))] + [("d", c) for c in chunks[j:]] + [("l", last)], ref, "aborted-by-unfragmented-reply")
        elif shape < 0.9:
            add([("d", c) for c in chunks], ref, "starved")
        else:
            add([("d", b"\x30\x00") for i in range(rng.choice([49, 50, 51, 60]))] + [("l", b"")], None, "long")
    # the model's bytes are compared after decoding with the harness's own reader (item order is not the property's business)
    if driver.available:
        mouts = driver.run(lines)
        for (case, script), io, mo in zip(cases, outs, mouts):
            if mo.startswith("assembled:"):
                raw = bytes.fromhex(mo[10:]) if mo[10:] != "-" else b""
                items, i, ok = {}, 0, True
                while i < len(raw):
                    if i + 2 > len(raw) or i + 2 + raw[i + 1] > len(raw):
                        ok = False
                        break
                    items[raw[i]] = items.get(raw[i], b"") + raw[i + 2:i + 2 + raw[i + 1]]
                    i += 2 + raw[i + 1]
                mo = ("assembled:" + (tlv(sorted(items.items())).hex() or "-")) if ok else "assembled:undecodable"
            if io != mo:
                ctx.mismatch("ble-reassembly", case, io, mo)
        ctx.traces += len(lines)
        ctx.streams["ble-reassembly"] += len(lines)
