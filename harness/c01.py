"""C01 - pair-verify yields session keys only for the authentic paired accessory."""
from __future__ import annotations

import asyncio
import json
import random
import re
import struct
from collections import Counter
from unittest import mock

from cryptography.hazmat.primitives.asymmetric import ed25519, x25519
from cryptography.hazmat.primitives.ciphers.aead import ChaCha20Poly1305

from harness import cryptoval, refacc, simnet
from harness.acc import Accessory, http
from harness.common import Ctx, Driver, compare_with_model, hx, load_corpus, unhx
from harness.rcsim import settle

import aiohomekit.exceptions as E
import aiohomekit.protocol as P
from aiohomekit.protocol.tlv import TLV, TlvParseException

ID = "C01"
RULE = ("honest exchanges over random records/ephemerals; adversarial M2/M4: every single-bit flip of the accessory public key, a sample of bit and byte corruptions of the encrypted "
        "data and of the decrypted sub-TLV re-sealed under the right key, removal/duplication/reordering of TLV items, wrong long-term key, wrong identifier, signature over a permuted "
        "transcript, M2 recorded from another exchange, 31/33-byte keys, low-order key, M4 with error/foreign state; resumption with right and wrong secrets; the three key install sites; "
        "refusals: M2 / M4 / pair-resume replies carrying an Error item of ANY value (every defined code, 0x00, reserved and vendor one-byte codes, every defined code with one bit flipped, empty, "
        "multi-byte and fragmented values) before / after / without the State item and next to otherwise genuine fields, as a decoded list, through the IP/CoAP expected-type filter and as the BLE dict; "
        "IP session histories on the simulated network (unpatched IpPairing, genuine accessory slow to answer M1 / M3 by 0..31 s, optionally a relaying man in the middle that answers unencrypted requests itself): "
        "{first connection, session lost by peer close / reset / request time-out / close()} x {pair-verify that succeeds, is refused with any Error value, is forged, stalls or is cut} x callers on every "
        "request entry point at instants before the loss, during the TCP connect, inside the M2 and M4 windows (ends included) and after - a grid over ending x window x entry point plus random histories of 2-4 sessions. "
        "BLE and CoAP session histories (unpatched BlePairing / CoAPPairing; only the bleak client handed out by establish_connection resp. aiocoap's Context is replaced, by an independent accessory that keeps its "
        "books per LINK = GATT connection / CoAP endpoint): {session-needing call on every public entry point, alone / concurrent / cancelled inside a request, advertisement-triggered poll, GATT notification, CoAP event} x "
        "{close(), close_after_operation(), shutdown(), automatic close after a cancelled request / damaged answer / GATT error, link dead without the stack saying so, link lost with its disconnected callback at once or later, "
        "lost inside a request; disconnect() delivering the callback at once / late / RAISING each exception class the library handles (BleakError, EOFError, BrokenPipeError, TimeoutError, AttributeError); CoAP: request time-out, "
        "network error, damaged answer, accessory restart (4.04), new endpoint from zeroconf, pair-verify time-out} x {next link answered by the genuine accessory - resuming, refusing to resume, restarted - or by an IMPOSTOR "
        "without the long-term key: own key, made-up resume reply, refusal, recorded M2, answers in the clear} - a grid ending x who answers next x entry point plus random histories of 2-5 links. "
        "non-trivial = distinct (mutation class, field, outcome class) / (session endings, call outcomes) / (ending or step kinds, who answered on each link, how each link was proved, call outcomes)")
TRUSTED = ["reference accessory harness/refacc.py (cryptography)", "Lean Real X25519/Ed25519/HKDF/ChaCha20-Poly1305 (validated against cryptography each run)",
           "harness/simnet.py virtual-time loop and in-memory transport; harness/acc.py scaffold accessory (real pair-verify, AEAD framing) and its bookkeeping of what arrived on each connection, framed or not",
           "the per-link HAP-BLE / HAP-CoAP accessory and impostor of this file (LinkSide, GattLink, CoapLink: pair-verify and pair-resume from harness/refacc.py, PDU reassembly, per-link AEAD counters) and their books"]
ASSUMPTIONS = ["unforgeability of Ed25519 and integrity of ChaCha20-Poly1305 (never theorems); the tamper theorems are consequences of the interface laws (Crypto.Laws), proved satisfiable by a toy instance",
               "the controller's ephemeral key is pinned by patching X25519PrivateKey.generate in aiohomekit.protocol",
               "legitimacy oracle: success is expected iff the values the controller actually uses (dict view: last occurrence of each type) are the genuine ones of this exchange; "
               "a reply that carries an Error item is a refusal whatever its value",
               "session histories: a TCP connect takes non-zero (virtual) time; 'the accessory accepted' = the scaffold accessory has sent M4 on that connection; session oracles: nothing but pair-verify POSTs reaches a "
               "connection before its M4, everything after it opens under that session's keys, is_connected/is_available imply an M4 on the connection opened last, a call that returns has been carried by a framed request "
               "and never returns what the man in the middle sent unencrypted",
               "BLE / CoAP session histories - oracles, all on the books of whoever answered on each link and on what the harness itself did: on every link nothing but pair-verify / pair-resume requests arrives before the genuine "
               "accessory has accepted M3 or honoured a resume request ON THAT LINK (never on an impostor's link), whatever arrives afterwards opens under that link's keys and counters, is_connected is never seen True while the link "
               "opened last is unproved, a call that returns was carried by a request the genuine accessory received under a proved session while the call ran and never contains what an impostor made up, listeners are never handed an "
               "impostor's data, before the first fault of a history no call fails with an authentication / encryption error, a CoAP event sealed under the proved session's event key is taken as long as every earlier one was",
               "BLE / CoAP session histories - fault model: a client object whose disconnect() raised fails every later GATT operation the same way; a link that dies by itself and is reported by the stack (is_connected False) gets its disconnected callback before the library next looks at it (bleak clears the flag and calls "
               "the callback in one handler); only disconnects the library asked for through close() / close_after_operation() / shutdown() / its automatic close may deliver the callback late or never (thread_provision's own disconnect delivers it at once or raises); a late callback is delivered while nothing is in flight; the accessory raises a GATT notification only in a "
               "session in which it has already received a sealed request and that no stale callback has hit since; on CoAP an impostor takes over new endpoints while old ones fall silent.  What the library does outside this "
               "fault model is run once per check as unrestricted probes and recorded in the evidence notes (noted, not asserted)"]
EXPLANATION = "Lean theorems C01_* over the model of get_session_keys with an abstract crypto interface; byte-exact differential tie with executable crypto; adversarial streams judged by an independent accessory"


def pinned(seed: bytes):
    return mock.patch.object(P.x25519.X25519PrivateKey, "generate", staticmethod(lambda: x25519.X25519PrivateKey.from_private_bytes(seed)))


def items_str(items):
    return ",".join(f"{int(k)}:{hx(v)}" for k, v in items) if items else "-"


def toks(items):
    return " ".join(f"{int(k)} {hx(v)}" for k, v in items)


def L(items):
    return [[int(k), bytearray(v)] for k, v in items]


CLS = {"InvalidError", "AuthenticationError", "BackoffError", "MaxPeersError", "MaxTriesError", "UnavailableError", "BusyError", "InvalidAuthTagError", "IncorrectPairingIdError",
       "InvalidSignatureError", "ValueError", "TlvParseException", "UnicodeDecodeError"}


def exchange(ident, eph, m2_items, m4_items, via_wire=False):
    """drive the real generator; returns canonical outcome string + python-side details"""
    with pinned(eph):
        g = P.get_session_keys(ident.pairing_data())
        req1, exp = g.send(None)
    m1 = [(k, bytes(v)) for k, v in req1]

    def wire(items, expected):
        # what HomeKitConnection.post_tlv / CoAP do_pair_verify hand to the generator
        if not via_wire:
            return L(items)
        return TLV.decode_bytes(TLV.encode_list(L(items)), expected=expected)
    try:
        req3, exp3 = g.send(wire(m2_items, exp))
    except StopIteration:
        return "early-keys", m1, None, None
    except Exception as e:  # noqa: BLE001
        return "err2 " + type(e).__name__, m1, None, None
    m3 = [(k, bytes(v)) for k, v in req3]
    try:
        g.send(wire(m4_items, exp3))
    except StopIteration as s:
        sid, derive = s.value
        keys = (bytes(sid), derive(b"Control-Salt", b"Control-Write-Encryption-Key"), derive(b"Control-Salt", b"Control-Read-Encryption-Key"), derive(b"Event-Salt", b"Event-Read-Encryption-Key"))
        return f"ok {items_str(m3)} {hx(keys[0])} {hx(keys[1])} {hx(keys[2])} {hx(keys[3])}", m1, m3, keys
    except Exception as e:  # noqa: BLE001
        return f"err4 {type(e).__name__} {items_str(m3)}", m1, m3, None
    return "yielded-again", m1, m3, None


def run(ctx: Ctx, driver: Driver):
    rng = ctx.rng
    rb = lambda n: bytes(rng.randrange(256) for _ in range(n))  # noqa: E731
    cryptoval.validate(ctx, driver, 4)
    cases, outs, lines = [], [], []

    def one(kind, ident, eph, acc, m2, m4, legit, to_model=True, why="a reply the paired accessory did not produce for this exchange"):
        out, m1, m3, keys = exchange(ident, eph, m2, m4)
        ctx.evaluations += 1
        case = {"stream": "verify", "kind": kind, "eph": hx(eph), "m2": [[k, hx(v)] for k, v in m2], "m4": [[k, hx(v)] for k, v in m4], "legit": bool(legit),
                "record": {"acc_id": hx(ident.acc_id), "acc_ltsk": hx(ident.acc_ltsk.private_bytes(**refacc.PRIV)), "ios_id": ident.ios_id, "ios_ltsk": hx(ident.ios_ltsk.private_bytes(**refacc.PRIV))}}
        cls = out.split(" ")[0] + (":" + out.split(" ")[1] if out.startswith("err") else "")
        ctx.nontrivial.add((kind, cls))
        ctx.dist[f"{kind}:{cls}"] += 1
        if out in ("early-keys", "yielded-again"):
            ctx.violation(f"verify/{kind}/{out}", f"{kind}: generator protocol broken ({out})", case)
        elif out.startswith("err") and out.split(" ")[1] not in CLS:
            ctx.violation(f"verify/{kind}/{out.split(' ')[1]}", f"{kind}: unexpected exception class {out.split(' ')[1]}", case)
        if legit:
            if not out.startswith("ok"):
                ctx.violation(f"verify/{kind}/rejected-genuine", f"{kind}: genuine exchange failed with {out[:60]}", case)
            else:
                if not acc.check_m3(m3):
                    ctx.violation(f"verify/{kind}/m3-rejected", f"{kind}: a conformant accessory rejects the controller's M3", case)
                w, r, ev = acc.keys()
                if (keys[1], keys[2], keys[3]) != (w, r, ev):
                    ctx.violation(f"verify/{kind}/keys-differ", f"{kind}: controller and accessory hold different keys", case)
        else:
            if out.startswith("ok"):
                ctx.violation(f"verify/{kind}/accepted", f"{kind}: session keys were returned for {why}", case)
        # the same exchange as the IP and CoAP transports see it: the reply is re-encoded and decoded with the
        # expected-type filter the generator asked for (the direct form above is what BLE hands over)
        def expressible(items):
            try:
                return [(int(k), bytes(v)) for k, v in TLV.decode_bytes(TLV.encode_list(L(items)))] == [(int(k), bytes(v)) for k, v in items]
            except Exception:  # noqa: BLE001
                return False
        if not (expressible(m2) and expressible(m4)):
            # e.g. two adjacent items of one type: on the wire they are fragments of one value
            wout, wm3, wkeys = "skipped", None, None
        else:
            try:
                wout, _, wm3, wkeys = exchange(ident, eph, m2, m4, via_wire=True)
            except Exception as e:  # noqa: BLE001
                wout, wm3, wkeys = "wire-failed " + type(e).__name__, None, None
        ctx.evaluations += 1
        ctx.dist[f"wire:{kind}:{wout.split(' ')[0]}"] += 1
        if legit and not wout.startswith("ok") and wout != "skipped":
            ctx.violation(f"verify/{kind}/wire/rejected-genuine", f"{kind} (IP/CoAP decoding): genuine exchange failed with {wout[:60]}", case)
        if legit and wout.startswith("ok"):
            w, r, ev = acc.keys()
            if not acc.check_m3(wm3) or (wkeys[1], wkeys[2], wkeys[3]) != (w, r, ev):
                ctx.violation(f"verify/{kind}/wire/keys-differ", f"{kind} (IP/CoAP decoding): accessory rejects M3 or keys differ", case)
        if not legit and wout.startswith("ok"):
            ctx.violation(f"verify/{kind}/wire/accepted", f"{kind} (IP/CoAP decoding): session keys were returned although the accessory did not produce/accept this exchange - {why} ({wout[:40]})", case)
        if to_model:
            pd = ident
            cases.append(case)
            outs.append(out)
            lines.append(f"pv.run {hx(pd.acc_id)} {hx(pd.acc_ltpk)} {hx(pd.ios_id.encode())} {hx(pd.ios_ltsk.private_bytes(**refacc.PRIV))} {hx(eph)} {toks(m2)} | {toks(m4)}")

    def fresh():
        ident = refacc.Identity(rb, acc_id=rng.choice([b"12:34:56:00:01:0A", b"AA:BB:CC:DD:EE:FF", b"x"]), ios_id=rng.choice(["ctrl-1", "2f4e1d3c-0000-4000-8000-aabbccddeeff"]))
        eph = rb(32)
        acc = refacc.VerifyAccessory(ident, rb(32))
        ios_pk = x25519.X25519PrivateKey.from_private_bytes(eph).public_key().public_bytes(**refacc.RAW)
        m2 = acc.m2(ios_pk)
        return ident, eph, acc, ios_pk, m2

    M4 = [(6, b"\x04")]
    # ---- honest
    for _ in range(ctx.budget(25, 800)):
        ident, eph, acc, ios_pk, m2 = fresh()
        one("honest", ident, eph, acc, m2, M4, True)
        # reordering / harmless duplication keep the effective values genuine
        one("reordered", ident, eph, acc, [m2[2], m2[0], m2[1]], M4, True)
        one("dup-garbage-first", ident, eph, acc, [(3, rb(32)), (6, b"\x02")] + m2, M4, True)
        one("m4-no-state", ident, eph, acc, m2, [], True)
    # ---- adversarial
    ident, eph, acc, ios_pk, m2 = fresh()
    for bit in range(256):
        pk = bytearray(m2[1][1])
        pk[bit // 8] ^= 1 << (bit % 8)
        one("bitflip-pk", ident, eph, acc, [m2[0], (3, bytes(pk)), m2[2]], M4, False, to_model=(bit % 8 == 0 or bit == 255))
    enc = m2[2][1]
    for bit in rng.sample(range(len(enc) * 8), ctx.budget(80, len(enc) * 8)):
        e = bytearray(enc)
        e[bit // 8] ^= 1 << (bit % 8)
        one("bitflip-enc", ident, eph, acc, [m2[0], m2[1], (5, bytes(e))], M4, False, to_model=(bit % 5 == 0))
    for _ in range(ctx.budget(150, 3000)):
        ident, eph, acc, ios_pk, m2 = fresh()
        kind = rng.choice(["byte-enc", "resealed-sub-bitflip", "wrong-ltsk", "wrong-id", "id-case-variant", "id-prefix", "id-padded", "permuted-transcript", "other-exchange", "remove-pk", "remove-enc", "remove-sig", "remove-id",
                           "short-key", "long-key", "trunc-enc", "state-4", "state-missing-err", "m4-error", "m4-state", "low-order-key", "dup-garbage-last", "empty-enc", "swap-fields"])
        mm2, mm4, legit = list(m2), list(M4), False
        if kind == "byte-enc":
            e = bytearray(m2[2][1])
            e[rng.randrange(len(e))] = rng.randrange(256)
            if bytes(e) == m2[2][1]:
                continue
            mm2[2] = (5, bytes(e))
        elif kind == "resealed-sub-bitflip":
            sub = bytearray(acc.sub)
            sub[rng.randrange(len(sub))] ^= 1 << rng.randrange(8)
            mm2[2] = (5, ChaCha20Poly1305(acc.vkey).encrypt(b"\0\0\0\0PV-Msg02", bytes(sub), b""))
        elif kind == "wrong-ltsk":
            mm2 = acc.m2(ios_pk, ltsk=ed25519.Ed25519PrivateKey.from_private_bytes(rb(32)))
        elif kind == "wrong-id":
            mm2 = acc.m2(ios_pk, pid=b"99:99:99:99:99:99")
        elif kind in ("id-case-variant", "id-prefix", "id-padded"):
            # an identifier that only *resembles* the stored one, signed correctly by the genuine long-term key over itself
            sid = ident.acc_id
            var = {"id-case-variant": sid.swapcase(), "id-prefix": sid[:-1], "id-padded": sid + b" "}[kind]
            if var == sid:
                continue
            mm2 = acc.m2(ios_pk, pid=var)
        elif kind == "permuted-transcript":
            mm2 = acc.m2(ios_pk, permute=True)
        elif kind == "other-exchange":
            other = x25519.X25519PrivateKey.from_private_bytes(rb(32)).public_key().public_bytes(**refacc.RAW)
            mm2 = refacc.VerifyAccessory(ident, rb(32)).m2(other)
        elif kind == "remove-pk":
            mm2 = [m2[0], m2[2]]
        elif kind == "remove-enc":
            mm2 = [m2[0], m2[1]]
        elif kind in ("remove-sig", "remove-id"):
            sub = [(1, ident.acc_id), (10, refacc.untlv(acc.sub)[10])]
            sub = [x for x in sub if x[0] != (10 if kind == "remove-sig" else 1)]
            mm2[2] = (5, ChaCha20Poly1305(acc.vkey).encrypt(b"\0\0\0\0PV-Msg02", refacc.tlv(sub), b""))
        elif kind == "short-key":
            mm2[1] = (3, m2[1][1][:31])
        elif kind == "long-key":
            mm2[1] = (3, m2[1][1] + b"\0")
        elif kind == "trunc-enc":
            mm2[2] = (5, m2[2][1][:-1])
        elif kind == "state-4":
            mm2[0] = (6, b"\x04")
        elif kind == "state-missing-err":
            mm2 = [(7, bytes([rng.randrange(1, 8)]))] + m2[1:]
        elif kind == "m4-error":
            mm4 = rng.choice([[(6, b"\x04"), (7, b"\x02")], [(7, b"\x02")], [(7, b"\x06"), (6, b"\x04")]])
        elif kind == "m4-state":
            mm4 = [(6, bytes([rng.choice([1, 2, 3, 5, 6])]))]
        elif kind == "low-order-key":
            mm2[1] = (3, rng.choice([bytes(32), b"\x01" + bytes(31)]))
        elif kind == "dup-garbage-last":
            mm2 = m2 + [(6, b"\x02"), (3, rb(32))]
        elif kind == "empty-enc":
            mm2[2] = (5, b"")
        elif kind == "swap-fields":
            mm2 = [m2[0], (5, m2[1][1]), (3, m2[2][1])]
        one(kind, ident, eph, acc, mm2, mm4, legit)
    ctx.sample({k: (v if len(str(v)) < 300 else str(v)[:300] + "...") for k, v in cases[0].items()})
    ctx.sample({k: (v if len(str(v)) < 300 else str(v)[:300] + "...") for k, v in cases[-1].items()})
    compare_with_model(ctx, "verify", cases, outs, lines, driver)
    resume_stream(ctx, driver, rng, rb)
    install_sites(ctx, rng, rb)
    # ---- rejections: M2/M4 carrying an Error item with ANY value (the accessory did not accept)
    n0 = len(cases)
    for cls, val in error_values(rng, rb, ctx.budget(10, 248)):
        ident, eph, acc, ios_pk, m2 = fresh()
        err = (7, val)
        shapes = [("m4-errval", m2, [(6, b"\x04"), err]), ("m4-errval-first", m2, [err, (6, b"\x04")]), ("m4-errval-no-state", m2, [err]),
                  ("m2-errval", [(6, b"\x02"), err], M4), ("m2-errval-no-state", [err], M4), ("m2-errval-appended", m2 + [err], M4), ("m2-errval-first", [err] + m2, M4)]
        if not ctx.thorough() and cls in ("bitflip", "unknown"):
            # the quick tier keeps every M4 shape (the reply to the controller's proof) and samples the M2 shapes
            shapes = shapes[:3] + rng.sample(shapes[3:], 2)
        # the executable model costs ~10 ms of Lean X25519/Ed25519 per line: the quick tier ties a sample of the values to it
        tied = ctx.thorough() or rng.random() < (0.5 if cls in ("defined", "zero", "empty", "multi") else 0.15)
        for shape, mm2, mm4 in shapes:
            one(f"{shape}-{cls}", ident, eph, acc, mm2, mm4, False, to_model=tied,
                why=f"an exchange the accessory refused: its {'M2' if shape.startswith('m2') else 'M4 (the answer to the controller proof)'} carries Error={hx(val)[:16]} ({cls} value)")
    compare_with_model(ctx, "verify-errval", cases[n0:], outs[n0:], lines[n0:], driver)
    resume_error_values(ctx, driver, rng, rb)
    session_stream(ctx, rng)
    link_stream(ctx, rng)
    link_probes(ctx)
    from harness.c01_blemodel import run_blemodel
    run_blemodel(ctx, driver)


DEFINED_ERRORS = (1, 2, 3, 4, 5, 6, 7)  # table 5-5 of the specification: the only codes a name exists for


def error_values(rng, rb, n_unknown):
    """values an Error item can carry, by class: every defined code, 0x00, reserved / vendor one-byte codes (both ends of the
    range and a sample), every defined code with one bit flipped, the empty value, multi-byte values (a defined code followed
    or preceded by other bytes, values that travel as two TLV fragments)"""
    vals = [("defined", bytes([c])) for c in DEFINED_ERRORS] + [("zero", b"\x00")]
    flips = sorted({c ^ (1 << b) for c in DEFINED_ERRORS for b in range(8)} - set(DEFINED_ERRORS) - {0})
    vals += [("bitflip", bytes([v])) for v in flips]
    rest = [v for v in range(8, 256) if v not in flips]
    unknown = [8, 9, 0x7F, 0x80, 0xFE, 0xFF] + rng.sample(rest, min(n_unknown, len(rest)))
    vals += [("unknown", bytes([v])) for v in dict.fromkeys(unknown) if v not in flips]
    vals.append(("empty", b""))
    multi = [b"\x02\x00", b"\x00\x02", b"\x02\x02", b"\x00\x00", b"\x01\x00\x00\x00", bytes([rng.choice(DEFINED_ERRORS)]) + rb(rng.randrange(1, 4)),
             rb(rng.randrange(2, 6)), b"\x02" * 255, b"\x02" * 256, bytes(300)]
    vals += [("multi", v) for v in multi]
    return vals


def resume_error_values(ctx, driver, rng, rb):
    """a pair-resume reply that is genuine in every other respect but carries an Error item (any value, either position) is a
    refusal: no keys.  Handed over as a decoded list and as BLE does (bytes -> TLV.decode_bytearray -> dict)."""
    cases, outs, lines = [], [], []
    vals = error_values(rng, rb, ctx.budget(4, 248))
    if not ctx.thorough():
        vals = [v for v in vals if v[0] not in ("bitflip",)] + rng.sample([v for v in vals if v[0] == "bitflip"], 8)
    for cls, val in vals:
        ident = refacc.Identity(rb)
        prev, sid, eph, new_sid = rb(32), rb(8), rb(32), rb(8)

        def derive(salt, info, length=32, prev=prev):
            return refacc.hk(prev, salt, info, length)
        ios_pk = x25519.X25519PrivateKey.from_private_bytes(eph).public_key().public_bytes(**refacc.RAW)
        respkey = refacc.hk(prev, ios_pk + new_sid, b"Pair-Resume-Response-Info")
        tag = ChaCha20Poly1305(respkey).encrypt(b"\0\0\0\0PR-Msg02", b"", b"")
        good = [(6, b"\x02"), (0, b"\x06"), (14, new_sid), (5, tag)]
        for pos, m2 in (("last", good + [(7, val)]), ("first", [(7, val)] + good), ("after-state", good[:1] + [(7, val)] + good[1:])):
            for form in ("list", "ble-dict"):
                with pinned(eph):
                    g = P.get_session_keys(ident.pairing_data(), sid, derive)
                    g.send(None)
                ctx.evaluations += 1
                case = {"stream": "resume-errval", "cls": cls, "pos": pos, "form": form, "prev": hx(prev), "sid": hx(sid), "eph": hx(eph), "m2": [[k, hx(v)] for k, v in m2]}
                try:
                    g.send(L(m2) if form == "list" else dict(TLV.decode_bytearray(bytearray(TLV.encode_list(L(m2))))))
                    out = "continued"  # went on with a full exchange: M3 yielded although the accessory reported an error
                except StopIteration:
                    out = "some"
                except Exception as e:  # noqa: BLE001
                    out = "none:" + type(e).__name__
                ctx.nontrivial.add(("resume-errval", cls, pos, out.split(":")[0]))
                ctx.dist[f"resume-errval:{cls}:{out}"] += 1
                if out == "some":
                    ctx.violation(f"resume/errval-{cls}/accepted", f"a resume reply carrying Error={hx(val)[:16]} ({cls}, {pos}, handed over as {form}) yielded session keys", case)
                elif out == "continued":
                    ctx.violation(f"resume/errval-{cls}/continued", f"a resume reply carrying Error={hx(val)[:16]} ({cls}, {pos}, handed over as {form}) did not end the attempt", case)
                if form == "list":
                    cases.append(case)
                    outs.append("none" if out != "some" else "some")
                    lines.append(f"pv.resume3 {hx(prev)} {hx(eph)} {toks(m2)}")
    compare_with_model(ctx, "resume-errval", cases, outs, lines, driver)


def resume_stream(ctx, driver, rng, rb):
    cases, outs, lines = [], [], []
    for _ in range(ctx.budget(30, 600)):
        ident = refacc.Identity(rb)
        prev = rb(32)
        sid = rb(8)
        eph = rb(32)

        def derive(salt, info, length=32, prev=prev):
            return refacc.hk(prev, salt, info, length)
        with pinned(eph):
            g = P.get_session_keys(ident.pairing_data(), sid, derive)
            req1, exp = g.send(None)
        m1 = [(k, bytes(v)) for k, v in req1]
        ios_pk = dict(m1)[3]
        ctx.evaluations += 1
        # accessory side of resume (Table 6-27)
        reqkey = refacc.hk(prev, ios_pk + sid, b"Pair-Resume-Request-Info")
        try:
            ChaCha20Poly1305(reqkey).decrypt(b"\0\0\0\0PR-Msg01", dict(m1)[5], b"")
            acc_ok = dict(m1)[0] == b"\x06" and dict(m1)[14] == sid
        except Exception:  # noqa: BLE001
            acc_ok = False
        if not acc_ok:
            ctx.violation("resume/m1", "a conformant accessory does not accept the resume request", {"stream": "resume", "m1": [[k, hx(v)] for k, v in m1]})
        cases.append({"stream": "resume1", "prev": hx(prev), "sid": hx(sid), "eph": hx(eph)})
        outs.append(items_str(m1))
        lines.append(f"pv.resume1 {hx(prev)} {hx(sid)} {hx(eph)}")
        kind = rng.choice(["right", "right", "wrong-secret", "tag-bitflip", "no-method", "method-2", "nonempty-plain", "other-eph", "right+error", "right+state4",
                           "tag-truncated", "tag-truncated", "tag-extended", "wrong-secret-short-tag"])
        new_sid = rb(8)
        secret = prev if kind not in ("wrong-secret", "wrong-secret-short-tag") else rb(32)
        pk_for = ios_pk if kind != "other-eph" else rb(32)
        respkey = refacc.hk(secret, pk_for + new_sid, b"Pair-Resume-Response-Info")
        tag = ChaCha20Poly1305(respkey).encrypt(b"\0\0\0\0PR-Msg02", b"" if kind != "nonempty-plain" else b"x", b"")
        if kind == "tag-bitflip":
            t = bytearray(tag)
            t[rng.randrange(16)] ^= 1 << rng.randrange(8)
            tag = bytes(t)
        if kind == "tag-truncated":
            tag = tag[:rng.choice([15, 12, 8, 4, 2, 1])]  # a genuine tag cut short authenticates nothing
        if kind == "wrong-secret-short-tag":
            tag = tag[:rng.choice([4, 2, 1])]
        if kind == "tag-extended":
            tag = tag + rb(rng.choice([1, 4, 16]))
        m2 = [(6, b"\x02"), (0, b"\x06"), (14, new_sid), (5, tag)]
        if kind == "no-method":
            m2 = [x for x in m2 if x[0] != 0]
        if kind == "method-2":
            m2[1] = (0, b"\x02")
        if kind == "right+error":
            m2 = m2 + [(7, bytes([rng.choice([1, 2, 3, 6, 7])]))]
        if kind == "right+state4":
            m2[0] = (6, b"\x04")
        legit = kind == "right"
        try:
            g.send(L(m2))
            out = "continued"
        except StopIteration as s:
            rsid, rderive = s.value
            out = f"some {hx(rsid)} {hx(rderive(b'Control-Salt', b'Control-Write-Encryption-Key'))} {hx(rderive(b'Control-Salt', b'Control-Read-Encryption-Key'))}"
            want_shared = refacc.hk(prev, ios_pk + new_sid, b"Pair-Resume-Shared-Secret-Info")
            if legit and rderive(b"Control-Salt", b"Control-Write-Encryption-Key") != refacc.hk(want_shared, b"Control-Salt", b"Control-Write-Encryption-Key"):
                ctx.violation("resume/keys", "resumed keys differ from the accessory's", {"stream": "resume", "kind": kind})
        except Exception as e:  # noqa: BLE001
            out = "none:" + type(e).__name__  # fell through to the full exchange and failed there
        ctx.nontrivial.add(("resume", kind, out.split(" ")[0].split(":")[0]))
        ctx.dist[f"resume:{kind}:{out.split(' ')[0]}"] += 1
        if legit and not out.startswith("some"):
            ctx.violation("resume/rejected", f"genuine resume reply not accepted: {out}", {"stream": "resume", "kind": kind})
        if not legit and out.startswith("some"):
            ctx.violation("resume/accepted", f"resume reply of kind {kind} yielded keys", {"stream": "resume", "kind": kind})
        cases.append({"stream": "resume3", "kind": kind})
        outs.append(out if out.startswith("some") else "none")
        lines.append(f"pv.resume3 {hx(prev)} {hx(eph)} {toks(m2)}")
    compare_with_model(ctx, "resume", cases, outs, lines, driver)


def install_sites(ctx, rng, rb):
    """after a real pair-verify through each transport's own code, do the ciphers hold the right keys in the right directions?"""
    ident = refacc.Identity(rb)
    nonce = lambda c: struct.pack("<LQ", 0, c)  # noqa: E731
    # ---------------- IP: full SecureHomeKitConnection over simnet
    import aiohomekit.controller.ip.connection as ipc
    loop = simnet.VLoop()
    asyncio.set_event_loop(loop)
    net = simnet.Net(loop)
    st = {}

    def handler(t, data):
        s = st.setdefault(t, {"buf": b"", "acc": None, "secure": False, "rctr": 0, "wctr": 0, "ebuf": b""})
        if s["secure"]:
            s["ebuf"] += data
            plain = b""
            while len(s["ebuf"]) >= 2:
                n = struct.unpack("<H", s["ebuf"][:2])[0]
                if len(s["ebuf"]) < 2 + n + 16:
                    break
                plain += ChaCha20Poly1305(s["c2a"]).decrypt(nonce(s["rctr"]), s["ebuf"][2:2 + n + 16], s["ebuf"][:2])
                s["rctr"] += 1
                s["ebuf"] = s["ebuf"][2 + n + 16:]
            st["decrypted"] = plain
            body = b'{"accessories":[]}'
            resp = b"HTTP/1.1 200 OK\r\nContent-Length: %d\r\n\r\n" % len(body) + body
            lb = struct.pack("<H", len(resp))
            loop.call_soon(t.feed, lb + ChaCha20Poly1305(s["a2c"]).encrypt(nonce(s["wctr"]), resp, lb))
            s["wctr"] += 1
            return
        s["buf"] += data
        if b"\r\n\r\n" not in s["buf"]:
            return
        head, body = s["buf"].split(b"\r\n\r\n", 1)
        s["buf"] = b""
        m = refacc.untlv(body)

        def http(b):
            return b"HTTP/1.1 200 OK\r\nContent-Type: application/pairing+tlv8\r\nContent-Length: %d\r\n\r\n" % len(b) + b
        if m[6] == b"\x01":
            s["acc"] = refacc.VerifyAccessory(ident, rb(32))
            loop.call_soon(t.feed, http(refacc.tlv(s["acc"].m2(m[3]))))
        else:
            ok = s["acc"].check_m3(list(m.items()))
            st["m3_ok"] = ok
            s["c2a"], s["a2c"], _ = s["acc"].keys()
            s["secure"] = True
            loop.call_soon(t.feed, http(refacc.tlv([(6, b"\x04")])))
    net.handler = handler

    async def ip():
        with net.patched():
            conn = ipc.SecureHomeKitConnection(None, ident.pairing_data())
            await conn._connect_once()
            r = await conn.get_json("/accessories")
            await conn.close()
            return r
    ctx.evaluations += 1
    try:
        r = loop.run_until_complete(ip())
        if r != {"accessories": []} or not st.get("m3_ok") or not st.get("decrypted", b"").startswith(b"GET /accessories"):
            ctx.violation("install/ip", f"IP session after pair-verify does not work in both directions: {r!r}", {"stream": "install", "site": "ip"})
    except Exception as e:  # noqa: BLE001
        ctx.violation("install/ip", f"IP secure session failed: {type(e).__name__}: {e}", {"stream": "install", "site": "ip"})
    ctx.nontrivial.add(("install", "ip"))
    # ---------------- BLE: BlePairing._async_pair_verify with the GATT state-machine driver replaced
    import aiohomekit.controller.ble.pairing as blep

    async def ble():
        p = blep.BlePairing.__new__(blep.BlePairing)
        p._ble_request_lock = asyncio.Lock()
        p.pairing_data = ident.pairing_data(connection="BLE")
        p.client = object()
        p._session_id = None
        p._derive = None
        acc = refacc.VerifyAccessory(ident, rb(32))

        async def drive(client, char, sm):
            req, exp = sm.send(None)
            m2 = acc.m2(bytes(dict(req)[3]))
            req3, _ = sm.send({k: bytearray(v) for k, v in m2})
            assert acc.check_m3([(k, bytes(v)) for k, v in req3])
            try:
                sm.send({6: bytearray(b"\x04")})
            except StopIteration as s:
                return s.value
        with mock.patch.object(blep, "drive_pairing_state_machine", drive):
            await p._async_pair_verify()
        w, r, _ = acc.keys()
        c = p._encryption_key.encrypt(b"hello")
        ok1 = ChaCha20Poly1305(w).decrypt(nonce(0), c, b"") == b"hello"
        ok2 = p._decryption_key.decrypt(ChaCha20Poly1305(r).encrypt(nonce(0), b"world", b"")) == b"world"
        return ok1 and ok2
    ctx.evaluations += 1
    try:
        if not loop.run_until_complete(ble()):
            ctx.violation("install/ble", "BLE keys installed in the wrong direction", {"stream": "install", "site": "ble"})
    except Exception as e:  # noqa: BLE001
        ctx.violation("install/ble", f"BLE pair-verify failed: {type(e).__name__}: {e}", {"stream": "install", "site": "ble"})
    ctx.nontrivial.add(("install", "ble"))
    # ---------------- CoAP: do_pair_verify with aiocoap's context replaced
    import aiohomekit.controller.coap.connection as coapc

    async def coap():
        acc = refacc.VerifyAccessory(ident, rb(32))

        class Resp:
            def __init__(self, payload):
                self.payload = payload

        class Req:
            def __init__(self, msg):
                m = refacc.untlv(bytes(msg.payload))
                if m[6] == b"\x01":
                    payload = refacc.tlv(acc.m2(m[3]))
                else:
                    assert acc.check_m3(list(m.items()))
                    payload = refacc.tlv([(6, b"\x04")])
                f = asyncio.get_event_loop().create_future()
                f.set_result(Resp(payload))
                self.response = f

        class Ctx2:
            def request(self, msg):
                return Req(msg)

            async def shutdown(self):
                pass

        class FakeContext:
            @staticmethod
            async def create_server_context(root, bind=None):
                return Ctx2()
        conn = coapc.CoAPHomeKitConnection.__new__(coapc.CoAPHomeKitConnection)
        conn.enc_ctx = None
        conn.address = "[::1]:5683"
        conn.owner = None
        with mock.patch.object(coapc, "Context", FakeContext):
            await conn.do_pair_verify(ident.pairing_data(connection="CoAP"))
        w, r, ev = acc.keys()
        n0 = struct.pack("=4xQ", 0)
        ok1 = ChaCha20Poly1305(w).decrypt(n0, conn.enc_ctx.encrypt(b"req"), b"") == b"req"
        ok2 = conn.enc_ctx.decrypt(ChaCha20Poly1305(r).encrypt(n0, b"resp", b"")) == b"resp"
        ok3 = conn.enc_ctx.decrypt_event(ChaCha20Poly1305(ev).encrypt(n0, b"event", b"")) == b"event"
        return ok1 and ok2 and ok3
    ctx.evaluations += 1
    try:
        if not loop.run_until_complete(coap()):
            ctx.violation("install/coap", "CoAP keys installed in the wrong direction", {"stream": "install", "site": "coap"})
    except Exception as e:  # noqa: BLE001
        ctx.violation("install/coap", f"CoAP pair-verify failed: {type(e).__name__}: {e}", {"stream": "install", "site": "coap"})
    ctx.nontrivial.add(("install", "coap"))
    loop.close()


# ===================================================================== IP sessions on the simulated network
# Histories of an unpatched IpPairing against a genuine accessory (real pair-verify, AEAD framing) that can be slow to answer
# M1 / M3, with - optionally - a man in the middle in front of it that relays /pair-verify and encrypted frames verbatim (it
# learns no key) and answers whatever arrives unencrypted by itself.  Everything is judged from what the accessory side saw.

GENUINE, FORGED = "GENUINE", "FORGED"
DEFAULT_PLAN = {"d0": 0.01, "d2": 0.0, "d4": 0.0, "dr": 0.0, "verify": "ok", "plain": "470"}
ENTRIES = {  # public entry points of IpPairing: (method, target prefix of the request that carries the call, call)
    "la": ("GET", "/accessories", lambda p: p.list_accessories_and_characteristics()),
    "get": ("GET", "/characteristics", lambda p: p.get_characteristics([(1, 2)])),
    "put": ("PUT", "/characteristics", lambda p: p.put_characteristics([(1, 3, True)])),
    "lp": ("POST", "/pairings", lambda p: p.list_pairings()),
    "img": ("POST", "/resource", lambda p: p.image(1, 4, 4)),
    "sub": (None, None, lambda p: p.subscribe([(1, 3)])),  # returns normally also when it could not connect: wire oracles only
    "putf": ("PUT", "/characteristics", lambda p: p.put_characteristics([(1, 3, False)])),
}
ENDS = ("peer_close", "peer_reset", "close", "stall")


def database(mark):
    return [{"aid": 1, "services": [{"iid": 1, "type": "3E", "characteristics": [
        {"iid": 2, "type": "23", "format": "string", "perms": ["pr"], "value": mark},
        {"iid": 3, "type": "25", "format": "bool", "perms": ["pr", "pw", "ev"], "value": False}]}]}]


def answer(mark, method, target, body):
    """the answer to an application request: from the accessory (GENUINE) or made up by the man in the middle (FORGED)"""
    J = b"application/hap+json"
    if target.startswith("/accessories"):
        return http(json.dumps({"accessories": database(mark)}).encode(), J)
    if target.startswith("/characteristics") and method == "GET":
        rows = []
        for i in (target.split("id=", 1)[1].split(",") if "id=" in target else []):
            try:
                rows.append({"aid": int(i.split(".")[0]), "iid": int(i.split(".")[1]), "value": mark})
            except (ValueError, IndexError):
                pass
        return http(json.dumps({"characteristics": rows}).encode(), J)
    if target.startswith("/characteristics"):
        return b"HTTP/1.1 204 No Content\r\n\r\n"
    if target == "/pairings":
        return http(refacc.tlv([(6, b"\x02"), (1, (mark + "-CONTROLLER").encode()), (3, bytes(32)), (11, b"\x01")]))
    if target == "/resource":
        return http((mark + "-IMAGE").encode(), b"image/jpeg")
    return http(b"{}", J)


class SessionAccessory(Accessory):
    """harness/acc.py's accessory with per-connection plans {d0: TCP connect time, d2 / d4: how long it takes to answer M1 / M3,
    dr: how long to answer a request of the session, verify: acc.py's verify mode, plain: what happens to a request that arrives
    unencrypted (forge = the man in the middle answers it, 470 = the accessory refuses it as the specification says, ignore)} and
    the bookkeeping the oracles use"""

    def __init__(self, loop, net, rb):
        super().__init__(loop, net, rb, accessories=database(GENUINE))
        self.plans = []
        self.mute = False
        self.probe = None  # what the pairing object reports as "connected" - observed, never used as a reference
        self.early = []    # (connection, time, at) observations of "connected" before the accessory had sent M4 on that connection
        self.notes = []

    def on_connect(self, t):
        super().on_connect(t)
        s = self.sessions[t]
        s.plan = dict(DEFAULT_PLAN, **(self.plans.pop(0) if self.plans else {}))
        s.mode = s.plan["verify"]
        s.m4_sent = False
        s.plain = []   # (time, what): anything but a pair-verify POST that arrived before this accessory had sent M4
        s.unauth = []  # (time, what): after M4, bytes that are not AEAD frames under this session's keys
        s.framed = []  # (time, method, target): requests that arrived AEAD-framed under this session's keys
        self.observe("tcp-connected")

    def observe(self, at):
        """the pairing may report a session only if the accessory has sent M4 on the connection that was opened last"""
        try:
            up = bool(self.probe()) if self.probe else False
        except Exception as e:  # noqa: BLE001
            self.notes.append(f"is_connected raised {type(e).__name__}")
            return
        if up and (not self.order or not self.order[-1].m4_sent):
            self.early.append((self.order[-1].idx if self.order else -1, self.loop.time(), at))

    def on_write(self, t, data):
        s = self.sessions[t]
        now = self.loop.time()
        self.observe("write")
        if s.secure:
            s.ebuf += data
            while len(s.ebuf) >= 2:
                n = struct.unpack("<H", s.ebuf[:2])[0]
                if n <= 1024 and len(s.ebuf) < 2 + n + 16:
                    break
                try:
                    if n > 1024:
                        raise ValueError("no frame is longer than 1024 bytes")
                    plain = ChaCha20Poly1305(s.c2a).decrypt(struct.pack("<LQ", 0, s.rctr), s.ebuf[2:2 + n + 16], s.ebuf[:2])
                except Exception:  # noqa: BLE001
                    s.unauth.append((now, f"{len(s.ebuf)} bytes starting {s.ebuf[:24]!r}"))
                    s.ebuf = b""
                    self.loop.call_soon(t.peer_close)  # a genuine accessory ends a session whose framing broke
                    return
                s.rctr += 1
                s.ebuf = s.ebuf[2 + n + 16:]
                s.buf += plain
        else:
            s.buf += data
            if len(s.buf) >= 8 and not re.match(rb"[A-Z]{3,7} /", s.buf[:9]):
                # e.g. frames of a session the controller believes in although this accessory refused the proof
                s.plain.append((now, f"{len(s.buf)} bytes that are no HTTP request ({s.buf[:12]!r}...) were written"))
                s.buf = b""
                return
        while True:
            try:
                req = self._take_request(s)
            except Exception:  # noqa: BLE001
                if s.secure:
                    s.unauth.append((now, f"bytes that are no HTTP request: {s.buf[:24]!r}"))
                else:
                    s.plain.append((now, f"bytes that are no HTTP request ({s.buf[:24]!r}) were written"))
                s.buf = b""
                return
            if req is None:
                return
            method, target, body = req
            verify = method == "POST" and target == "/pair-verify"
            if s.secure:
                s.framed.append((now, method, target))
            elif not verify:
                s.plain.append((now, f"'{method} {target}' was written UNENCRYPTED"))
            self.loop.call_soon(self._handle, t, bool(s.secure), method, target, body)

    def _handle(self, t, framed, method, target, body):  # noqa: D102
        s = self.sessions[t]
        s.requests.append((method, target, body))
        if t.closing or t.closed:
            return
        if not framed and method == "POST" and target == "/pair-verify":
            try:
                step = refacc.untlv(body).get(6)
            except Exception:  # noqa: BLE001
                step = None
            d = s.plan["d2"] if step == b"\x01" else s.plan["d4"]
            if d > 0:
                self.loop.call_later(d, self._late_verify, t, s, body, step)
            else:
                self._late_verify(t, s, body, step)
            return
        if not framed:
            if s.plan["plain"] == "forge":
                t.feed(answer(FORGED, method, target, body))
            elif s.plan["plain"] == "470":
                t.feed(http(b"", code=b"470 Connection Authorization Required"))
            return
        if self.mute:
            return
        r = answer(GENUINE, method, target, body)
        if s.plan["dr"] > 0:
            self.loop.call_later(s.plan["dr"], self.send, t, r)
        else:
            self.send(t, r)

    def _late_verify(self, t, s, body, step):
        if t.closing or t.closed:
            return
        self.observe("M2-about-to-be-sent" if step == b"\x01" else "M4-about-to-be-sent")
        if step not in (b"\x01", b"\x03") or (step == b"\x03" and s.va is None) or s.secure:
            # not what a controller following the protocol sends: refuse
            return self.send(t, http(refacc.tlv([(6, b"\x04" if step == b"\x03" else b"\x02"), (7, b"\x02")])))
        try:
            self._verify(t, s, body)
        except Exception as e:  # noqa: BLE001
            self.notes.append(f"accessory could not process a pair-verify request: {type(e).__name__}")
            return t.peer_close()
        if s.secure and not s.m4_sent:
            s.m4_sent = True


async def session_scenario(loop, hist):
    """run one history; returns (problems, stats)"""
    from unittest.mock import MagicMock

    from aiohomekit.characteristic_cache import CharacteristicCacheMemory
    from aiohomekit.controller.ip.pairing import IpPairing
    rnd = random.Random(hist["seed"])
    net = simnet.Net(loop)
    acc = SessionAccessory(loop, net, lambda n: bytes(rnd.randrange(256) for _ in range(n)))
    connect_now = net.start_connection

    async def start_connection(addr_infos, **kw):
        # a TCP connect takes a round trip: it never completes without the loop running in between
        await asyncio.sleep(max((acc.plans[0] if acc.plans else DEFAULT_PLAN).get("d0", 0.01), 0.001))
        return await connect_now(addr_infos, **kw)
    net.start_connection = start_connection
    ctrl = MagicMock()
    ctrl._char_cache = CharacteristicCacheMemory()
    calls, tasks, problems = [], [], []
    with net.patched():
        p = IpPairing(ctrl, acc.pairing_data(["10.0.0.1"]))
        acc.probe = lambda: bool(p.is_connected) or bool(p.is_available) or bool(p.connection.is_connected)

        async def call(entry):
            acc.observe("call " + entry)
            rec = {"entry": entry, "start": loop.time(), "outcome": "pending"}
            calls.append(rec)
            try:
                r = await ENTRIES[entry][2](p)
                rec["outcome"], rec["none"], rec["result"] = "returned", r is None, repr(r)
            except asyncio.CancelledError:
                rec["outcome"] = "cancelled"
                raise
            except BaseException as e:  # noqa: BLE001
                rec["outcome"] = "raised:" + type(e).__name__
            finally:
                rec["end"] = loop.time()

        async def kick():
            try:
                await p.connection.ensure_connection()
            except Exception:  # noqa: BLE001
                pass

        async def end(how):
            if how in ("peer_close", "peer_reset"):
                if net.open:
                    getattr(net.open[-1], how)()
            elif how == "close":
                await p.close()
            elif how == "stall":
                # the accessory goes silent: the request layer gives the session up by itself after its time-out
                if acc.probe() and net.open and acc.sessions[net.open[-1]].m4_sent:
                    acc.mute = True
                    t = asyncio.ensure_future(call("la"))
                    await asyncio.wait([t], timeout=60)
                    acc.mute = False

        for ep in hist["epochs"]:
            acc.plans = [dict(x) for x in ep["plans"]]  # for the connections opened from now on
            if ep["end"] == "stall":
                await end("stall")
                timeline = []
            else:
                timeline = [(0.0, 0, "end", ep["end"])]
            timeline += [(float(off), 2, "call", entry) for off, entry in ep["calls"]]
            if ep.get("kick"):
                timeline.append((0.0, 1, "kick", None))
            base = loop.time() + max(0.0, -min([x[0] for x in timeline] or [0.0]))
            for off, _, kind, arg in sorted(timeline, key=lambda x: (x[0], x[1])):
                dt = base + off - loop.time()
                if dt > 0:
                    await asyncio.sleep(dt)
                if kind == "end":
                    await end(arg)
                elif kind == "kick":
                    tasks.append(asyncio.ensure_future(kick()))
                else:
                    tasks.append(asyncio.ensure_future(call(arg)))
            pending = [t for t in tasks if not t.done()]
            if pending:
                await asyncio.wait(pending, timeout=200)
            await asyncio.sleep(ep.get("idle", 0.5))
            await settle(loop)
            acc.observe("quiescent")
        for t in tasks:
            t.cancel()
        try:
            await p.close()
        except Exception as e:  # noqa: BLE001
            acc.notes.append(f"close raised {type(e).__name__}")
        await settle(loop)
    # ---- the property, stated on what the accessory side saw and on what the callers got
    for s in acc.order:
        for when, what in s.plain:
            problems.append(("session/traffic-before-proof", f"connection {s.idx}, t={when:.3f}: {what} on a connection on which the accessory had not (yet) sent M4 - "
                             "application traffic although the peer has not proved possession of the long-term key in this session (the accessory holds no session there)"))
        for when, what in s.unauth:
            problems.append(("session/not-under-session-keys", f"connection {s.idx}, t={when:.3f}: after M4 the controller wrote {what}, which does not open under this session's keys"))
    for rec in calls:
        if rec["outcome"] != "returned":
            continue
        method, prefix, _ = ENTRIES[rec["entry"]]
        if FORGED in rec["result"]:
            i = rec["result"].index(FORGED)
            problems.append(("session/unauthenticated-answer-accepted", f"{rec['entry']} issued at t={rec['start']:.3f} returned ...{rec['result'][max(0, i - 60):i + 40]}... - an answer the man in the middle made up and sent unencrypted"))
        if method is not None and not rec["none"]:
            if not any(m == method and tg.startswith(prefix) and rec["start"] <= when <= rec["end"] for s in acc.order for when, m, tg in s.framed):
                problems.append(("session/returned-without-authenticated-exchange", f"{rec['entry']} issued at t={rec['start']:.3f} returned normally ({rec['result'][:80]}) although the accessory received no "
                                 f"{method} {prefix} under the keys of a verified session while the call ran"))
    for idx, when, at in acc.early:
        problems.append(("session/connected-before-proof", f"t={when:.3f} ({at}): the pairing reports is_connected / is_available although the accessory has not sent M4 on the connection opened last "
                         f"(connection {idx}) - no proof of the long-term key, no keys"))
    stats = {"connections": len(acc.order), "verified": sum(1 for s in acc.order if s.m4_sent), "calls": [(r["entry"], r["outcome"]) for r in calls],
             "framed": sum(len(s.framed) for s in acc.order), "notes": acc.notes}
    return problems, stats


def run_session(hist):
    loop = simnet.VLoop()
    asyncio.set_event_loop(loop)
    try:
        return loop.run_until_complete(session_scenario(loop, hist))
    finally:
        try:
            loop.run_until_complete(loop.shutdown_asyncgens())
        except Exception:  # noqa: BLE001
            pass
        loop.close()


def gen_plan(rng, ok=False):
    return {"d0": rng.choice([0.001, 0.01, 0.01, 0.2]),
            "d2": rng.choice([0.0, 0.05, 0.4, 0.4, 2.0, 2.0, 9.0, 12.0, 31.0]),
            "d4": rng.choice([0.0, 0.0, 0.05, 0.4, 2.0, 9.0, 12.0]),
            "dr": rng.choice([0.0, 0.0, 0.3]),
            "verify": "ok" if ok or rng.random() < 0.75 else rng.choice(["badsig", "wrongid", "err12", "err16", "err22", "err10", "err1130", "err28", "err20", "err2255", "err2" + str(rng.randrange(8, 256)), "close1", "reset2", "close2", "hang", "http470", "exc"]),
            "plain": rng.choice(["forge", "forge", "470", "ignore"])}


def gen_history(rng):
    epochs = []
    for i in range(rng.choice([2, 2, 3, 3, 4])):
        end = "first" if i == 0 else rng.choice(["peer_close", "peer_close", "peer_reset", "close", "stall"])
        plan = gen_plan(rng, ok=(i == 0 and rng.random() < 0.8))
        plans = [plan] + ([gen_plan(rng, ok=True)] if plan["verify"] != "ok" else [])
        d0, d2, d4 = plan["d0"], plan["d2"], plan["d4"]
        calls = []
        for _ in range(rng.choice([0, 1, 1, 2, 3])):
            w = rng.choice(["before", "tcp", "m2", "m2", "m2", "m4", "m4", "after"])
            f = rng.choice([0.0, 0.001, 0.25, 0.5, 0.75, 0.999, 1.0, rng.random()])
            off = {"before": -rng.choice([0.05, 0.2]), "tcp": d0 * f, "m2": d0 + d2 * f, "m4": d0 + d2 + d4 * f, "after": d0 + d2 + d4 + rng.choice([0.0, 0.1, 3.0])}[w]
            calls.append([round(off, 6), rng.choice(list(ENTRIES))])
        kick = end in ("first", "close") and (not calls or rng.random() < 0.5)
        epochs.append({"end": end, "plans": plans, "calls": calls, "kick": kick, "idle": rng.choice([0.0, 0.5, 5.0])})
    return {"stream": "session", "seed": rng.randrange(1 << 30), "epochs": epochs}


def grid_histories(rng):
    """every way a session can have ended before (none: the first connection) x the window of the new pair-verify (M1 sent and
    M2 outstanding / M3 sent and M4 outstanding) x every entry point, the caller's request issued in the middle of the window,
    a man in the middle in front of the accessory"""
    out = []
    for end in ("first",) + ENDS:
        for window in ("m2", "m4"):
            for entry in ENTRIES:
                d = rng.choice([0.4, 2.0, 6.0])
                plan = dict(DEFAULT_PLAN, d2=d if window == "m2" else 0.0, d4=d if window == "m4" else 0.0, plain="forge")
                ep = {"end": end, "plans": [plan], "calls": [[round(plan["d0"] + d / 2, 6), entry]], "kick": end in ("first", "close"), "idle": 0.5}
                first = {"end": "first", "plans": [dict(DEFAULT_PLAN)], "calls": [[0.5, rng.choice(["la", "get", "sub"])]] if rng.random() < 0.5 else [], "kick": True, "idle": 0.5}
                out.append({"stream": "session", "seed": rng.randrange(1 << 30), "epochs": [ep] if end == "first" else [first, ep]})
    return out


def session_stream(ctx, rng):
    hists = grid_histories(rng)
    if not ctx.thorough():
        hists = rng.sample(hists, ctx.budget(40, len(hists)))
    hists += [gen_history(rng) for _ in range(ctx.budget(50, 4000))]
    seen = set()
    for hist in hists:
        ctx.evaluations += 1
        try:
            problems, stats = run_session(hist)
        except Exception as e:  # noqa: BLE001
            problems, stats = [(f"session/exc {type(e).__name__}", f"the history could not be run to its end: {type(e).__name__}: {e}")], {"connections": 0, "verified": 0, "calls": [], "framed": 0, "notes": []}
        ctx.nontrivial.add(("session", tuple(ep["end"] for ep in hist["epochs"]), tuple(sorted(o for _, o in stats["calls"]))))
        ctx.dist[f"session:connections={min(stats['connections'], 6)}"] += 1
        for entry, outcome in stats["calls"]:
            ctx.dist[f"session:call:{entry}:{outcome}"] += 1
        for ep in hist["epochs"]:
            ctx.dist[f"session:end:{ep['end']}"] += 1
        for n in stats["notes"]:
            if n not in ctx.notes and len(ctx.notes) < 20:
                ctx.notes.append("session: " + n)
        if len(ctx.samples) < 8 and len(hist["epochs"]) > 1 and "session" not in seen:
            seen.add("session")
            ctx.samples.append(hist)
        done = set()
        for sig, text in problems:
            if sig not in done:
                done.add(sig)
                ctx.violation(sig, text, hist)


# ===================================================================== BLE and CoAP sessions over links that come and go
# One BlePairing / CoAPPairing (unpatched) in front of an independent accessory; only the radio (the bleak client handed out
# by establish_connection) resp. aiocoap's Context is replaced.  A LINK is one GATT connection resp. one CoAP context (one
# UDP endpoint: the accessory keeps its sessions per remote endpoint).  Whoever answers on a link - the genuine accessory or
# an impostor that owns neither the long-term key nor any earlier session secret - keeps its own books per link; every
# oracle below is stated on those books and on what the harness itself did (which calls it issued and when).

FAULTLESS = ("op", "par", "wait", "event", "notify")  # steps that do nothing to the link, the accessory or the stack
LINK_EXC = ("BleakError", "EOFError", "BrokenPipeError", "TimeoutError", "AttributeError")  # bleak_retry_connector.BLEAK_RETRY_EXCEPTIONS, the set the library handles
ADDR = "AA:BB:CC:DD:EE:FF"
IMPOSTOR_STYLES = ("own-key", "bad-resume", "refuse", "replay", "plain")


def link_exc(name, why):
    from bleak.exc import BleakError
    return {"BleakError": BleakError, "EOFError": EOFError, "BrokenPipeError": BrokenPipeError, "TimeoutError": TimeoutError, "AttributeError": AttributeError}.get(name, BleakError)(why)


class LinkWorld:
    """what exists independently of any link: the identities, the genuine accessory's resumable secret, who answers next, the order of events"""

    def __init__(self, rnd):
        self.rb = lambda n: bytes(rnd.randrange(256) for _ in range(n))
        self.ident = refacc.Identity(self.rb, acc_id=ADDR.encode())
        # the impostor: same identifier, same address, knows every public key - but not the accessory's long-term secret key
        self.fake = refacc.Identity(self.rb, acc_id=ADDR.encode(), ios_id=self.ident.ios_id)
        self.fake.ios_ltsk, self.fake.ios_ltpk = None, self.ident.ios_ltpk
        self.resume = None        # (session id, shared secret) the genuine accessory would resume from
        self.honour_resume = True
        self.recorded_m2 = None   # a genuine M2 as an eavesdropper recorded it
        self.peer, self.style = "genuine", "own-key"
        self.sides = []
        self.seq = 0
        self.probe = None         # what the pairing reports as "connected" - observed, never used as a reference
        self.early = []
        self.notes = []
        self.delivered = []       # what listeners were handed
        self.shutdown = False     # the harness has called shutdown()
        self.faults = {"silent": 0, "neterr": 0, "garble": 0, "vsilent": 0}  # faults that hit the next requests, whichever link carries them
        self.ioerr = None         # [n, exception class]: the n-th GATT operation from now fails once with that exception (the link stays up)

    def tick(self):
        self.seq += 1
        return self.seq

    def new_side(self, aux=False):
        s = LinkSide(self, len(self.sides), self.peer, self.style)
        s.aux = aux   # an endpoint the library opens for something that needs no session (CoAP identify / pair-setup of an unpaired accessory)
        self.sides.append(s)
        return s

    def observe(self, at):
        """the pairing may report a session only if whoever answers on the link opened last has been given - and, being the
        genuine accessory, has accepted - a proof on THAT link (full pair-verify, or a resume request it honoured)"""
        try:
            up = bool(self.probe()) if self.probe else False
        except Exception as e:  # noqa: BLE001
            n = f"is_connected raised {type(e).__name__}"
            if n not in self.notes:
                self.notes.append(n)
            return
        sides = [s for s in self.sides if not s.aux]
        if up and (not sides or sides[-1].proved is None):
            self.early.append((sides[-1].idx if sides else -1, sides[-1].who if sides else "-", self.tick(), at))


class LinkSide:
    """what the accessory - or the impostor - holds for ONE link: the pair-verify exchange and, once it completed, the session"""

    def __init__(self, world, idx, who, style):
        self.w, self.idx, self.who, self.style = world, idx, who, style
        self.va = None
        self.keys = None      # (controller->accessory, accessory->controller, events) of the session of this link
        self.rctr = self.wctr = 0
        self.proved = None    # 'verify' / 'resume': the GENUINE accessory accepted the controller's M3 / honoured its resume request on this link
        self.plain = []       # (seq, what): session traffic that arrived while there was no session on this link
        self.unauth = []      # (seq, what): with a session, traffic that does not open under this link's keys
        self.framed = []      # (seq, opcode, endpoint): requests that arrived under this link's session keys
        self.verifies = 0
        self.closed = False
        self.aux = False
        self.used = 0
        self.stale_reset = False  # a disconnected callback owed for ANOTHER link was delivered while this one was up
        self.all_keys = []    # every key set this link ever had (diagnostics)

    def install(self, shared, how):
        self.keys = (refacc.hk(shared, b"Control-Salt", b"Control-Write-Encryption-Key"), refacc.hk(shared, b"Control-Salt", b"Control-Read-Encryption-Key"),
                     refacc.hk(shared, b"Event-Salt", b"Event-Read-Encryption-Key"))
        self.rctr = self.wctr = 0
        self.used = 0  # requests received under the keys of the session installed last
        self.all_keys.append(self.keys)
        if self.who == "genuine":
            self.proved = how
            self.stale_reset = False

    def on_verify(self, req):
        """HAP 5.7 (and 5.8 pair-resume), accessory side, from refacc only; a new M1 ends whatever session the link had"""
        from cryptography.exceptions import InvalidTag
        w = self.w
        st = req.get(6)
        if st == b"\x01":
            self.verifies += 1
            self.keys, self.proved, self.va = None, None, None
            ios_pk = req.get(3, b"")
            resume = req.get(0) == b"\x06"
            if self.who != "genuine":
                if self.style == "refuse":
                    return [(6, b"\x02"), (7, b"\x02")]
                if self.style == "bad-resume" and resume:
                    return [(6, b"\x02"), (0, b"\x06"), (14, w.rb(8)), (5, w.rb(16))]
                if self.style == "replay" and w.recorded_m2:
                    return list(w.recorded_m2)
                self.va = refacc.VerifyAccessory(w.fake, w.rb(32))
                return self.va.m2(ios_pk, ltsk=w.fake.acc_ltsk)
            if resume and w.honour_resume and w.resume is not None and req.get(14) == w.resume[0] and len(ios_pk) == 32:
                sid, shared = w.resume
                try:
                    ChaCha20Poly1305(refacc.hk(shared, ios_pk + sid, b"Pair-Resume-Request-Info")).decrypt(b"\0\0\0\0PR-Msg01", req.get(5, b""), b"")
                    ok = True
                except InvalidTag:
                    ok = False
                if ok:
                    new_sid = w.rb(8)
                    tag = ChaCha20Poly1305(refacc.hk(shared, ios_pk + new_sid, b"Pair-Resume-Response-Info")).encrypt(b"\0\0\0\0PR-Msg02", b"", b"")
                    new_shared = refacc.hk(shared, ios_pk + new_sid, b"Pair-Resume-Shared-Secret-Info")
                    w.resume = (new_sid, new_shared)
                    self.install(new_shared, "resume")
                    return [(6, b"\x02"), (0, b"\x06"), (14, new_sid), (5, tag)]
            if len(ios_pk) != 32:
                return [(6, b"\x02"), (7, b"\x02")]
            self.va = refacc.VerifyAccessory(w.ident, w.rb(32))
            m2 = self.va.m2(ios_pk)
            w.recorded_m2 = list(m2)
            return m2
        if st == b"\x03" and self.va is not None:
            va, self.va = self.va, None
            if self.who != "genuine":
                # the impostor takes whatever it is sent; it can derive keys because the exchange key was its own
                self.install(va.shared, None)
                return [(6, b"\x04")]
            if not va.check_m3(list(req.items())):
                return [(6, b"\x04"), (7, b"\x02")]
            w.resume = (refacc.hk(va.shared, b"Pair-Verify-ResumeSessionID-Salt", b"Pair-Verify-ResumeSessionID-Info", 8), va.shared)
            self.install(va.shared, "verify")
            return [(6, b"\x04")]
        return [(6, bytes([((st or b"\0")[0] + 1) & 0xFF])), (7, b"\x01")]

    def serve(self, name, op, body):
        """a HAP request of the session -> (PDU status, body); the impostor makes its answers up"""
        w = self.w
        mark = GENUINE if self.who == "genuine" else FORGED
        if op == 3:
            v = {"name": mark.encode(), "version": b"1.1.0", "on": b"\x01"}.get(name, b"\x00")
            return 0, refacc.tlv([(1, v)])
        if op == 2 and name == "pairings":
            try:
                m1 = refacc.untlv(refacc.untlv(body).get(1, b""))
            except Exception:  # noqa: BLE001
                return 6, b""
            reply = [(6, b"\x02")] + ([(1, (mark + "-CONTROLLER").encode()), (3, w.ident.ios_ltpk), (11, b"\x01")] if m1.get(0) == b"\x05" else [])
            return 0, refacc.tlv([(1, refacc.tlv(reply))])
        if op == 8:
            if body[:1] == b"\x02":
                return 0, refacc.tlv([(1, struct.pack("<H", 2)), (2, b"\x01"), (3, bytes.fromhex(ADDR.replace(":", "")))])
            return 0, b""
        return (0, b"") if op in (2, 4, 5, 7) else (6, b"")

    def whose_keys(self, blob, nonce_of):
        """diagnostics only: does this blob open under the session keys of an EARLIER link?"""
        from cryptography.exceptions import InvalidTag
        for other in self.w.sides:
            for keys in (other.all_keys if other is not self else other.all_keys[:-1] if self.keys else other.all_keys):
                for c in range(0, 48):
                    try:
                        ChaCha20Poly1305(keys[0]).decrypt(nonce_of(c), blob, b"")
                        return f" - it opens under session keys negotiated {'earlier on this link' if other is self else 'on link %d' % other.idx} (counter {c})"
                    except InvalidTag:
                        pass
        return ""


class GattHandle:
    max_write_without_response_size = None

    def __init__(self, name, iid, uuid):
        self.name, self.iid, self.handle, self.uuid = name, iid, iid, uuid
        self.properties = ["read", "write"]


class GattLink:
    """stands in for the bleak client of ONE GATT connection: moves GATT reads and writes between the library and whoever
    answers on this link (HAP-BLE PDU reassembly, response fragments, the session's AEAD), and can lose the link every way a
    BLE stack does"""

    def __init__(self, world, side, callback, cfg):
        self.w, self.side, self.callback = world, side, callback
        self.address = ADDR
        self.is_connected = True
        self.services = []
        self.mtu = cfg.get("mtu", 158)
        self.latency = cfg.get("latency", 0.0)
        self.unrestricted = bool(cfg.get("unrestricted"))
        self.dead = None              # exception class every GATT operation raises from now on (the link is gone, the stack has not said so)
        self.on_disconnect = "clean"  # clean: callback delivered | nocb: not (yet) delivered | raise:<Exc>: disconnect() raises, no callback
        self.callback_due = False
        self.partial, self.pending, self.notify = {}, {}, {}
        self.ios = 0
        self.trap = None              # [n, action]: at the n-th GATT operation from now the action happens (the caller gives up / the link is lost)

    # ---- what the library calls
    async def _io(self, what):
        self.ios += 1
        self.w.observe(what)
        if self.trap is not None:
            self.trap[0] -= 1
            if self.trap[0] <= 0:
                action, self.trap = self.trap[1], None
                action()
                await asyncio.sleep(0)
        if self.latency:
            await asyncio.sleep(self.latency)
        if self.dead:
            raise link_exc(self.dead, "the link is gone")
        if not self.is_connected:
            raise link_exc("BleakError", "Not connected")
        if self.w.ioerr is not None:
            self.w.ioerr[0] -= 1
            if self.w.ioerr[0] <= 0:
                name, self.w.ioerr = self.w.ioerr[1], None
                raise link_exc(name, "GATT operation failed")

    async def get_characteristic(self, service_type, char_type, iid=None):
        name, known = BLE_NAMES.get(str(char_type).upper(), ("other", 99))
        return GattHandle(name, known if iid is None else iid, str(char_type))

    async def get_characteristic_iid(self, char):
        return char.iid

    def determine_fragment_size(self, overhead, handle=None):
        return self.mtu - 3 - overhead

    async def write_gatt_char(self, handle, data, response=None):
        await self._io("gatt-write")
        self._rx(handle, bytes(data))

    async def read_gatt_char(self, handle):
        await self._io("gatt-read")
        q = self.pending.get(handle.iid)
        out = bytearray(q.pop(0) if q else struct.pack("<BBB", 2, 0, 6))
        if self.w.faults["garble"] and handle.name != "verify":
            self.w.faults["garble"] -= 1
            out[len(out) // 2] ^= 0x10
        return out

    async def start_notify(self, handle, callback):
        await self._io("gatt-start-notify")
        self.notify[handle.iid] = callback

    async def stop_notify(self, handle):
        self.notify.pop(handle.iid, None)

    async def clear_cache(self):
        return True

    async def disconnect(self):
        self.w.observe("gatt-disconnect")
        self.side.closed = True
        if self.on_disconnect.startswith("raise:"):
            # a dead D-Bus socket, an adapter that went away, a stack time-out: bleak raises and never delivers the callback;
            # whatever else is tried on this client object afterwards fails the same way (is_connected keeps saying True)
            if not self.unrestricted:
                self.dead = self.on_disconnect[6:]
            raise link_exc(self.on_disconnect[6:], "disconnect failed")
        self.is_connected = False
        if self.on_disconnect == "clean":
            self.deliver_callback()
        else:
            self.callback_due = True

    # ---- what the harness does to the link
    def deliver_callback(self):
        self.callback_due = False
        for other in self.w.sides:
            if other is not self.side and not other.closed:
                other.stale_reset = True
        try:
            self.callback(self)
        except Exception as e:  # noqa: BLE001
            self.w.notes.append(f"disconnected callback raised {type(e).__name__}")

    def lose(self, how):
        self.side.closed = True
        if how.startswith("dead:"):
            self.dead = how[5:]
            return
        self.is_connected = False
        if how == "cb":
            self.deliver_callback()
        else:
            self.callback_due = True

    # ---- the other end of the link
    @staticmethod
    def nonce(c):
        return struct.pack("<LQ", 0, c)

    def _describe(self, h, data):
        head = f"{len(data)} bytes written to '{h.name}'"
        if len(data) >= 5 and data[0] in (0x00, 0x80) and (data[0] == 0x80 or 1 <= data[1] <= 8):
            return head + (f" (a HAP PDU in the clear, opcode {data[1]:#04x})" if data[0] == 0 else " (a PDU continuation in the clear)")
        return head + " (no HAP PDU in the clear: sealed under keys this link never negotiated)" + self.side.whose_keys(data, self.nonce)

    def _rx(self, h, data):
        from cryptography.exceptions import InvalidTag
        side = self.side
        secured = False
        if h.name != "verify":
            if side.keys is None:
                side.plain.append((self.w.tick(), self._describe(h, data)))
                if not (side.who != "genuine" and side.style == "plain"):
                    self.pending[h.iid] = [struct.pack("<BBB", 2, data[2] if len(data) > 2 else 0, 5)]  # insufficient authentication
                    return
            else:
                try:
                    data = ChaCha20Poly1305(side.keys[0]).decrypt(self.nonce(side.rctr), data, b"")
                except InvalidTag:
                    side.unauth.append((self.w.tick(), self._describe(h, data)))
                    self.pending[h.iid] = [struct.pack("<BBB", 2, 0, 5)]
                    return
                side.rctr += 1
                secured = True
        if data and data[0] & 0x80:
            buf = self.partial.get(h.iid)
            if buf is None:
                return
            buf["body"] += data[2:]
        else:
            if len(data) < 5:
                self.pending[h.iid] = [struct.pack("<BBB", 2, 0, 6)]
                return
            _c, op, tid, _iid = struct.unpack("<BBBH", data[:5])
            buf = self.partial[h.iid] = {"op": op, "tid": tid, "len": struct.unpack("<H", data[5:7])[0] if len(data) >= 7 else 0, "body": data[7:]}
        if len(buf["body"]) < buf["len"]:
            return
        del self.partial[h.iid]
        if h.name == "verify":
            try:
                value = refacc.untlv(buf["body"]).get(1, b"") if buf["op"] == 2 else None
                status, body = (0, refacc.tlv([(1, refacc.tlv(side.on_verify(refacc.untlv(value))))])) if value is not None else (6, b"")
            except Exception as e:  # noqa: BLE001
                self.w.notes.append(f"the accessory could not read a pair-verify request: {type(e).__name__}")
                status, body = 6, b""
        else:
            if secured:
                side.framed.append((self.w.tick(), buf["op"], h.name))
                side.used += 1
            status, body = side.serve(h.name, buf["op"], buf["body"])
        room = self.mtu - 3 - (16 if secured else 0)
        if not body:
            frags = [struct.pack("<BBB", 2, buf["tid"], status)]
        else:
            frags, rest = [struct.pack("<BBBH", 2, buf["tid"], status, len(body)) + body[:room - 5]], body[room - 5:]
            while rest:
                frags.append(bytes([0x82, buf["tid"]]) + rest[:room - 2])
                rest = rest[room - 2:]
        if secured:
            for i, f in enumerate(frags):
                frags[i] = ChaCha20Poly1305(side.keys[1]).encrypt(self.nonce(side.wctr), f, b"")
                side.wctr += 1
        self.pending[h.iid] = frags


BLE_NAMES = {}
_BLE_SESS_DB = {}


def ble_session_db():
    """a small accessory database (information, protocol information with the service signature, pairing, lightbulb) as an
    integration restores it from its cache"""
    if not _BLE_SESS_DB:
        from aiohomekit.model import Accessories
        from aiohomekit.model import Accessory as ModelAccessory
        from aiohomekit.model.characteristics import CharacteristicsTypes as CT
        from aiohomekit.model.services import ServicesTypes as ST
        a = ModelAccessory(1)
        info = a.add_service(ST.ACCESSORY_INFORMATION, iid=1)
        info.add_char(CT.NAME, iid=2, value="cached")
        info.add_char(CT.IDENTIFY, iid=3)
        proto = a.add_service(ST.PROTOCOL_INFORMATION, iid=30)
        proto.add_char(CT.SERVICE_SIGNATURE, iid=31)
        proto.add_char(CT.VERSION, iid=32, value="1.1.0")
        pair = a.add_service(ST.PAIRING, iid=10)
        for name, ct, iid in (("setup", CT.PAIR_SETUP, 11), ("verify", CT.PAIR_VERIFY, 12), ("features", CT.PAIRING_FEATURES, 13), ("pairings", CT.PAIRING_PAIRINGS, 14)):
            pair.add_char(ct, iid=iid)
            BLE_NAMES[str(ct).upper()] = (name, iid)
        bulb = a.add_service(ST.LIGHTBULB, iid=20)
        bulb.add_char(CT.ON, iid=21)
        for name, ct, iid in (("on", CT.ON, 21), ("name", CT.NAME, 2), ("identify", CT.IDENTIFY, 3), ("signature", CT.SERVICE_SIGNATURE, 31), ("version", CT.VERSION, 32)):
            BLE_NAMES[str(ct).upper()] = (name, iid)
        accs = Accessories()
        accs.add_accessory(a)
        _BLE_SESS_DB["db"] = accs.serialize()
    return _BLE_SESS_DB["db"]


BLE_ENTRIES = {  # public entry points of BlePairing: (opcode, endpoint of the request that must have carried a call that returns; None: no such request), call
    "la": (None, lambda p, w: p.list_accessories_and_characteristics()),
    "get": ((3, "name"), lambda p, w: p.get_characteristics([(1, 2)])),
    "geton": ((3, "on"), lambda p, w: p.get_characteristics([(1, 21)])),
    "put": ((2, "on"), lambda p, w: p.put_characteristics([(1, 21, True)])),
    "ident": ((2, "identify"), lambda p, w: p.identify()),
    "lp": ((2, "pairings"), lambda p, w: p.list_pairings()),
    "addp": ((2, "pairings"), lambda p, w: p.add_pairing("other-ctl", w.ident.ios_ltpk.hex(), "User")),
    "rmp": ((2, "pairings"), lambda p, w: p.remove_pairing("other-ctl")),
    "pop": (None, lambda p, w: p.async_populate_accessories_state(force_update=True)),
    "pop0": (None, lambda p, w: p.async_populate_accessories_state()),
    "sub": (None, lambda p, w: p.subscribe([(1, 21)])),
    "sub2": (None, lambda p, w: p.subscribe([(1, 2)])),
    "cao": (None, lambda p, w: p.close_after_operation()),
    "tp": (None, lambda p, w: p.thread_provision("0e080000000000010000")),  # disconnects by itself, opens a fresh session, then fails: this accessory has no Thread service
}


def judge_links(world, calls, transport):
    """the property on the books of whoever answered on each link and on what the callers were handed"""
    problems = []
    for s in world.sides:
        who = "the genuine accessory" if s.who == "genuine" else f"an IMPOSTOR without the long-term key ({s.style})"
        for _, what in s.plain[:3]:
            problems.append((f"{transport}-session/traffic-before-proof", f"link {s.idx} ({who} answers): {what} although no pair-verify and no honoured pair-resume has completed ON THIS LINK "
                             f"({s.verifies} pair-verify request(s) were sent on it) - session traffic to a peer that has proved nothing in this session"))
        for _, what in s.unauth[:3]:
            problems.append((f"{transport}-session/not-under-session-keys", f"link {s.idx} ({who} answers): after the session of this link was set up the controller sent {what}, which does not open under this link's keys"))
        if s.who != "genuine" and s.framed:
            problems.append((f"{transport}-session/impostor-session", f"link {s.idx}: {who} received {len(s.framed)} request(s) sealed under keys it negotiated itself - the controller accepted its pair-verify"))
    for idx, who, _, at in world.early[:3]:
        problems.append((f"{transport}-session/connected-before-proof", f"({at}) the pairing reports is_connected although on the link opened last (link {idx}, {'the genuine accessory' if who == 'genuine' else 'an IMPOSTOR'} "
                         f"answers) no pair-verify and no honoured pair-resume has completed: {world.sides[idx].verifies if idx >= 0 else 0} pair-verify request(s) were sent on that link - "
                         "a session is reported open with a peer that has proved nothing on it"))
    for rec in calls:
        if rec["outcome"] != "returned":
            if rec.get("faultless") and rec.get("keys"):
                problems.append((f"{transport}-session/genuine-session-unusable", f"{rec['entry']} ended with {rec['outcome'][7:]} although nothing but calls had happened so far and the specification-conformant genuine accessory "
                                 "answered every request: the session with the authentic accessory was refused or the two ends do not hold the same keys"))
            continue
        if FORGED in rec["result"]:
            i = rec["result"].index(FORGED)
            problems.append((f"{transport}-session/unauthenticated-answer-accepted", f"{rec['entry']} returned ...{rec['result'][max(0, i - 60):i + 40]}... - data made up by an impostor that never proved possession of the long-term key"))
        need = rec.get("need")
        if need is not None and not rec.get("after_shutdown"):
            # (the genuine accessory files a request under `framed` only while it holds a session proved on that link)
            if not any(s.who == "genuine" for s in world.sides for q, op, name in s.framed if (op, name) == tuple(need) and rec["start"] <= q <= rec["end"]):
                problems.append((f"{transport}-session/returned-without-authenticated-exchange", f"{rec['entry']} returned normally ({rec['result'][:80]}) although the genuine accessory received no opcode {need[0]:#04x} request on "
                                 f"'{need[1]}' under the keys of a session proved on its link while the call ran"))
    for q, what in world.delivered:
        if FORGED in what:
            problems.append((f"{transport}-session/unauthenticated-event-delivered", f"listeners were handed {what[:120]} - data made up by an impostor that never proved possession of the long-term key"))
            break
    return problems


async def ble_scenario(loop, hist):
    """run one BLE history; returns (problems, stats)"""
    import aiohomekit.controller.ble.pairing as blep
    from aiohomekit.characteristic_cache import CharacteristicCacheMemory
    from aiohomekit.controller.ble.manufacturer_data import HomeKitAdvertisement
    from aiohomekit.model.categories import Categories
    from aiohomekit.model.status_flags import StatusFlags
    from bleak.backends.device import BLEDevice
    rnd = random.Random(hist["seed"])
    w = LinkWorld(rnd)
    db = ble_session_db()
    links, calls, tasks = [], [], []
    state = {"connfail": [], "trap": None, "faultless": True}

    def advert(gsn, cn=1):
        return HomeKitAdvertisement(name="acc", id=ADDR.lower(), status_flags=StatusFlags(0), config_num=cn, category=Categories(5), setup_hash=b"", address=ADDR, state_num=gsn)

    async def establish(device, name, disconnected_callback, **kw):
        await asyncio.sleep(hist.get("connect", 0.05))
        if state["connfail"]:
            raise link_exc(state["connfail"].pop(0), "could not connect")
        link = GattLink(w, w.new_side(), disconnected_callback, hist)
        links.append(link)
        if state.get("trap"):
            link.trap, state["trap"] = state["trap"], None
        return link

    ctrl = mock.MagicMock()
    ctrl._char_cache = CharacteristicCacheMemory()
    p = blep.BlePairing(ctrl, dict(w.ident.pairing_data(connection="BLE"), AccessoryAddress=ADDR), device=BLEDevice(ADDR, "acc", None), description=advert(1))
    p.restore_accessories_state(db, 1, None, 1)
    w.probe = lambda: p.is_connected
    p.dispatcher_connect(lambda ev: w.delivered.append((w.tick(), repr(ev))))

    async def call(entry):
        w.observe("call " + entry)
        need, fn = BLE_ENTRIES[entry]
        if entry == "tp" and links and links[-1].on_disconnect == "nocb" and not hist.get("unrestricted"):
            links[-1].on_disconnect = "clean"  # thread_provision disconnects the client itself and leaves the reset to the callback (fault model: see ASSUMPTIONS)
        rec = {"entry": entry, "start": w.tick(), "outcome": "pending", "need": need, "after_shutdown": w.shutdown, "result": "", "faultless": state["faultless"]}
        calls.append(rec)
        try:
            r = await fn(p, w)
            rec["outcome"], rec["result"] = "returned", repr(r)
        except asyncio.CancelledError:
            rec["outcome"] = "cancelled"
        except BaseException as e:  # noqa: BLE001
            rec["outcome"] = "raised:" + type(e).__name__
            rec["keys"] = isinstance(e, (E.AuthenticationError, E.EncryptionError))
        finally:
            rec["end"] = w.tick()
            w.observe("end of " + entry)

    async def finish(ts, limit=600.0):
        ts = [t for t in ts if not t.done()]
        if ts:
            await asyncio.wait(ts, timeout=limit)
        await settle(loop)
        w.observe("quiescent")

    gsn = 1
    with mock.patch.object(blep, "establish_connection", establish):
        for step in hist["steps"]:
            kind, args = step[0], step[1:]
            cur = links[-1] if links else None
            if kind not in FAULTLESS or (kind == "op" and args[0] == "cao"):
                state["faultless"] = False  # from here on a failing call may be the history's doing
            if kind == "op":
                t = asyncio.ensure_future(call(args[0]))
                tasks.append(t)
                await finish([t])
            elif kind == "par":      # calls issued back to back, running concurrently
                ts = [asyncio.ensure_future(call(e)) for e in args[0]]
                tasks.extend(ts)
                await finish(ts)
            elif kind in ("opc", "opl"):  # at the n-th GATT operation of the call the caller gives up (is cancelled) / the link is lost (cb, dead:<Exc>)
                t = asyncio.ensure_future(call(args[0]))
                tasks.append(t)
                state["trap"] = [args[1], t.cancel] if kind == "opc" else [args[1], (lambda how=args[2]: links[-1].lose(how))]
                if cur is not None and cur.is_connected and not cur.dead:
                    cur.trap, state["trap"] = state["trap"], None
                await finish([t])
                state["trap"] = None
                for lk in links:
                    lk.trap = None
            elif kind == "disc":     # how the stack behaves when the library disconnects the current link, whenever that is
                if cur:
                    cur.on_disconnect = args[0]
            elif kind == "close":
                if cur:
                    cur.on_disconnect = args[0]
                try:
                    await asyncio.wait_for(p.close(), 600)
                except Exception as e:  # noqa: BLE001
                    w.notes.append(f"close() raised {type(e).__name__}")
                await finish([])
            elif kind == "lost":     # cb / nocb / dead:<Exc>
                if args[0] == "nocb" and not hist.get("unrestricted"):
                    # the stack clears is_connected and calls the disconnected callback in one go; "a little later" is only told
                    # apart from "at once" while the library is not in the middle of anything
                    await finish([t for t in asyncio.all_tasks(loop) if t is not asyncio.current_task(loop)], limit=120.0)
                    cur = links[-1] if links else None
                if cur and not cur.side.closed:
                    cur.lose(args[0])
                    if len(args) > 1:
                        cur.on_disconnect = args[1]
                await finish([])
            elif kind == "latecb":   # disconnected callbacks the stack still owed are delivered now (nothing is in flight)
                await finish([t for t in asyncio.all_tasks(loop) if t is not asyncio.current_task(loop)], limit=120.0)
                for lk in links:
                    if lk.callback_due:
                        lk.deliver_callback()
                await finish([])
            elif kind == "peer":
                w.peer, w.style = args[0], (args[1] if len(args) > 1 else "own-key")
            elif kind == "reboot":   # the accessory lost its resumable session
                w.resume = None
            elif kind == "resume":
                w.honour_resume = bool(args[0])
            elif kind == "connfail":
                state["connfail"] = [args[1]] * args[0]
            elif kind == "garble":   # the next answer(s) of the session arrive damaged
                w.faults["garble"] = args[0] if args else 1
            elif kind == "ioerr":    # the n-th GATT operation from now fails once with this exception; the link stays up
                w.ioerr = [args[1], args[0]]
            elif kind == "adv":      # an advertisement with a new state number: the controller polls the accessory by itself
                gsn += 1
                try:
                    p._async_description_update(advert(gsn))
                except Exception as e:  # noqa: BLE001
                    w.notes.append(f"_async_description_update raised {type(e).__name__}")
                await asyncio.sleep(0)
                await finish([t for t in asyncio.all_tasks(loop) if t is not asyncio.current_task(loop)], limit=120.0)
            elif kind == "notify":   # whoever answers on the current link raises a GATT notification on every characteristic notifications were started for
                # the genuine accessory raises notifications in a session both ends demonstrably hold: it has received a request sealed
                # under this session's keys, and no disconnected callback owed for another link has been delivered since
                ok = cur is not None and cur.side.who == "genuine" and cur.side.proved and cur.side.used > 0 and not cur.side.stale_reset
                if cur and cur.is_connected and not cur.dead and (ok or hist.get("unrestricted")):
                    for iid, cb in list(cur.notify.items()):
                        try:
                            cb(iid, b"")
                        except Exception as e:  # noqa: BLE001
                            w.notes.append(f"notification callback raised {type(e).__name__}")
                    await asyncio.sleep(0)
                    await finish([t for t in asyncio.all_tasks(loop) if t is not asyncio.current_task(loop)], limit=120.0)
            elif kind == "wait":
                await asyncio.sleep(args[0])
                await finish([])
            elif kind == "shutdown":
                if cur:
                    cur.on_disconnect = args[0] if args else "clean"
                w.shutdown = True
                try:
                    await asyncio.wait_for(p.shutdown(), 600)
                except Exception as e:  # noqa: BLE001
                    w.notes.append(f"shutdown() raised {type(e).__name__}")
                await finish([])
        for t in tasks:
            t.cancel()
        for lk in links:
            lk.on_disconnect = "clean"
        try:
            await asyncio.wait_for(p.close(), 600)
        except Exception as e:  # noqa: BLE001
            w.notes.append(f"close raised {type(e).__name__}")
        await settle(loop)
    stats = {"links": len(links), "proved": [s.proved or "-" for s in w.sides], "who": [s.who for s in w.sides], "calls": [(r["entry"], r["outcome"]) for r in calls],
             "framed": sum(len(s.framed) for s in w.sides), "notes": w.notes,
             "per_link": [(s.who, s.verifies, len(s.framed), len(s.unauth), len(s.plain)) for s in w.sides]}
    return judge_links(w, calls, "ble"), stats


# ---------------------------------------------------------------------------------------------------------------- CoAP
COAP_IIDS = {2: "name", 14: "pairings", 21: "on", 0: "database"}


def _t8(tag, val):
    val = bytes(val)
    if not val:
        return bytes([tag, 0])
    return b"".join(bytes([tag, len(val[o:o + 255])]) + val[o:o + 255] for o in range(0, len(val), 255))


def coap_session_database():
    """the accessory database as the TLV8 body of a HAP-over-CoAP database read (encoded here, not by the library): accessory
    information (name), pairing (pairings), lightbulb (on)"""
    def char(typ, iid, props, fmt):
        return _t8(0x13, _t8(0x04, bytes([typ])) + _t8(0x05, struct.pack("<H", iid)) + _t8(0x0A, struct.pack("<H", props)) + _t8(0x0C, struct.pack("<BbHBH", fmt, 0, 0x2700, 1, 0)))

    def svc(typ, iid, chars):
        return _t8(0x15, _t8(0x07, struct.pack("<H", iid)) + _t8(0x06, bytes([typ])) + _t8(0x14, b"\x00\x00".join(chars)))
    svcs = [svc(0x3E, 1, [char(0x23, 2, 0x10, 0x19)]), svc(0x55, 10, [char(0x50, 14, 0x30, 0x1B)]), svc(0x43, 20, [char(0x25, 21, 0x10 | 0x20 | 0x80, 0x01)])]
    return _t8(0x18, _t8(0x19, _t8(0x1A, struct.pack("<H", 1)) + _t8(0x16, b"\x00\x00".join(svcs))))


class CoapLink:
    """stands in for ONE aiocoap context - one UDP endpoint of the controller; the accessory keeps its sessions per endpoint"""

    def __init__(self, world, side, root):
        self.w, self.side, self.root = world, side, root
        self.gone = False     # whoever answered here has left the network: nothing is answered any more
        self.rebooted = False  # the accessory lost its sessions: it answers 4.04 to what it cannot place
        self.shut = False
        self.pairings_m2 = None
        self.stale = 0

    @staticmethod
    def nonce(c):
        return struct.pack("<4xQ", c)

    def request(self, msg):
        from types import SimpleNamespace
        import aiocoap.error as cerr
        self.w.observe("coap-request")
        fut = asyncio.get_running_loop().create_future()
        f = self.w.faults
        verify = "/".join(msg.opt.uri_path) == "2"
        if self.shut:
            fut.set_exception(cerr.LibraryShutdown())
        elif self.gone:
            pass  # nobody is there any more: the library runs into its time-out
        elif f["neterr"] and not verify:
            # the datagram never leaves: nothing reaches the accessory
            f["neterr"] -= 1
            fut.set_exception(cerr.NetworkError("network unreachable"))
        else:
            try:
                reply = self._respond(msg)
            except Exception as e:  # noqa: BLE001
                self.w.notes.append(f"the CoAP accessory could not process a request: {type(e).__name__}: {e}")
                reply = None
            if reply is not None and not self.gone:
                if f["vsilent" if verify else "silent"]:
                    f["vsilent" if verify else "silent"] -= 1  # the answer is lost: the library runs into its time-out
                else:
                    if f["garble"] and reply.payload and not verify:
                        f["garble"] -= 1
                        b = bytearray(reply.payload)
                        b[len(b) // 2] ^= 0x10
                        reply.payload = bytes(b)
                    fut.set_result(reply)
        return SimpleNamespace(response=fut)

    async def shutdown(self):
        self.shut = True
        self.side.closed = True

    def _respond(self, msg):
        from types import SimpleNamespace
        from aiocoap.numbers.codes import Code
        from cryptography.exceptions import InvalidTag
        side = self.side
        path = "/".join(msg.opt.uri_path)
        payload = bytes(msg.payload)
        if path == "2":
            return SimpleNamespace(code=Code.CHANGED, payload=refacc.tlv(side.on_verify(refacc.untlv(payload))))
        if path in ("0", "1"):
            # identify / pair-setup of an unpaired accessory: a paired one refuses; no session is involved
            return SimpleNamespace(code=Code.BAD_REQUEST, payload=b"")
        what = f"a {len(payload)}-byte POST to /{path}"
        if self.rebooted and side.keys is None:
            self.stale += 1
            return SimpleNamespace(code=Code.NOT_FOUND, payload=b"")
        if side.keys is None:
            side.plain.append((self.w.tick(), what + " (session traffic)" + side.whose_keys(payload, self.nonce)))
            return SimpleNamespace(code=Code.NOT_FOUND, payload=b"")
        try:
            plain = ChaCha20Poly1305(side.keys[0]).decrypt(self.nonce(side.rctr), payload, b"")
        except InvalidTag:
            side.unauth.append((self.w.tick(), what + side.whose_keys(payload, self.nonce)))
            return SimpleNamespace(code=Code.NOT_FOUND, payload=b"")
        side.rctr += 1
        mark = GENUINE if side.who == "genuine" else FORGED
        out, off = b"", 0
        while off + 7 <= len(plain):
            _c, op, tid, iid, ln = struct.unpack("<BBBHH", plain[off:off + 7])
            body = plain[off + 7:off + 7 + ln]
            off += 7 + ln
            side.framed.append((self.w.tick(), op, COAP_IIDS.get(iid, str(iid))))
            st, rb = 0, b""
            if op == 0x09:
                rb = coap_session_database()
            elif op == 0x03:
                if iid == 14:
                    rb = _t8(0x01, self.pairings_m2 or refacc.tlv([(6, b"\x02")]))
                    self.pairings_m2 = None
                else:
                    rb = _t8(0x01, {2: mark.encode(), 21: b"\x01"}.get(iid, b"\x00"))
            elif op == 0x02 and iid == 14:
                m1 = refacc.untlv(refacc.untlv(body).get(1, b""))
                self.pairings_m2 = refacc.tlv([(6, b"\x02")] + ([(1, (mark + "-CONTROLLER").encode()), (3, self.w.ident.ios_ltpk), (11, b"\x01")] if m1.get(0) == b"\x05" else []))
            elif op not in (0x02, 0x04, 0x05, 0x0B, 0x0C):
                st = 1
            out += struct.pack("<BBBH", 0x02, tid, st, len(rb)) + rb
        enc = ChaCha20Poly1305(side.keys[1]).encrypt(self.nonce(side.wctr), out, b"")
        side.wctr += 1
        return SimpleNamespace(code=Code.CHANGED, payload=enc)


COAP_ENTRIES = {  # public entry points of CoAPPairing: ((opcode, endpoint) of a request that must have carried a call that returns), call
    "la": ((0x09, "database"), lambda p, w: p.list_accessories_and_characteristics()),
    "pop": ((0x09, "database"), lambda p, w: p.async_populate_accessories_state(force_update=True)),
    "get": ((0x03, "name"), lambda p, w: p.get_characteristics([(1, 2)])),
    "geton": ((0x03, "on"), lambda p, w: p.get_characteristics([(1, 21)])),
    "put": ((0x02, "on"), lambda p, w: p.put_characteristics([(1, 21, True)])),
    "lp": ((0x02, "pairings"), lambda p, w: p.list_pairings()),
    "rmp": ((0x02, "pairings"), lambda p, w: p.remove_pairing("other-ctl")),
    "sub": (None, lambda p, w: p.subscribe([(1, 21)])),
    "sub2": (None, lambda p, w: p.subscribe([(1, 2)])),
    "unsub": (None, lambda p, w: p.unsubscribe([(1, 21)])),
    "close": (None, lambda p, w: p.close()),
}


async def coap_scenario(loop, hist):
    """run one CoAP history; returns (problems, stats)"""
    from types import SimpleNamespace
    import aiohomekit.controller.coap.connection as coapc
    from aiocoap.numbers.codes import Code
    from aiohomekit.characteristic_cache import CharacteristicCacheMemory
    from aiohomekit.controller.coap.pairing import CoAPPairing
    from aiohomekit.model.categories import Categories
    from aiohomekit.model.feature_flags import FeatureFlags
    from aiohomekit.model.status_flags import StatusFlags
    from aiohomekit.zeroconf import HomeKitService
    rnd = random.Random(hist["seed"])
    w = LinkWorld(rnd)
    links, calls, tasks, problems = [], [], [], []
    state = {"faultless": True}

    def new_link(root, aux=False):
        link = CoapLink(w, w.new_side(aux), root)
        links.append(link)
        return link

    class FakeContext:
        @staticmethod
        async def create_server_context(root, bind=None, **kw):
            await asyncio.sleep(hist.get("connect", 0.01))
            return new_link(root)

        @staticmethod
        async def create_client_context(*a, **kw):
            await asyncio.sleep(hist.get("connect", 0.01))
            return new_link(None, aux=True)

    def service(port):
        return HomeKitService(name="acc", id=ADDR.lower(), model="m", feature_flags=FeatureFlags(0), status_flags=StatusFlags(0), config_num=1, state_num=1, category=Categories(5),
                              protocol_version="1.1", type="_hap._udp.local.", address="fd00::1", addresses=["fd00::1"], port=port)

    controller = SimpleNamespace(pairings={}, _char_cache=CharacteristicCacheMemory())
    port = 5683
    with mock.patch.object(coapc, "Context", FakeContext):
        p = CoAPPairing(controller, dict(w.ident.pairing_data(hosts=("fd00::1",), port=port, connection="CoAP")))
        p.restore_accessories_state(ble_session_db(), 1, None, None)
        p.description = service(port)
        w.probe = lambda: bool(p.is_connected) or bool(p.is_available) or bool(p.connection.is_connected)
        p.dispatcher_connect(lambda ev: w.delivered.append((w.tick(), repr(ev))))

        async def call(entry):
            w.observe("call " + entry)
            need, fn = COAP_ENTRIES[entry]
            rec = {"entry": entry, "start": w.tick(), "outcome": "pending", "need": need, "after_shutdown": w.shutdown, "result": "", "faultless": state["faultless"]}
            calls.append(rec)
            try:
                r = await fn(p, w)
                rec["outcome"], rec["result"] = "returned", repr(r)
            except asyncio.CancelledError:
                rec["outcome"] = "cancelled"
            except BaseException as e:  # noqa: BLE001
                rec["outcome"] = "raised:" + type(e).__name__
                rec["keys"] = isinstance(e, (E.AuthenticationError, E.EncryptionError))
            finally:
                rec["end"] = w.tick()
                w.observe("end of " + entry)

        async def finish(ts, limit=600.0):
            ts = [t for t in ts if not t.done()]
            if ts:
                await asyncio.wait(ts, timeout=limit)
            await settle(loop)
            w.observe("quiescent")

        for step in hist["steps"]:
            kind, args = step[0], step[1:]
            cur = links[-1] if links else None
            if kind not in FAULTLESS:
                state["faultless"] = False
            if kind == "op":
                t = asyncio.ensure_future(call(args[0]))
                tasks.append(t)
                await finish([t])
            elif kind == "par":
                ts = [asyncio.ensure_future(call(e)) for e in args[0]]
                tasks.extend(ts)
                await finish(ts)
            elif kind == "opc":      # the caller gives up after dt seconds
                t = asyncio.ensure_future(call(args[0]))
                tasks.append(t)
                await asyncio.sleep(args[1])
                t.cancel()
                await finish([t])
            elif kind in ("silent", "neterr", "garble", "vsilent"):
                w.faults[kind] = args[0] if args else 1
            elif kind == "reboot":   # the accessory restarts: every session and the resumable secret are gone
                w.resume = None
                for lk in links:
                    if lk.side.who == "genuine":
                        lk.side.keys, lk.rebooted = None, True
            elif kind == "peer":     # whoever answered so far leaves the network; new endpoints are answered by the named peer
                for lk in links:
                    lk.gone = True
                w.peer, w.style = args[0], (args[1] if len(args) > 1 else "own-key")
            elif kind == "endpoint":  # zeroconf reports another port: the library drops its context
                port += 1
                try:
                    p._async_description_update(service(port))
                except Exception as e:  # noqa: BLE001
                    w.notes.append(f"_async_description_update raised {type(e).__name__}")
                await asyncio.sleep(0)
                await finish([t for t in asyncio.all_tasks(loop) if t is not asyncio.current_task(loop)], limit=120.0)
            elif kind == "event":    # whoever answers on the context opened last pushes an event to the controller's event resource
                if cur is not None and cur.root is not None and not cur.shut and not cur.gone and () in getattr(cur.root, "_resources", {}):
                    side = cur.side
                    body = _t8(0x01, b"\x01")
                    pdu = struct.pack("<BHH", 0, 21, len(body)) + body
                    sent = getattr(cur, "ev_sent", 0)  # the accessory's event counter on this link: one per event it sends
                    if side.keys is not None:
                        payload = ChaCha20Poly1305(side.keys[2]).encrypt(CoapLink.nonce(sent), pdu, b"")
                    else:
                        payload = pdu if side.style == "plain" else w.rb(len(pdu) + 16)
                    cur.ev_sent = sent + 1
                    n0 = len(w.delivered)
                    try:
                        r = await cur.root._resources[()].render_put(SimpleNamespace(payload=payload))
                        code = r.code
                    except Exception as e:  # noqa: BLE001
                        code = "raised " + type(e).__name__
                    in_step = getattr(cur, "ev_in_step", True)  # every earlier event on this link was taken: the two counters agree by construction
                    cur.ev_in_step = in_step and code == Code.VALID
                    if side.who == "genuine" and side.proved and side.keys is not None and not side.closed and in_step and code == Code.NOT_FOUND:
                        problems.append(("coap-session/event-key-differs", f"link {side.idx}: event number {sent} the genuine accessory sealed under Event-Read-Encryption-Key of the session proved on this link "
                                         f"(every earlier one was taken) was answered with {code}: the two ends do not hold the same event key"))
                    if (side.who != "genuine" or not side.proved) and len(w.delivered) > n0:
                        problems.append(("coap-session/unauthenticated-event-delivered", f"link {side.idx}: an event pushed by a peer that has proved nothing on this link reached the listeners: {w.delivered[-1][1][:80]}"))
                await finish([])
            elif kind == "wait":
                await asyncio.sleep(args[0])
                await finish([])
            elif kind == "shutdown":
                w.shutdown = True
                try:
                    await asyncio.wait_for(p.shutdown(), 600)
                except Exception as e:  # noqa: BLE001
                    n = f"shutdown() raised {type(e).__name__}"
                    if n not in w.notes:
                        w.notes.append(n)
                await finish([])
        for t in tasks:
            t.cancel()
        await settle(loop)
    stats = {"links": len(links), "proved": [s.proved or "-" for s in w.sides], "who": [s.who for s in w.sides], "calls": [(r["entry"], r["outcome"]) for r in calls],
             "framed": sum(len(s.framed) for s in w.sides), "notes": w.notes}
    return problems + judge_links(w, calls, "coap"), stats


def run_link_history(hist):
    loop = simnet.VLoop()
    asyncio.set_event_loop(loop)
    try:
        return loop.run_until_complete({"ble-session": ble_scenario, "coap-session": coap_scenario}[hist["stream"]](loop, hist))
    finally:
        try:
            pend = [t for t in asyncio.all_tasks(loop) if not t.done()]
            for t in pend:
                t.cancel()
            if pend:
                loop.run_until_complete(asyncio.gather(*pend, return_exceptions=True))
            loop.run_until_complete(loop.shutdown_asyncgens())
        except Exception:  # noqa: BLE001
            pass
        loop.close()


BLE_OPS = ["la", "get", "get", "geton", "put", "ident", "lp", "addp", "rmp", "pop", "pop0", "sub", "sub2", "tp"]
BLE_REQ_OPS = ["get", "geton", "put", "ident", "lp", "addp", "rmp"]  # calls that send a request of their own
DISC_MODES = ["clean", "nocb"] + ["raise:" + x for x in LINK_EXC]


def ble_endings():
    """every way a GATT link can end (name, steps): the library disconnects it - close(), close_after_operation(), the automatic
    close after a request that was cancelled / whose answer was damaged / that hit a GATT error - while the stack delivers the
    disconnected callback at once, late or never (disconnect() raises each exception class the library handles); or the link
    dies by itself - reported with its callback, with the callback a little later, not reported at all (every GATT operation
    raises and the next request finds out), in the middle of a request"""
    out = []
    for m in DISC_MODES:
        out.append(("close/" + m, [["close", m]]))
        out.append(("close-after-operation/" + m, [["disc", m], ["op", "cao"]]))
        out.append(("cancelled-request/" + m, [["disc", m], ["opc", "get", 2]]))
        out.append(("damaged-answer/" + m, [["disc", m], ["garble"], ["op", "geton"]]))
    for x in LINK_EXC:
        for m in ("clean", "nocb", "raise:" + x):
            out.append((f"dead:{x}/{m}", [["lost", "dead:" + x, m]]))
        out.append((f"gatt-error:{x}", [["disc", "raise:" + x], ["ioerr", x, 2], ["op", "put"]]))
    out.append(("lost/cb", [["lost", "cb"]]))
    out.append(("lost/cb-later", [["lost", "nocb"], ["wait", 0.5], ["latecb"]]))
    out.append(("lost-in-request/cb", [["opl", "get", 2, "cb"]]))
    out.append(("lost-in-request/dead", [["disc", "raise:EOFError"], ["opl", "get", 2, "dead:BleakError"]]))
    return out


def ble_grid(rng):
    """link 1 verified -> every ending -> {the genuine accessory, an impostor} answers on the next link -> every entry point"""
    out = []
    nexts = [["la"], ["get"], ["put"], ["pop"], ["lp"], ["pop0"], ["sub2", "geton"], ["ident"], ["tp"]]
    for name, ending in ble_endings():
        for nxt in nexts:
            for who in ("genuine", "impostor"):
                steps = [["op", rng.choice(["la", "get", "pop", "sub"])]] + [list(x) for x in ending]
                if who == "impostor":
                    steps.append(["peer", "impostor", rng.choice(IMPOSTOR_STYLES)])
                elif rng.random() < 0.3:
                    steps.append(rng.choice([["reboot"], ["resume", False]]))
                steps += [["op", e] for e in nxt] + [["latecb"], ["op", "get"]]
                out.append({"stream": "ble-session", "seed": rng.randrange(1 << 30), "mtu": rng.choice([64, 158, 512]), "latency": rng.choice([0.0, 0.0, 0.01]), "end": name, "steps": steps})
    return out


def gen_ble_history(rng):
    steps, endings = [], ble_endings()
    healthy = False  # the generator's own guess that a proved session is up (only used to place notifications)
    for epoch in range(rng.choice([2, 3, 3, 4, 5])):
        who = "genuine" if epoch == 0 or rng.random() < 0.7 else "impostor"
        steps.append(["peer", who, rng.choice(IMPOSTOR_STYLES)])
        if rng.random() < 0.2:
            steps.append(rng.choice([["reboot"], ["resume", False], ["resume", True], ["connfail", 1, rng.choice(LINK_EXC)]]))
        if who == "genuine" and rng.random() < 0.25:
            # notifications are started 1.5 s after a subscription; then the accessory raises one
            steps += [["op", rng.choice(["sub", "sub2"])], ["op", "get"], ["wait", 2.0], ["notify"]]
            healthy = True
        for _ in range(rng.choice([1, 1, 2, 3])):
            r = rng.random()
            if r < 0.12:
                steps.append(["par", [rng.choice(BLE_OPS) for _ in range(rng.choice([2, 3]))]])
            elif r < 0.2:
                steps.append(["adv"])
            elif r < 0.3:
                steps.append(["wait", rng.choice([0.1, 2.0, 2.0])])
            elif r < 0.38 and healthy:
                steps.append(["notify"])
            else:
                steps.append(["op", rng.choice(BLE_OPS)])
                healthy = who == "genuine"
        if rng.random() < 0.15:
            steps.append(["latecb"])
        name, ending = rng.choice(endings)
        ending = [list(x) for x in ending]
        for st in ending:  # vary the entry point and the instant inside the request
            if st[0] in ("opc", "opl"):
                st[1], st[2] = rng.choice(BLE_REQ_OPS), rng.choice([1, 2, 2, 3, 5])
            elif st[0] == "op" and st[1] not in ("cao",):
                st[1] = rng.choice(BLE_REQ_OPS)
            elif st[0] == "ioerr":
                st[2] = rng.choice([1, 2, 3, 4])
        steps += ending
        healthy = False
    if rng.random() < 0.3:
        steps += [["shutdown", rng.choice(DISC_MODES)], ["op", rng.choice(BLE_OPS)]]
    steps += [["latecb"], ["op", rng.choice(BLE_REQ_OPS)]]
    return {"stream": "ble-session", "seed": rng.randrange(1 << 30), "mtu": rng.choice([64, 158, 512]), "latency": rng.choice([0.0, 0.0, 0.01, 0.05]), "steps": steps}


COAP_OPS = ["la", "get", "get", "geton", "put", "lp", "rmp", "sub", "sub2", "unsub", "close", "pop"]
COAP_REQ_OPS = ["la", "get", "geton", "put", "lp", "rmp", "pop"]


def coap_endings():
    """every way a CoAP session can end: a request that is never answered (the library's time-out), a network error, a damaged
    answer, an accessory that restarted and answers 4.04, a new port announced over zeroconf, a caller that gives up inside a
    request, a pair-verify that times out, the accessory leaving the network"""
    return [("timeout", [["silent", 1], ["op", "get"]]), ("network-error", [["neterr", 1], ["op", "put"]]), ("damaged-answer", [["garble", 1], ["op", "get"]]),
            ("restart-404", [["reboot"], ["op", "geton"]]), ("endpoint-changed", [["endpoint"]]), ("cancelled-request", [["silent", 1], ["opc", "get", 3.0]]),
            ("endpoint-changed+verify-timeout", [["endpoint"], ["vsilent", 1], ["op", "get"]]), ("none", [])]


def coap_grid(rng):
    out = []
    for name, ending in coap_endings():
        for nxt in COAP_REQ_OPS + ["sub"]:
            for who in ("genuine", "impostor"):
                steps = [["op", rng.choice(["la", "get", "sub"])], ["event"]] + [list(x) for x in ending]
                if who == "impostor":
                    steps.append(["peer", "impostor", rng.choice(IMPOSTOR_STYLES)])
                steps += [["op", nxt], ["event"], ["op", "get"], ["event"]]
                out.append({"stream": "coap-session", "seed": rng.randrange(1 << 30), "end": name, "steps": steps})
    return out


def gen_coap_history(rng):
    steps, endings = [], coap_endings()
    who = "genuine"
    for epoch in range(rng.choice([2, 3, 3, 4])):
        new = "genuine" if epoch == 0 or rng.random() < 0.7 else "impostor"
        if new != who or new == "impostor":
            steps.append(["peer", new, rng.choice(IMPOSTOR_STYLES)])
        who = new
        for _ in range(rng.choice([1, 2, 3])):
            r = rng.random()
            if r < 0.15:
                steps.append(["par", [rng.choice(COAP_OPS) for _ in range(rng.choice([2, 3]))]])
            elif r < 0.3:
                steps.append(["event"])
            elif r < 0.35:
                steps.append(["wait", rng.choice([0.5, 20.0])])
            else:
                steps.append(["op", rng.choice(COAP_OPS)])
        ending = [list(x) for x in rng.choice(endings)[1]]
        for st in ending:
            if st[0] in ("op", "opc"):
                st[1] = rng.choice(COAP_REQ_OPS)
        steps += ending
    if rng.random() < 0.3:
        steps += [["shutdown"], ["op", rng.choice(COAP_OPS)]]
    steps += [["op", rng.choice(COAP_REQ_OPS)], ["event"]]
    return {"stream": "coap-session", "seed": rng.randrange(1 << 30), "connect": rng.choice([0.01, 0.2]), "steps": steps}


def link_stream(ctx, rng):
    """BLE and CoAP session histories: a grid (ending x who answers next x entry point) and random histories of 2-5 links"""
    ble, coap = ble_grid(rng), coap_grid(rng)
    if not ctx.thorough():
        ble, coap = rng.sample(ble, ctx.budget(260, len(ble))), rng.sample(coap, ctx.budget(60, len(coap)))
    hists = ble + [gen_ble_history(rng) for _ in range(ctx.budget(150, 6000))] + coap + [gen_coap_history(rng) for _ in range(ctx.budget(80, 3000))]
    sampled = set()
    reported = Counter()
    for hist in hists:
        ctx.evaluations += 1
        t = hist["stream"].split("-")[0]
        try:
            problems, stats = run_link_history(hist)
        except Exception as e:  # noqa: BLE001
            problems, stats = [(f"{t}-session/exc {type(e).__name__}", f"the history could not be run to its end: {type(e).__name__}: {e}")], {"links": 0, "proved": [], "who": [], "calls": [], "framed": 0, "notes": []}
        ctx.nontrivial.add((hist["stream"], hist.get("end") or tuple(s[0] for s in hist["steps"] if s[0] not in ("op", "wait", "peer")), tuple(stats["who"]), tuple(stats["proved"]), tuple(sorted({o for _, o in stats["calls"]}))))
        ctx.dist[f"{t}-session:links={min(stats['links'], 6)}"] += 1
        for who, proved in zip(stats["who"], stats["proved"]):
            ctx.dist[f"{t}-session:link:{who}:{proved}"] += 1
        for entry, outcome in stats["calls"]:
            ctx.dist[f"{t}-session:call:{entry}:{outcome}"] += 1
        for st in hist["steps"]:
            if st[0] not in ("op", "par", "wait", "peer"):
                ctx.dist[f"{t}-session:step:{st[0]}" + (":" + str(st[1]).split(":")[0] if st[0] in ("close", "lost", "disc") else "")] += 1
        if "end" in hist:
            ctx.dist[f"{t}-session:grid-ending:{hist['end'].split(':')[0].split('/')[0]}"] += 1
        for n in stats["notes"]:
            if f"{t}-session: {n}" not in ctx.notes and len(ctx.notes) < 30:
                ctx.notes.append(f"{t}-session: {n}")
        if hist["stream"] not in sampled and "end" not in hist and len(ctx.samples) < 10:
            sampled.add(hist["stream"])
            ctx.samples.append(hist)
        done = set()
        for sig, text in problems:
            if sig not in done:
                done.add(sig)
                reported[sig] += 1
                ctx.dist[f"violations:{sig}"] += 1
                if reported[sig] <= 20:  # every failing history is counted; the first twenty per signature are kept as replayable inputs
                    ctx.violation(sig, text, hist)


LINK_PROBES = [  # histories outside the fault model of the gated stream (see ASSUMPTIONS): what the library does there is recorded, not asserted
    ("a peer whose pair-verify FAILED keeps its GATT link; subscribe() starts notifications on it and a notification makes the library read the characteristic in the clear and hand the answer to listeners",
     {"stream": "ble-session", "seed": 11, "unrestricted": True, "steps": [["op", "get"], ["close", "clean"], ["peer", "impostor", "plain"], ["op", "get"], ["op", "sub2"], ["wait", 2.0], ["notify"]]}),
    ("a link the stack reports as gone (is_connected False) whose disconnected callback has not been delivered: the next call opens a new link and skips pair-verify (keys of the previous link)",
     {"stream": "ble-session", "seed": 13, "unrestricted": True, "steps": [["op", "get"], ["lost", "nocb"], ["op", "get"]]}),
    ("the same, with close() in between (close() returns early on a client that is not connected and resets nothing)",
     {"stream": "ble-session", "seed": 14, "unrestricted": True, "steps": [["op", "get"], ["lost", "nocb"], ["close", "clean"], ["op", "la"]]}),
    ("a disconnected callback owed for an EARLIER link arrives while the next session is up: its keys are dropped, the next notification is answered with a read in the clear",
     {"stream": "ble-session", "seed": 15, "unrestricted": True, "steps": [["op", "sub"], ["op", "get"], ["wait", 2.0], ["close", "nocb"], ["op", "get"], ["wait", 2.0], ["latecb"], ["notify"]]}),
    ("close() whose disconnect() raises while the link stays usable, concurrent with a pair-verify a background task (subscribe) has in flight: the exchange completes after close() has reset the state, its keys survive and the next link skips pair-verify",
     {"stream": "ble-session", "seed": 16, "unrestricted": True, "latency": 0.05, "steps": [["op", "get"], ["close", "nocb"], ["op", "get"], ["latecb"], ["op", "sub2"], ["close", "raise:TimeoutError"], ["op", "get"]]}),
    ("thread_provision() disconnects the client itself (force_fresh_connection) and leaves the reset to the disconnected callback: when that callback comes after disconnect() has returned, the fresh link is used with the old keys",
     {"stream": "ble-session", "seed": 17, "unrestricted": True, "steps": [["op", "get"], ["disc", "nocb"], ["op", "tp"], ["op", "get"]]}),
]


def link_probes(ctx):
    for what, hist in LINK_PROBES:
        try:
            problems, _ = run_link_history(hist)
        except Exception as e:  # noqa: BLE001
            problems = [("probe/exc", f"{type(e).__name__}: {e}")]
        sigs = sorted({s for s, _ in problems})
        ctx.dist["link-probe:" + ("manifest" if sigs else "not-manifest")] += 1
        ctx.notes.append(f"ble-session probe outside the gated fault model (noted, not asserted): {what} -> " + (", ".join(sigs) if sigs else "nothing observed") + f"; input {json.dumps(hist['steps'])}")


def replay(ctx, driver, c):
    stream = c.get("stream")
    if stream == "session":
        problems, _ = run_session(c)
        return "; ".join(f"{s}: {t}" for s, t in problems) or None
    if c.get("model") == "ble-lifecycle":
        from harness.c01_blemodel import replay_blemodel
        return "; ".join(replay_blemodel(ctx, driver, c)) or None
    if stream in ("ble-session", "coap-session"):
        problems, _ = run_link_history(c)
        return "; ".join(f"{s}: {t}" for s, t in problems) or None
    if stream == "verify" and "record" in c:
        rec = c["record"]
        ident = refacc.Identity(lambda n: bytes(n), acc_id=unhx(rec["acc_id"]), ios_id=rec["ios_id"])
        ident.acc_ltsk = ed25519.Ed25519PrivateKey.from_private_bytes(unhx(rec["acc_ltsk"]))
        ident.acc_ltpk = ident.acc_ltsk.public_key().public_bytes(**refacc.RAW)
        ident.ios_ltsk = ed25519.Ed25519PrivateKey.from_private_bytes(unhx(rec["ios_ltsk"]))
        ident.ios_ltpk = ident.ios_ltsk.public_key().public_bytes(**refacc.RAW)
        m2 = [(k, unhx(v)) for k, v in c["m2"]]
        m4 = [(k, unhx(v)) for k, v in c["m4"]]
        res = []
        for via_wire in (False, True):
            try:
                out = exchange(ident, unhx(c["eph"]), m2, m4, via_wire=via_wire)[0]
            except Exception as e:  # noqa: BLE001
                out = "not-expressible " + type(e).__name__
            ok = out.startswith("ok")
            if ok != bool(c.get("legit")) and not out.startswith("not-expressible"):
                res.append(f"{'IP/CoAP decoding' if via_wire else 'decoded list'}: {'keys returned for a reply that is not the genuine one' if ok else 'genuine exchange failed: ' + out[:60]}")
        return "; ".join(res) or None
    if stream == "resume-errval":
        ident = refacc.Identity(lambda n: bytes(range(n)))
        prev = unhx(c["prev"])

        def derive(salt, info, length=32):
            return refacc.hk(prev, salt, info, length)
        m2 = [(k, unhx(v)) for k, v in c["m2"]]
        with pinned(unhx(c["eph"])):
            g = P.get_session_keys(ident.pairing_data(), unhx(c["sid"]), derive)
            g.send(None)
        try:
            g.send(L(m2) if c["form"] == "list" else dict(TLV.decode_bytearray(bytearray(TLV.encode_list(L(m2))))))
            return "the attempt went on after a reply carrying an Error item"
        except StopIteration:
            return "session keys returned for a resume reply carrying an Error item"
        except Exception:  # noqa: BLE001
            return None
    return None
