"""C01 - pair-verify yields session keys only for the authentic paired accessory."""
from __future__ import annotations

import asyncio
import struct
from unittest import mock

from cryptography.hazmat.primitives.asymmetric import ed25519, x25519
from cryptography.hazmat.primitives.ciphers.aead import ChaCha20Poly1305

from harness import cryptoval, refacc, simnet
from harness.common import Ctx, Driver, compare_with_model, hx, load_corpus

import aiohomekit.exceptions as E
import aiohomekit.protocol as P
from aiohomekit.protocol.tlv import TLV, TlvParseException

ID = "C01"
RULE = ("honest exchanges over random records/ephemerals; adversarial M2/M4: every single-bit flip of the accessory public key, a sample of bit and byte corruptions of the encrypted "
        "data and of the decrypted sub-TLV re-sealed under the right key, removal/duplication/reordering of TLV items, wrong long-term key, wrong identifier, signature over a permuted "
        "transcript, M2 recorded from another exchange, 31/33-byte keys, low-order key, M4 with error/foreign state; resumption with right and wrong secrets; the three key install sites. "
        "non-trivial = distinct (mutation class, field, outcome class)")
TRUSTED = ["reference accessory harness/refacc.py (cryptography)", "Lean Real X25519/Ed25519/HKDF/ChaCha20-Poly1305 (validated against cryptography each run)"]
ASSUMPTIONS = ["unforgeability of Ed25519 and integrity of ChaCha20-Poly1305 (never theorems); the tamper theorems are consequences of the interface laws (Crypto.Laws), proved satisfiable by a toy instance",
               "the controller's ephemeral key is pinned by patching X25519PrivateKey.generate in aiohomekit.protocol",
               "legitimacy oracle: success is expected iff the values the controller actually uses (dict view: last occurrence of each type) are the genuine ones of this exchange"]
EXPLANATION = "Lean theorems C01_* over the model of get_session_keys with an abstract crypto interface; byte-exact differential tie with executable crypto; adversarial streams judged by an independent accessory"


def pinned(seed: bytes):
    return mock.patch.object(P.x25519.X25519PrivateKey, "generate", staticmethod(lambda: x25519.X25519PrivateKey.from_private_bytes(seed)))


def items_str(items):
    return ",".join(f"{int(k)}:{hx(v)}" for k, v in items) if items else "-"


def toks(items):
    return " ".join(f"{int(k)} {hx(v)}" for k, v in items)


def L(items):
    return [[int(k), bytearray(v)] for k, v in items]


CLS = {"InvalidError", "AuthenticationError", "BackoffError", "MaxPeersError", "MaxTriesError", "UnavailableError", "BusyError", "InvalidAuthTagError", "IncorrectPairingIdError",
       "InvalidSignatureError", "ValueError", "TlvParseException", "UnicodeDecodeError"}


def exchange(ident, eph, m2_items, m4_items, via_wire=False):
    """drive the real generator; returns canonical outcome string + python-side details"""
    with pinned(eph):
        g = P.get_session_keys(ident.pairing_data())
        req1, exp = g.send(None)
    m1 = [(k, bytes(v)) for k, v in req1]

    def wire(items, expected):
        # what HomeKitConnection.post_tlv / CoAP do_pair_verify hand to the generator
        if not via_wire:
            return L(items)
        return TLV.decode_bytes(TLV.encode_list(L(items)), expected=expected)
    try:
        req3, exp3 = g.send(wire(m2_items, exp))
    except StopIteration:
        return "early-keys", m1, None, None
    except Exception as e:  # noqa: BLE001
        return "err2 " + type(e).__name__, m1, None, None
    m3 = [(k, bytes(v)) for k, v in req3]
    try:
        g.send(wire(m4_items, exp3))
    except StopIteration as s:
        sid, derive = s.value
        keys = (bytes(sid), derive(b"Control-Salt", b"Control-Write-Encryption-Key"), derive(b"Control-Salt", b"Control-Read-Encryption-Key"), derive(b"Event-Salt", b"Event-Read-Encryption-Key"))
        return f"ok {items_str(m3)} {hx(keys[0])} {hx(keys[1])} {hx(keys[2])} {hx(keys[3])}", m1, m3, keys
    except Exception as e:  # noqa: BLE001
        return f"err4 {type(e).__name__} {items_str(m3)}", m1, m3, None
    return "yielded-again", m1, m3, None


def run(ctx: Ctx, driver: Driver):
    rng = ctx.rng
    rb = lambda n: bytes(rng.randrange(256) for _ in range(n))  # noqa: E731
    cryptoval.validate(ctx, driver, 4)
    cases, outs, lines = [], [], []

    def one(kind, ident, eph, acc, m2, m4, legit, to_model=True):
        out, m1, m3, keys = exchange(ident, eph, m2, m4)
        ctx.evaluations += 1
        case = {"stream": "verify", "kind": kind, "eph": hx(eph), "m2": [[k, hx(v)] for k, v in m2], "m4": [[k, hx(v)] for k, v in m4]}
        cls = out.split(" ")[0] + (":" + out.split(" ")[1] if out.startswith("err") else "")
        ctx.nontrivial.add((kind, cls))
        ctx.dist[f"{kind}:{cls}"] += 1
        if out in ("early-keys", "yielded-again"):
            ctx.violation(f"verify/{kind}/{out}", f"{kind}: generator protocol broken ({out})", case)
        elif out.startswith("err") and out.split(" ")[1] not in CLS:
            ctx.violation(f"verify/{kind}/{out.split(' ')[1]}", f"{kind}: unexpected exception class {out.split(' ')[1]}", case)
        if legit:
            if not out.startswith("ok"):
                ctx.violation(f"verify/{kind}/rejected-genuine", f"{kind}: genuine exchange failed with {out[:60]}", case)
            else:
                if not acc.check_m3(m3):
                    ctx.violation(f"verify/{kind}/m3-rejected", f"{kind}: a conformant accessory rejects the controller's M3", case)
                w, r, ev = acc.keys()
                if (keys[1], keys[2], keys[3]) != (w, r, ev):
                    ctx.violation(f"verify/{kind}/keys-differ", f"{kind}: controller and accessory hold different keys", case)
        else:
            if out.startswith("ok"):
                ctx.violation(f"verify/{kind}/accepted", f"{kind}: session keys were returned for a reply the paired accessory did not produce for this exchange", case)
        # the same exchange as the IP and CoAP transports see it: the reply is re-encoded and decoded with the
        # expected-type filter the generator asked for (the direct form above is what BLE hands over)
        def expressible(items):
            try:
                return [(int(k), bytes(v)) for k, v in TLV.decode_bytes(TLV.encode_list(L(items)))] == [(int(k), bytes(v)) for k, v in items]
            except Exception:  # noqa: BLE001
                return False
        if not (expressible(m2) and expressible(m4)):
            # e.g. two adjacent items of one type: on the wire they are fragments of one value
            wout, wm3, wkeys = "skipped", None, None
        else:
            try:
                wout, _, wm3, wkeys = exchange(ident, eph, m2, m4, via_wire=True)
            except Exception as e:  # noqa: BLE001
                wout, wm3, wkeys = "wire-failed " + type(e).__name__, None, None
        ctx.evaluations += 1
        ctx.dist[f"wire:{kind}:{wout.split(' ')[0]}"] += 1
        if legit and not wout.startswith("ok") and wout != "skipped":
            ctx.violation(f"verify/{kind}/wire/rejected-genuine", f"{kind} (IP/CoAP decoding): genuine exchange failed with {wout[:60]}", case)
        if legit and wout.startswith("ok"):
            w, r, ev = acc.keys()
            if not acc.check_m3(wm3) or (wkeys[1], wkeys[2], wkeys[3]) != (w, r, ev):
                ctx.violation(f"verify/{kind}/wire/keys-differ", f"{kind} (IP/CoAP decoding): accessory rejects M3 or keys differ", case)
        if not legit and wout.startswith("ok"):
            ctx.violation(f"verify/{kind}/wire/accepted", f"{kind} (IP/CoAP decoding): session keys were returned although the accessory did not produce/accept this exchange ({wout[:40]})", case)
        if to_model:
            pd = ident
            cases.append(case)
            outs.append(out)
            lines.append(f"pv.run {hx(pd.acc_id)} {hx(pd.acc_ltpk)} {hx(pd.ios_id.encode())} {hx(pd.ios_ltsk.private_bytes(**refacc.PRIV))} {hx(eph)} {toks(m2)} | {toks(m4)}")

    def fresh():
        ident = refacc.Identity(rb, acc_id=rng.choice([b"12:34:56:00:01:0A", b"AA:BB:CC:DD:EE:FF", b"x"]), ios_id=rng.choice(["ctrl-1", "2f4e1d3c-0000-4000-8000-aabbccddeeff"]))
        eph = rb(32)
        acc = refacc.VerifyAccessory(ident, rb(32))
        ios_pk = x25519.X25519PrivateKey.from_private_bytes(eph).public_key().public_bytes(**refacc.RAW)
        m2 = acc.m2(ios_pk)
        return ident, eph, acc, ios_pk, m2

    M4 = [(6, b"\x04")]
    # ---- honest
    for _ in range(ctx.budget(25, 800)):
        ident, eph, acc, ios_pk, m2 = fresh()
        one("honest", ident, eph, acc, m2, M4, True)
        # reordering / harmless duplication keep the effective values genuine
        one("reordered", ident, eph, acc, [m2[2], m2[0], m2[1]], M4, True)
        one("dup-garbage-first", ident, eph, acc, [(3, rb(32)), (6, b"\x02")] + m2, M4, True)
        one("m4-no-state", ident, eph, acc, m2, [], True)
    # ---- adversarial
    ident, eph, acc, ios_pk, m2 = fresh()
    for bit in range(256):
        pk = bytearray(m2[1][1])
        pk[bit // 8] ^= 1 << (bit % 8)
        one("bitflip-pk", ident, eph, acc, [m2[0], (3, bytes(pk)), m2[2]], M4, False, to_model=(bit % 8 == 0 or bit == 255))
    enc = m2[2][1]
    for bit in rng.sample(range(len(enc) * 8), ctx.budget(80, len(enc) * 8)):
        e = bytearray(enc)
        e[bit // 8] ^= 1 << (bit % 8)
        one("bitflip-enc", ident, eph, acc, [m2[0], m2[1], (5, bytes(e))], M4, False, to_model=(bit % 5 == 0))
    for _ in range(ctx.budget(150, 3000)):
        ident, eph, acc, ios_pk, m2 = fresh()
        kind = rng.choice(["byte-enc", "resealed-sub-bitflip", "wrong-ltsk", "wrong-id", "id-case-variant", "id-prefix", "id-padded", "permuted-transcript", "other-exchange", "remove-pk", "remove-enc", "remove-sig", "remove-id",
                           "short-key", "long-key", "trunc-enc", "state-4", "state-missing-err", "m4-error", "m4-state", "low-order-key", "dup-garbage-last", "empty-enc", "swap-fields"])
        mm2, mm4, legit = list(m2), list(M4), False
        if kind == "byte-enc":
            e = bytearray(m2[2][1])
            e[rng.randrange(len(e))] = rng.randrange(256)
            if bytes(e) == m2[2][1]:
                continue
            mm2[2] = (5, bytes(e))
        elif kind == "resealed-sub-bitflip":
            sub = bytearray(acc.sub)
            sub[rng.randrange(len(sub))] ^= 1 << rng.randrange(8)
            mm2[2] = (5, ChaCha20Poly1305(acc.vkey).encrypt(b"\0\0\0\0PV-Msg02", bytes(sub), b""))
        elif kind == "wrong-ltsk":
            mm2 = acc.m2(ios_pk, ltsk=ed25519.Ed25519PrivateKey.from_private_bytes(rb(32)))
        elif kind == "wrong-id":
            mm2 = acc.m2(ios_pk, pid=b"99:99:99:99:99:99")
        elif kind in ("id-case-variant", "id-prefix", "id-padded"):
            # an identifier that only *resembles* the stored one, signed correctly by the genuine long-term key over itself
            sid = ident.acc_id
            var = {"id-case-variant": sid.swapcase(), "id-prefix": sid[:-1], "id-padded": sid + b" "}[kind]
            if var == sid:
                continue
            mm2 = acc.m2(ios_pk, pid=var)
        elif kind == "permuted-transcript":
            mm2 = acc.m2(ios_pk, permute=True)
        elif kind == "other-exchange":
            other = x25519.X25519PrivateKey.from_private_bytes(rb(32)).public_key().public_bytes(**refacc.RAW)
            mm2 = refacc.VerifyAccessory(ident, rb(32)).m2(other)
        elif kind == "remove-pk":
            mm2 = [m2[0], m2[2]]
        elif kind == "remove-enc":
            mm2 = [m2[0], m2[1]]
        elif kind in ("remove-sig", "remove-id"):
            sub = [(1, ident.acc_id), (10, refacc.untlv(acc.sub)[10])]
            sub = [x for x in sub if x[0] != (10 if kind == "remove-sig" else 1)]
            mm2[2] = (5, ChaCha20Poly1305(acc.vkey).encrypt(b"\0\0\0\0PV-Msg02", refacc.tlv(sub), b""))
        elif kind == "short-key":
            mm2[1] = (3, m2[1][1][:31])
        elif kind == "long-key":
            mm2[1] = (3, m2[1][1] + b"\0")
        elif kind == "trunc-enc":
            mm2[2] = (5, m2[2][1][:-1])
        elif kind == "state-4":
            mm2[0] = (6, b"\x04")
        elif kind == "state-missing-err":
            mm2 = [(7, bytes([rng.randrange(1, 8)]))] + m2[1:]
        elif kind == "m4-error":
            mm4 = rng.choice([[(6, b"\x04"), (7, b"\x02")], [(7, b"\x02")], [(7, b"\x06"), (6, b"\x04")]])
        elif kind == "m4-state":
            mm4 = [(6, bytes([rng.choice([1, 2, 3, 5, 6])]))]
        elif kind == "low-order-key":
            mm2[1] = (3, rng.choice([bytes(32), b"\x01" + bytes(31)]))
        elif kind == "dup-garbage-last":
            mm2 = m2 + [(6, b"\x02"), (3, rb(32))]
        elif kind == "empty-enc":
            mm2[2] = (5, b"")
        elif kind == "swap-fields":
            mm2 = [m2[0], (5, m2[1][1]), (3, m2[2][1])]
        one(kind, ident, eph, acc, mm2, mm4, legit)
    ctx.sample({k: (v if len(str(v)) < 300 else str(v)[:300] + "...") for k, v in cases[0].items()})
    ctx.sample({k: (v if len(str(v)) < 300 else str(v)[:300] + "...") for k, v in cases[-1].items()})
    compare_with_model(ctx, "verify", cases, outs, lines, driver)
    resume_stream(ctx, driver, rng, rb)
    install_sites(ctx, rng, rb)


def resume_stream(ctx, driver, rng, rb):
    cases, outs, lines = [], [], []
    for _ in range(ctx.budget(30, 600)):
        ident = refacc.Identity(rb)
        prev = rb(32)
        sid = rb(8)
        eph = rb(32)

        def derive(salt, info, length=32, prev=prev):
            return refacc.hk(prev, salt, info, length)
        with pinned(eph):
            g = P.get_session_keys(ident.pairing_data(), sid, derive)
            req1, exp = g.send(None)
        m1 = [(k, bytes(v)) for k, v in req1]
        ios_pk = dict(m1)[3]
        ctx.evaluations += 1
        # accessory side of resume (Table 6-27)
        reqkey = refacc.hk(prev, ios_pk + sid, b"Pair-Resume-Request-Info")
        try:
            ChaCha20Poly1305(reqkey).decrypt(b"\0\0\0\0PR-Msg01", dict(m1)[5], b"")
            acc_ok = dict(m1)[0] == b"\x06" and dict(m1)[14] == sid
        except Exception:  # noqa: BLE001
            acc_ok = False
        if not acc_ok:
            ctx.violation("resume/m1", "a conformant accessory does not accept the resume request", {"stream": "resume", "m1": [[k, hx(v)] for k, v in m1]})
        cases.append({"stream": "resume1", "prev": hx(prev), "sid": hx(sid), "eph": hx(eph)})
        outs.append(items_str(m1))
        lines.append(f"pv.resume1 {hx(prev)} {hx(sid)} {hx(eph)}")
        kind = rng.choice(["right", "right", "wrong-secret", "tag-bitflip", "no-method", "method-2", "nonempty-plain", "other-eph", "right+error", "right+state4",
                           "tag-truncated", "tag-truncated", "tag-extended", "wrong-secret-short-tag"])
        new_sid = rb(8)
        secret = prev if kind not in ("wrong-secret", "wrong-secret-short-tag") else rb(32)
        pk_for = ios_pk if kind != "other-eph" else rb(32)
        respkey = refacc.hk(secret, pk_for + new_sid, b"Pair-Resume-Response-Info")
        tag = ChaCha20Poly1305(respkey).encrypt(b"\0\0\0\0PR-Msg02", b"" if kind != "nonempty-plain" else b"x", b"")
        if kind == "tag-bitflip":
            t = bytearray(tag)
            t[rng.randrange(16)] ^= 1 << rng.randrange(8)
            tag = bytes(t)
        if kind == "tag-truncated":
            tag = tag[:rng.choice([15, 12, 8, 4, 2, 1])]  # a genuine tag cut short authenticates nothing
        if kind == "wrong-secret-short-tag":
            tag = tag[:rng.choice([4, 2, 1])]
        if kind == "tag-extended":
            tag = tag + rb(rng.choice([1, 4, 16]))
        m2 = [(6, b"\x02"), (0, b"\x06"), (14, new_sid), (5, tag)]
        if kind == "no-method":
            m2 = [x for x in m2 if x[0] != 0]
        if kind == "method-2":
            m2[1] = (0, b"\x02")
        if kind == "right+error":
            m2 = m2 + [(7, bytes([rng.choice([1, 2, 3, 6, 7])]))]
        if kind == "right+state4":
            m2[0] = (6, b"\x04")
        legit = kind == "right"
        try:
            g.send(L(m2))
            out = "continued"
        except StopIteration as s:
            rsid, rderive = s.value
            out = f"some {hx(rsid)} {hx(rderive(b'Control-Salt', b'Control-Write-Encryption-Key'))} {hx(rderive(b'Control-Salt', b'Control-Read-Encryption-Key'))}"
            want_shared = refacc.hk(prev, ios_pk + new_sid, b"Pair-Resume-Shared-Secret-Info")
            if legit and rderive(b"Control-Salt", b"Control-Write-Encryption-Key") != refacc.hk(want_shared, b"Control-Salt", b"Control-Write-Encryption-Key"):
                ctx.violation("resume/keys", "resumed keys differ from the accessory's", {"stream": "resume", "kind": kind})
        except Exception as e:  # noqa: BLE001
            out = "none:" + type(e).__name__  # fell through to the full exchange and failed there
        ctx.nontrivial.add(("resume", kind, out.split(" ")[0].split(":")[0]))
        ctx.dist[f"resume:{kind}:{out.split(' ')[0]}"] += 1
        if legit and not out.startswith("some"):
            ctx.violation("resume/rejected", f"genuine resume reply not accepted: {out}", {"stream": "resume", "kind": kind})
        if not legit and out.startswith("some"):
            ctx.violation("resume/accepted", f"resume reply of kind {kind} yielded keys", {"stream": "resume", "kind": kind})
        cases.append({"stream": "resume3", "kind": kind})
        outs.append(out if out.startswith("some") else "none")
        lines.append(f"pv.resume3 {hx(prev)} {hx(eph)} {toks(m2)}")
    compare_with_model(ctx, "resume", cases, outs, lines, driver)


def install_sites(ctx, rng, rb):
    """after a real pair-verify through each transport's own code, do the ciphers hold the right keys in the right directions?"""
    ident = refacc.Identity(rb)
    nonce = lambda c: struct.pack("<LQ", 0, c)  # noqa: E731
    # ---------------- IP: full SecureHomeKitConnection over simnet
    import aiohomekit.controller.ip.connection as ipc
    loop = simnet.VLoop()
    asyncio.set_event_loop(loop)
    net = simnet.Net(loop)
    st = {}

    def handler(t, data):
        s = st.setdefault(t, {"buf": b"", "acc": None, "secure": False, "rctr": 0, "wctr": 0, "ebuf": b""})
        if s["secure"]:
            s["ebuf"] += data
            plain = b""
            while len(s["ebuf"]) >= 2:
                n = struct.unpack("<H", s["ebuf"][:2])[0]
                if len(s["ebuf"]) < 2 + n + 16:
                    break
                plain += ChaCha20Poly1305(s["c2a"]).decrypt(nonce(s["rctr"]), s["ebuf"][2:2 + n + 16], s["ebuf"][:2])
                s["rctr"] += 1
                s["ebuf"] = s["ebuf"][2 + n + 16:]
            st["decrypted"] = plain
            body = b'{"accessories":[]}'
            resp = b"HTTP/1.1 200 OK\r\nContent-Length: %d\r\n\r\n" % len(body) + body
            lb = struct.pack("<H", len(resp))
            loop.call_soon(t.feed, lb + ChaCha20Poly1305(s["a2c"]).encrypt(nonce(s["wctr"]), resp, lb))
            s["wctr"] += 1
            return
        s["buf"] += data
        if b"\r\n\r\n" not in s["buf"]:
            return
        head, body = s["buf"].split(b"\r\n\r\n", 1)
        s["buf"] = b""
        m = refacc.untlv(body)

        def http(b):
            return b"HTTP/1.1 200 OK\r\nContent-Type: application/pairing+tlv8\r\nContent-Length: %d\r\n\r\n" % len(b) + b
        if m[6] == b"\x01":
            s["acc"] = refacc.VerifyAccessory(ident, rb(32))
            loop.call_soon(t.feed, http(refacc.tlv(s["acc"].m2(m[3]))))
        else:
            ok = s["acc"].check_m3(list(m.items()))
            st["m3_ok"] = ok
            s["c2a"], s["a2c"], _ = s["acc"].keys()
            s["secure"] = True
            loop.call_soon(t.feed, http(refacc.tlv([(6, b"\x04")])))
    net.handler = handler

    async def ip():
        with net.patched():
            conn = ipc.SecureHomeKitConnection(None, ident.pairing_data())
            await conn._connect_once()
            r = await conn.get_json("/accessories")
            await conn.close()
            return r
    ctx.evaluations += 1
    try:
        r = loop.run_until_complete(ip())
        if r != {"accessories": []} or not st.get("m3_ok") or not st.get("decrypted", b"").startswith(b"GET /accessories"):
            ctx.violation("install/ip", f"IP session after pair-verify does not work in both directions: {r!r}", {"stream": "install", "site": "ip"})
    except Exception as e:  # noqa: BLE001
        ctx.violation("install/ip", f"IP secure session failed: {type(e).__name__}: {e}", {"stream": "install", "site": "ip"})
    ctx.nontrivial.add(("install", "ip"))
    # ---------------- BLE: BlePairing._async_pair_verify with the GATT state-machine driver replaced
    import aiohomekit.controller.ble.pairing as blep

    async def ble():
        p = blep.BlePairing.__new__(blep.BlePairing)
        p._ble_request_lock = asyncio.Lock()
        p.pairing_data = ident.pairing_data(connection="BLE")
        p.client = object()
        p._session_id = None
        p._derive = None
        acc = refacc.VerifyAccessory(ident, rb(32))

        async def drive(client, char, sm):
            req, exp = sm.send(None)
            m2 = acc.m2(bytes(dict(req)[3]))
            req3, _ = sm.send({k: bytearray(v) for k, v in m2})
            assert acc.check_m3([(k, bytes(v)) for k, v in req3])
            try:
                sm.send({6: bytearray(b"\x04")})
            except StopIteration as s:
                return s.value
        with mock.patch.object(blep, "drive_pairing_state_machine", drive):
            await p._async_pair_verify()
        w, r, _ = acc.keys()
        c = p._encryption_key.encrypt(b"hello")
        ok1 = ChaCha20Poly1305(w).decrypt(nonce(0), c, b"") == b"hello"
        ok2 = p._decryption_key.decrypt(ChaCha20Poly1305(r).encrypt(nonce(0), b"world", b"")) == b"world"
        return ok1 and ok2
    ctx.evaluations += 1
    try:
        if not loop.run_until_complete(ble()):
            ctx.violation("install/ble", "BLE keys installed in the wrong direction", {"stream": "install", "site": "ble"})
    except Exception as e:  # noqa: BLE001
        ctx.violation("install/ble", f"BLE pair-verify failed: {type(e).__name__}: {e}", {"stream": "install", "site": "ble"})
    ctx.nontrivial.add(("install", "ble"))
    # ---------------- CoAP: do_pair_verify with aiocoap's context replaced
    import aiohomekit.controller.coap.connection as coapc

    async def coap():
        acc = refacc.VerifyAccessory(ident, rb(32))

        class Resp:
            def __init__(self, payload):
                self.payload = payload

        class Req:
            def __init__(self, msg):
                m = refacc.untlv(bytes(msg.payload))
                if m[6] == b"\x01":
                    payload = refacc.tlv(acc.m2(m[3]))
                else:
                    assert acc.check_m3(list(m.items()))
                    payload = refacc.tlv([(6, b"\x04")])
                f = asyncio.get_event_loop().create_future()
                f.set_result(Resp(payload))
                self.response = f

        class Ctx2:
            def request(self, msg):
                return Req(msg)

            async def shutdown(self):
                pass

        class FakeContext:
            @staticmethod
            async def create_server_context(root, bind=None):
                return Ctx2()
        conn = coapc.CoAPHomeKitConnection.__new__(coapc.CoAPHomeKitConnection)
        conn.enc_ctx = None
        conn.address = "[::1]:5683"
        conn.owner = None
        with mock.patch.object(coapc, "Context", FakeContext):
            await conn.do_pair_verify(ident.pairing_data(connection="CoAP"))
        w, r, ev = acc.keys()
        n0 = struct.pack("=4xQ", 0)
        ok1 = ChaCha20Poly1305(w).decrypt(n0, conn.enc_ctx.encrypt(b"req"), b"") == b"req"
        ok2 = conn.enc_ctx.decrypt(ChaCha20Poly1305(r).encrypt(n0, b"resp", b"")) == b"resp"
        ok3 = conn.enc_ctx.decrypt_event(ChaCha20Poly1305(ev).encrypt(n0, b"event", b"")) == b"event"
        return ok1 and ok2 and ok3
    ctx.evaluations += 1
    try:
        if not loop.run_until_complete(coap()):
            ctx.violation("install/coap", "CoAP keys installed in the wrong direction", {"stream": "install", "site": "coap"})
    except Exception as e:  # noqa: BLE001
        ctx.violation("install/coap", f"CoAP pair-verify failed: {type(e).__name__}: {e}", {"stream": "install", "site": "coap"})
    ctx.nontrivial.add(("install", "coap"))
    loop.close()


def replay(ctx, driver, c):
    return None
